/-
  C11 simulation, part 5: a whole feature block (no `script` / `language` statements, lookup blocks
  or references): what it appends to the lookup lists and to the feature map.
-/
import FontcProofs.FeaSimFlat
import FontcProofs.FeaTables

namespace Fontc.FeaCompile
open Cmp
set_option linter.unusedSimpArgs false

/-- the statements of the block are `lookupflag` and rule statements only -/
def FlatBody (body : List Stmt) : Prop := ∀ st ∈ body, (∃ f, st = .flag f) ∨ (∃ r, st = .rule r)

theorem flat_body (fx : Fixes) (U : List (List Glyph)) (tag : Tag) (dls : List Sys) (s0 : St) (body : List Stmt) :
    ∀ (w : Src.Walk) (s : St) (ids : List LookupId),
    FlatInv fx U tag dls s0 w s ids → FlatBody body → FlagsOk U body → NoMixFrom w body →
    ∃ ids', FlatInv fx U tag dls s0 (body.foldl Src.walkStmt w) (body.foldl (St.stmt fx) s) ids' := by
  induction body with
  | nil => intro w s ids h _ _ _; exact ⟨ids, h⟩
  | cons st body ih =>
    intro w s ids hinv hflat hflags hmix
    have hst := hflat st (by simp)
    obtain ⟨ids1, h1⟩ := flat_stmt fx U tag dls s0 w s ids st hinv (by
      rcases hst with ⟨f, rfl⟩ | ⟨r, rfl⟩
      · exact Or.inl ⟨f, rfl, hflags f (by simp)⟩
      · exact Or.inr ⟨r, rfl, hmix.1⟩)
    simp only [List.foldl_cons]
    exact ih _ _ ids1 h1 (fun st' h => hflat st' (by simp [h])) (fun f h => hflags f (by simp [h])) hmix.2

/-- `finish_current` + `add_lookup_to_current_feature_if_present` outside a lookup block -/
theorem finishAndAdd_spec (s : St) (hn : s.curName = none) :
    SameCtx s s.finishAndAdd ∧ s.finishAndAdd.cur = none ∧ Flushed s s.finishAndAdd := by
  obtain ⟨gsub, gpos, cur, curName, named, flag, aIds, fIds, ls, active, script, features⟩ := s
  simp only at hn
  subst hn
  cases cur with
  | none => simp [St.finishAndAdd, St.finishCurrent, SameCtx, Flushed]
  | some p =>
    obtain ⟨cf, b⟩ := p
    by_cases hpos : b.kind.isPos = true
    · cases active <;> simp [St.finishAndAdd, St.finishCurrent, push_eq, Flushed, hpos, SameCtx, St.addToFeature, addIdToActive]
    · cases active <;> simp [St.finishAndAdd, St.finishCurrent, push_eq, Flushed, hpos, SameCtx, St.addToFeature, addIdToActive]

/-- flushing the current lookup emits the lookup of the run in progress -/
theorem flush_emits (fx : Fixes) (reg : Src.Reg) (f : Flag) (rules : List Rule) (wflag : Flag) (s s' : St)
    (hrel : RunRel fx (some (reg, f, rules)) wflag s) (hfl : Flushed s s') :
    Emits fx s s' (some (f, rules)) := by
  obtain ⟨_, hne, hkinds, cf, hscur, hcf⟩ := hrel
  have hbk : (rules.foldl (Builder.add fx s.gsub.length s.namedId) (Builder.new (headKind rules))).kind = headKind rules := by
    rw [Builder.foldl_add_kind, Builder.new_kind]
  simp only [Flushed, hscur, hbk] at hfl
  simp only [Emits]
  by_cases hpos : (headKind rules).isPos = true
  · simp only [hpos, ↓reduceIte] at hfl ⊢
    exact ⟨hfl.2.1, hfl.2.2, _, hfl.1, hne, hkinds, by simp [Cmp.LookupId.isGpos, hpos], cf, s.namedId, s.gsub.length, hcf, by simp [hpos], rfl⟩
  · simp only [hpos, Bool.false_eq_true, ↓reduceIte] at hfl ⊢
    exact ⟨hfl.2.1, hfl.2.2, _, hfl.1, hne, hkinds, by simp [Cmp.LookupId.isGpos, hpos], cf, s.namedId, s.gsub.length, hcf, by simp [LookupId.gsubIdx], rfl⟩

/-- the `(system, lookups)` pairs of a block without `script` / `language` statements -/
def flatFinish (dls : List Sys) (ids : List LookupId) : List (Sys × List LookupId) :=
  dls.foldl (fun ls sys => if ls.any (·.1 == sys) then ls else ls ++ [(sys, ids)]) []

theorem finish_flat (a : Active) (ids : List LookupId) (_h3 : a.curSys = none) (h4 : a.scriptDefault = [])
    (h5 : a.lookups = (if ids = [] then [] else [(rootKey, ids)])) :
    a.finish = flatFinish a.defaults ids := by
  unfold Active.finish flatFinish
  by_cases hids : ids = []
  · subst hids
    simp [h4, h5, assocGet, List.lookup]
  · simp [h4, h5, hids, assocGet, List.lookup, rootKey]

def featureStart (s : St) (tag : Tag) : St :=
  ({ s with active := some { tag := tag, defaults := s.defaultSystems } }).clearFlags

def featureTail (s2 : St) : St :=
  ({ (match s2.finishAndAdd.active with
      | some a => { s2.finishAndAdd with features := a.finish.foldl (fun fs ((script, lang), ls) => featInsert (a.tag, lang, script) ls fs) s2.finishAndAdd.features }
      | none => s2.finishAndAdd) with active := none, script := none }).clearFlags

theorem feature_eq (fx : Fixes) (s : St) (tag : Tag) (body : List Stmt) :
    s.feature fx tag body = featureTail (body.foldl (St.stmt fx) (featureStart s tag)) := rfl

/-- state after the statements of the block and the final flush -/
theorem flat_feature_lookups (fx : Fixes) (U : List (List Glyph)) (tag : Tag) (s : St) (body : List Stmt)
    (hcl : s.cur = none ∧ s.curName = none ∧ s.script = none) (hids : IdsInv s) (hU : ∀ c ∈ s.attachIds, c ∈ U)
    (hflat : FlatBody body) (hflags : FlagsOk U body) (hmix : NoMixFrom {} body) :
    ∃ ids, OutRel fx (s.feature fx tag body) (Src.featureItems body) ids ∧ ids.Pairwise idLt ∧
      (∀ id ∈ ids, idBelow (s.feature fx tag body) id ∧ ¬ idBelow s id) ∧
      Grew s (s.feature fx tag body) ∧ IdsInv (s.feature fx tag body) ∧
      (∀ c ∈ (s.feature fx tag body).attachIds, c ∈ U) ∧
      (s.feature fx tag body).cur = none ∧ (s.feature fx tag body).curName = none ∧
      (s.feature fx tag body).active = none ∧ (s.feature fx tag body).flag = (0, none) ∧
      (s.feature fx tag body).script = none ∧ (s.feature fx tag body).named = s.named ∧
      (s.feature fx tag body).langsys = s.langsys ∧
      (s.feature fx tag body).features =
        (flatFinish s.defaultSystems ids).foldl (fun fs (x : Sys × List LookupId) => featInsert (tag, x.1.2, x.1.1) x.2 fs) s.features := by
  -- the state at the start of the block
  rw [feature_eq]
  have hinit : FlatInv fx U tag s.defaultSystems s {} (featureStart s tag) [] := {
    rel := ⟨⟨0, 0, by simp [featureStart, St.clearFlags, flagBits], by simp, by simp [featureStart, St.clearFlags]⟩, by simp [featureStart, St.clearFlags, hcl.1]⟩
    idsInv := hids
    attachU := hU
    normFlag := ⟨by simp, by simp⟩
    normCur := by simp
    reg := rfl
    curReg := by simp
    out := trivial
    ordered := List.Pairwise.nil
    below := by simp
    fresh := by simp
    ctx := ⟨hcl.2.1, rfl, rfl, hcl.2.2, rfl⟩
    grew := Grew.refl s
    active := ⟨_, rfl, rfl, rfl, rfl, rfl, rfl⟩ }
  obtain ⟨ids2, h2⟩ := flat_body fx U tag s.defaultSystems s body {} (featureStart s tag) [] hinit hflat hflags hmix
  -- the final flush
  generalize hw' : body.foldl Src.walkStmt {} = w' at h2
  generalize hs2 : body.foldl (St.stmt fx) (featureStart s tag) = s2 at h2 ⊢
  obtain ⟨hctx3, hcur3, hfl3⟩ := finishAndAdd_spec s2 h2.ctx.1
  obtain ⟨a, hsa, ha1, ha2, ha3, ha4, ha5⟩ := h2.active
  have hgrew23 : Grew s2 s2.finishAndAdd ∧
      ∃ ids3, OutRel fx s2.finishAndAdd (Src.featureItems body) ids3 ∧ ids3.Pairwise idLt ∧
        (∀ id ∈ ids3, idBelow s2.finishAndAdd id ∧ ¬ idBelow s id) ∧
        ∃ a3, s2.finishAndAdd.active = some a3 ∧ a3.tag = tag ∧ a3.defaults = s.defaultSystems ∧ a3.curSys = none ∧
          a3.scriptDefault = [] ∧ a3.lookups = (if ids3 = [] then [] else [(rootKey, ids3)]) := by
    have hitems : Src.featureItems body = (w'.flush).out := by simp [Src.featureItems, hw']
    cases hwc : w'.cur with
    | none =>
      have hsc : s2.cur = none := by have := h2.rel.2; rw [hwc] at this; exact this
      simp only [Flushed, hsc] at hfl3
      have hg : Grew s2 s2.finishAndAdd := ⟨⟨[], by simp [hfl3.1]⟩, ⟨[], by simp [hfl3.2.1]⟩, ⟨[], by simp [hctx3.2.2.2.1]⟩, ⟨[], by simp [hctx3.2.2.2.2.1]⟩⟩
      refine ⟨hg, ids2, ?_, h2.ordered, ?_, a, by rw [hfl3.2.2, hsa], ha1, ha2, ha3, ha4, ha5⟩
      · rw [hitems]; simp only [Src.Walk.flush, hwc]; exact h2.out.mono hg
      · intro id hid; exact ⟨(h2.below id hid).mono hg, h2.fresh id hid⟩
    | some p =>
      obtain ⟨reg, f, rules⟩ := p
      have hregroot : reg = .root := h2.curReg reg f rules hwc
      subst hregroot
      have hem := flush_emits fx .root f rules w'.flag s2 s2.finishAndAdd (by have := h2.rel; rw [hwc] at this; exact this) hfl3
      have hout : Src.featureItems body = w'.out ++ [(.root, .defn ⟨none, f, rules⟩)] := by
        rw [hitems]; simp [Src.Walk.flush, hwc]
      simp only [Emits] at hem
      by_cases hpos : (headKind rules).isPos = true
      · simp only [hpos, ↓reduceIte] at hem
        obtain ⟨hg, hact, ls, hp, hcomp⟩ := hem
        have hgrew : Grew s2 s2.finishAndAdd :=
          ⟨⟨[], by simp [hg]⟩, ⟨ls, hp⟩, ⟨[], by simp [hctx3.2.2.2.1]⟩, ⟨[], by simp [hctx3.2.2.2.2.1]⟩⟩
        have hlsne : ls ≠ [] := by
          obtain ⟨_, _, _, cf, nm, root, _, _, hls⟩ := hcomp
          rw [hls]; unfold builtLookups; split <;> simp
        refine ⟨hgrew, ids2 ++ [.gpos s2.gpos.length], ?_, ?_, ?_, a.addLookup (.gpos s2.gpos.length), by rw [hact, hsa]; rfl, ?_⟩
        · rw [hout]
          refine (h2.out.mono hgrew).snoc ⟨none, f, rules⟩ _ rfl ⟨ls, ?_, ?_⟩
          · rw [hctx3.2.2.2.1, hctx3.2.2.2.2.1]; exact hcomp
          · exact ⟨s2.gpos, [], by simp [hp], rfl⟩
        · apply pairwise_snoc h2.ordered
          intro x hx
          have := h2.below x hx
          cases x <;> simp_all [idLt, idBelow]
        · intro id hid
          rcases List.mem_append.mp hid with h | h
          · exact ⟨(h2.below id h).mono hgrew, h2.fresh id h⟩
          · simp at h; subst h
            obtain ⟨⟨g0, e1⟩, ⟨p0, e2⟩, _, _⟩ := h2.grew
            have : 0 < ls.length := List.length_pos_iff.mpr hlsne
            constructor
            · simp only [idBelow, hp, List.length_append]; omega
            · simp [idBelow, e2]
        · simp only [Active.addLookup, ha3, ha1, ha2, ha4, true_and]
          rw [ha5]
          have := assocPush_root ids2 (.gpos s2.gpos.length)
          simp only [rootKey] at this ⊢
          rw [this]
          simp
      · simp only [hpos, Bool.false_eq_true, ↓reduceIte] at hem
        obtain ⟨hp, hact, ls, hg, hcomp⟩ := hem
        have hgrew : Grew s2 s2.finishAndAdd :=
          ⟨⟨ls, hg⟩, ⟨[], by simp [hp]⟩, ⟨[], by simp [hctx3.2.2.2.1]⟩, ⟨[], by simp [hctx3.2.2.2.2.1]⟩⟩
        have hlsne : ls ≠ [] := by
          obtain ⟨_, _, _, cf, nm, root, _, _, hls⟩ := hcomp
          rw [hls]; unfold builtLookups; split <;> simp
        refine ⟨hgrew, ids2 ++ [.gsub s2.gsub.length], ?_, ?_, ?_, a.addLookup (.gsub s2.gsub.length), by rw [hact, hsa]; rfl, ?_⟩
        · rw [hout]
          refine (h2.out.mono hgrew).snoc ⟨none, f, rules⟩ _ rfl ⟨ls, ?_, ?_⟩
          · rw [hctx3.2.2.2.1, hctx3.2.2.2.2.1]; exact hcomp
          · exact ⟨s2.gsub, [], by simp [hg], rfl⟩
        · apply pairwise_snoc h2.ordered
          intro x hx
          have := h2.below x hx
          cases x <;> simp_all [idLt, idBelow]
        · intro id hid
          rcases List.mem_append.mp hid with h | h
          · exact ⟨(h2.below id h).mono hgrew, h2.fresh id h⟩
          · simp at h; subst h
            obtain ⟨⟨g0, e1⟩, ⟨p0, e2⟩, _, _⟩ := h2.grew
            have : 0 < ls.length := List.length_pos_iff.mpr hlsne
            constructor
            · simp only [idBelow, hg, List.length_append]; omega
            · simp [idBelow, e1]
        · simp only [Active.addLookup, ha3, ha1, ha2, ha4, true_and]
          rw [ha5]
          have := assocPush_root ids2 (.gsub s2.gsub.length)
          simp only [rootKey] at this ⊢
          rw [this]
          simp
  obtain ⟨hg23, ids3, hout3, hord3, hbel3, a3, hsa3, hb1, hb2, hb3, hb4, hb5⟩ := hgrew23
  have hgrewAll : Grew s s2.finishAndAdd := h2.grew.trans hg23
  have hfin : a3.finish = flatFinish s.defaultSystems ids3 := by
    rw [finish_flat a3 ids3 hb3 hb4 hb5, hb2]
  refine ⟨ids3, ?_⟩
  have hgF : Grew s2.finishAndAdd (featureTail s2) := by
    simp only [featureTail, hsa3, St.clearFlags]
    exact ⟨⟨[], by simp⟩, ⟨[], by simp⟩, ⟨[], by simp⟩, ⟨[], by simp⟩⟩
  have hfields : (featureTail s2).cur = s2.finishAndAdd.cur ∧ (featureTail s2).curName = s2.finishAndAdd.curName ∧
      (featureTail s2).active = none ∧ (featureTail s2).flag = (0, none) ∧ (featureTail s2).script = none ∧
      (featureTail s2).named = s2.finishAndAdd.named ∧ (featureTail s2).langsys = s2.finishAndAdd.langsys ∧
      (featureTail s2).attachIds = s2.finishAndAdd.attachIds ∧ (featureTail s2).filterIds = s2.finishAndAdd.filterIds ∧
      (featureTail s2).features = a3.finish.foldl (fun fs ((script, lang), ls) => featInsert (a3.tag, lang, script) ls fs) s2.finishAndAdd.features := by
    simp only [featureTail, hsa3, St.clearFlags]
    simp
  obtain ⟨f1, f2, f3, f4, f5, f6, f7, f8, f9, f10⟩ := hfields
  refine ⟨hout3.mono hgF, hord3, ?_, hgrewAll.trans hgF, ?_, ?_, f1.trans hcur3, f2.trans (hctx3.1.trans h2.ctx.1), f3, f4, f5,
    f6.trans (hctx3.2.1.trans h2.ctx.2.1), f7.trans (hctx3.2.2.2.2.2.1.trans h2.ctx.2.2.1), ?_⟩
  · intro id hid; exact ⟨(hbel3 id hid).1.mono hgF, (hbel3 id hid).2⟩
  · unfold IdsInv; rw [f8, f9, hctx3.2.2.2.1, hctx3.2.2.2.2.1]; exact h2.idsInv
  · rw [f8, hctx3.2.2.2.1]; exact h2.attachU
  · rw [f10, hfin, hb1, hctx3.2.2.2.2.2.2.2, h2.ctx.2.2.2.2]

end Fontc.FeaCompile
