/-
  The patched word-vector rank (fixes/C16-rank.patch) is a lawful rank representation for every number of rules.
-/
import FontcProofs.FeatVarsWordVal
import FontcModel.FeatVarsFixed

namespace Fontc.FeatVars

theorem val_nil : WRank.val [] = 0 := rfl

theorem val_cons (w : UInt64) (a : WRank) : WRank.val (w :: a) = 2 ^ (64 * a.length) * w.toNat + WRank.val a := by
  have := val_append [w] a
  simpa [WRank.val] using this

theorem val_replicate_zero (k : Nat) : WRank.val (List.replicate k 0) = 0 := by
  induction k with
  | zero => rfl
  | succ k ih => rw [List.replicate_succ, val_cons, ih]; simp

theorem val_new (i : Nat) : WRank.val (WRank.new i) = 2 ^ i := by
  unfold WRank.new
  rw [val_cons, val_replicate_zero, List.length_replicate]
  have h1 : ((1 : UInt64) <<< (i % 64).toUInt64).toNat = 2 ^ (i % 64) := by
    have hlt : i % 64 < 64 := Nat.mod_lt _ (by omega)
    have h1 : (i % 64).toUInt64.toNat = i % 64 := by
      show (UInt64.ofNat (i % 64)).toNat = i % 64
      rw [UInt64.toNat_ofNat']; omega
    rw [UInt64.toNat_shiftLeft, h1, UInt64.toNat_one, Nat.one_shiftLeft, Nat.mod_mod]
    exact Nat.mod_eq_of_lt (Nat.pow_lt_pow_right (by omega) hlt)
  rw [h1, Nat.add_zero, ← Nat.pow_add]
  congr 1
  have := Nat.div_add_mod i 64
  omega

/-- the patched `a |= &b` is the bitwise OR of the values, whatever the lengths -/
theorem val_bitorAssignFixed (a b : WRank) : (WRank.bitorAssignFixed a b).val = a.val ||| b.val := by
  unfold WRank.bitorAssignFixed
  simp only []
  rw [val_reverse, lval_orFront _ _ (by simp; omega), ← val_eq_lval, ← val_eq_lval, val_append]
  have hb : b = b.take (b.length - a.length) ++ b.drop (b.length - a.length) := (List.take_append_drop _ _).symm
  by_cases hlen : a.length ≤ b.length
  · have hdl : (b.drop (b.length - a.length)).length = a.length := by simp; omega
    have hbv : b.val = 2 ^ (64 * a.length) * WRank.val (b.take (b.length - a.length)) + WRank.val (b.drop (b.length - a.length)) := by
      conv => lhs; rw [hb]
      rw [val_append, hdl]
    have ha := val_lt a
    have hd := val_lt (b.drop (b.length - a.length))
    rw [hdl] at hd
    rw [hbv, or_split _ _ _ _ _ ha hd]
    have : a.val = 2 ^ (64 * a.length) * 0 + a.val := by simp
    conv => rhs; rw [this]
    rw [or_split _ _ _ _ _ ha hd]
    simp
  · have : b.length - a.length = 0 := by omega
    rw [this]; simp [val_nil]

theorem countOnes_eq_popcount (a : WRank) : a.countOnes = popcount a.val := by
  induction a with
  | nil => simp [WRank.countOnes, val_nil, popcount_zero]
  | cons w a ih =>
    rw [val_cons, popcount_split _ _ _ (val_lt a), ← ih]
    simp [WRank.countOnes]

theorem val_eq_zero_iff (a : WRank) : a.val = 0 ↔ WRank.isAllZeros a = true := by
  induction a with
  | nil => simp [val_nil, WRank.isAllZeros]
  | cons w a ih =>
    rw [val_cons]
    have hpos : 0 < 2 ^ (64 * a.length) := Nat.two_pow_pos _
    simp only [WRank.isAllZeros, List.all_cons, Bool.and_eq_true, beq_iff_eq] at ih ⊢
    rw [← ih, u64_eq_zero_iff]
    constructor
    · intro h
      have h1 : 2 ^ (64 * a.length) * w.toNat = 0 := by omega
      have h2 : WRank.val a = 0 := by omega
      rcases Nat.mul_eq_zero.1 h1 with h | h
      · omega
      · exact ⟨h, h2⟩
    · rintro ⟨h1, h2⟩; rw [h1, h2]; simp

theorem firstBitIsSet_eq (a : WRank) : WRank.firstBitIsSet a = a.val.testBit 0 := by
  have key : ∀ x : UInt64, ((x &&& 1) != 0) = x.toNat.testBit 0 := by
    intro x
    rw [Nat.testBit_zero, ← u64_and1_toNat]
    have h01 : (x &&& 1).toNat = 0 ∨ (x &&& 1).toNat = 1 := by rw [u64_and1_toNat]; omega
    rcases h01 with h | h
    · have : (x &&& 1) = 0 := (u64_eq_zero_iff _).2 h
      simp [this]
    · have : (x &&& 1) ≠ 0 := fun h0 => by rw [(u64_eq_zero_iff _).1 h0] at h; cases h
      simp [h, this]
  rcases List.eq_nil_or_concat a with rfl | ⟨l, w, rfl⟩
  · simp [WRank.firstBitIsSet, val_nil]
  · simp only [WRank.firstBitIsSet, List.concat_eq_append, List.getLast?_append, List.getLast?_singleton,
      Option.some_or, Option.getD_some]
    rw [key, val_append_single, Nat.testBit_zero, Nat.testBit_zero]
    have : (WRank.val l * 2 ^ 64 + w.toNat) % 2 = w.toNat % 2 := by omega
    rw [this]

theorem length_shiftAux (a : WRank) (c : UInt64) : (shiftAux a c).length = a.length := by
  induction a generalizing c with
  | nil => rfl
  | cons v vs ih => simp [shiftAux, ih]

theorem shift_word_toNat (v c : UInt64) (hc : c.toNat ≤ 1) :
    ((v >>> 1) ||| (c <<< 63)).toNat = v.toNat / 2 + c.toNat * 2 ^ 63 := by
  have hv := UInt64.toNat_lt v
  have h1 : (c <<< 63).toNat = 2 ^ 63 * c.toNat := by
    rw [UInt64.toNat_shiftLeft]
    have : (63 : UInt64).toNat % 64 = 63 := by decide
    rw [this, Nat.shiftLeft_eq, Nat.mul_comm]
    apply Nat.mod_eq_of_lt
    have : c.toNat = 0 ∨ c.toNat = 1 := by omega
    rcases this with h | h <;> rw [h] <;> decide
  rw [UInt64.toNat_or, u64_shr1_toNat, h1, Nat.or_comm, ← Nat.two_pow_add_eq_or_of_lt (by omega)]
  omega

theorem val_shiftAux (a : WRank) : ∀ c : UInt64, c.toNat ≤ 1 →
    WRank.val (shiftAux a c) = (c.toNat * 2 ^ (64 * a.length) + WRank.val a) / 2 := by
  induction a with
  | nil => intro c hc; simp [shiftAux, val_nil]; omega
  | cons v vs ih =>
    intro c hc
    have hlow : (v &&& 1).toNat ≤ 1 := by rw [u64_and1_toNat]; omega
    rw [shiftAux, val_cons, length_shiftAux, ih _ hlow, shift_word_toNat v c hc, u64_and1_toNat, val_cons]
    generalize hK : 2 ^ (64 * vs.length) = K
    have e64 : 2 ^ (64 * (v :: vs).length) = 2 ^ 64 * K := by
      rw [← hK, ← Nat.pow_add]; congr 1; simp; omega
    rw [e64]
    generalize hA : K * (v.toNat / 2) = A
    generalize hB : v.toNat % 2 * K = B
    generalize hC : c.toNat * 2 ^ 63 * K = C
    have f1 : K * v.toNat = 2 * A + B := by
      rw [← hA, ← hB]
      have := Nat.div_add_mod v.toNat 2
      calc K * v.toNat = K * (2 * (v.toNat / 2) + v.toNat % 2) := by rw [this]
        _ = 2 * (K * (v.toNat / 2)) + v.toNat % 2 * K := by rw [Nat.mul_add]; ac_rfl
    have f2 : c.toNat * (2 ^ 64 * K) = 2 * C := by
      rw [← hC]
      have : (2 : Nat) ^ 64 = 2 * 2 ^ 63 := by decide
      rw [this]; ac_rfl
    have f3 : K * (v.toNat / 2 + c.toNat * 2 ^ 63) = A + C := by
      rw [Nat.mul_add, hA, ← hC]; ac_rfl
    rw [f3, f2, f1]
    omega

theorem val_rightShiftOne (a : WRank) : (WRank.rightShiftOne a).val = a.val / 2 := by
  unfold WRank.rightShiftOne
  rw [val_shiftAux a 0 (by decide)]
  simp

/-- **After the patch the word vectors are a lawful rank representation for every number of rules.** -/
def wordLawFixed (N : Nat) : LawfulRank wordOpsFixed N where
  Inv a := a.val < 2 ^ N
  bits a j := a.val.testBit j
  inv_zero := by show WRank.val [] < 2 ^ N; rw [val_nil]; exact Nat.two_pow_pos N
  inv_single i hi := by
    show (WRank.new i).val < 2 ^ N
    rw [val_new]; exact Nat.pow_lt_pow_right (by omega) hi
  inv_or a b ha hb := by
    show (WRank.bitor a b).val < 2 ^ N
    rw [val_bitor]; exact Nat.or_lt_two_pow ha hb
  inv_orAssign a b ha hb := by
    show (WRank.bitorAssignFixed a b).val < 2 ^ N
    rw [val_bitorAssignFixed]; exact Nat.or_lt_two_pow ha hb
  inv_shift a ha := by
    show (WRank.rightShiftOne a).val < 2 ^ N
    rw [val_rightShiftOne]; have : a.val < 2 ^ N := ha
    omega
  bits_lt a j ha hj := testBit_lt_of_lt_two_pow ha hj
  bits_zero j := by show (WRank.val []).testBit j = false; rw [val_nil]; exact Nat.zero_testBit j
  bits_single i j _ := by
    show (WRank.new i).val.testBit j = decide (j = i)
    rw [val_new, Nat.testBit_two_pow]
    by_cases h : i = j <;> simp [h, eq_comm]
  bits_or a b j _ _ := by
    show (WRank.bitor a b).val.testBit j = _
    rw [val_bitor, Nat.testBit_or]
  bits_orAssign a b j _ _ := by
    show (WRank.bitorAssignFixed a b).val.testBit j = _
    rw [val_bitorAssignFixed, Nat.testBit_or]
  key a := N - a.countOnes
  le_iff a b ha hb := by
    show decide (b.countOnes ≤ a.countOnes) = true ↔ N - a.countOnes ≤ N - b.countOnes
    have h1 := popcount_le_of_lt_two_pow ha
    have h2 := popcount_le_of_lt_two_pow hb
    rw [countOnes_eq_popcount, countOnes_eq_popcount]
    simp; omega
  key_card a b ha hb _ _ := by
    show N - a.countOnes ≤ N - b.countOnes ↔ _
    have h1 := popcount_le_of_lt_two_pow ha
    have h2 := popcount_le_of_lt_two_pow hb
    rw [countOnes_eq_popcount, countOnes_eq_popcount, ← popcount_eq_filter N _ ha, ← popcount_eq_filter N _ hb]
    omega
  isZero_iff a _ := by
    show WRank.isAllZeros a = true ↔ ∀ j, a.val.testBit j = false
    rw [← val_eq_zero_iff, nat_eq_zero_iff_testBit]
  firstBit_eq a _ := firstBitIsSet_eq a
  bits_shift a j _ := by
    show (WRank.rightShiftOne a).val.testBit j = a.val.testBit (j + 1)
    rw [val_rightShiftOne, Nat.testBit_succ]
  bound_spec a j _ hj := by
    show j < 64 * a.length
    exact testBit_lt_of_lt_two_pow (val_lt a) hj

end Fontc.FeatVars
