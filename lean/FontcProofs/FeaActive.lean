/-
  C11 simulation, general part 3: `ActiveFeature`.  The language systems a lookup of a feature block
  ends up registered for, after any sequence of `script` / `language` statements in the modelled
  subset, are those the source semantics (`Src.registered`) names.
-/
import FontcProofs.FeaGenInv
import FontcProofs.FeaTables

namespace Fontc.FeaCompile
open Cmp
set_option linter.unusedSimpArgs false

/-! ### association lists -/

theorem assocPush_eq {α β : Type} [BEq α] (k : α) (v : β) (m : List (α × List β)) :
    assocPush k v m = if m.any (·.1 == k) then m.map (fun p => if p.1 == k then (p.1, (· ++ [v]) p.2) else p)
      else m ++ [(k, [v])] := by
  unfold assocPush
  split
  · congr 1
  · rfl

theorem lookup_snoc {κ β : Type} [BEq κ] [LawfulBEq κ] (m : List (κ × β)) (k k' : κ) (v : β) :
    (m ++ [(k, v)]).lookup k' = match m.lookup k' with | some x => some x | none => if k' == k then some v else none := by
  induction m with
  | nil => simp [List.lookup]; split <;> simp_all
  | cons p m ih =>
    obtain ⟨a, b⟩ := p
    simp only [List.cons_append, List.lookup]
    by_cases h : k' == a
    · simp [h]
    · simp [h, ih]

theorem lookup_assocPush {α β : Type} [BEq α] [LawfulBEq α] (k k' : α) (v : β) (m : List (α × List β)) :
    ((assocPush k v m).lookup k').getD [] = if k' == k then (m.lookup k).getD [] ++ [v] else (m.lookup k').getD [] := by
  rw [assocPush_eq]
  split
  · rename_i hany
    obtain ⟨x, hx⟩ := lookup_isSome_of_any k m hany
    have := lookup_map_update k k' (fun x : List β => x ++ [v]) m
    simp only at this ⊢
    rw [this]
    by_cases h : k' == k
    · simp [h, hx]
    · simp [h]
  · rename_i hany
    have hnone := lookup_none_of_any_false' k m hany
    rw [lookup_snoc]
    by_cases h : k' == k
    · have := beq_iff_eq.mp h; subst this
      simp [hnone]
    · simp only [h, Bool.false_eq_true, ↓reduceIte]
      cases m.lookup k' <;> simp

theorem lookup_isSome_iff_any {κ β : Type} [BEq κ] [LawfulBEq κ] (k : κ) (m : List (κ × β)) :
    (m.lookup k).isSome = m.any (·.1 == k) := by
  by_cases h : m.any (·.1 == k) = true
  · obtain ⟨v, hv⟩ := lookup_isSome_of_any k m h
    simp [hv, h]
  · rw [lookup_none_of_any_false' k m h]
    simp only [Option.isSome_none]
    cases hq : m.any (·.1 == k)
    · rfl
    · exact absurd hq h

theorem isSome_assocPush {α β : Type} [BEq α] [LawfulBEq α] (k k' : α) (v : β) (m : List (α × List β)) :
    ((assocPush k v m).lookup k').isSome = (k' == k || (m.lookup k').isSome) := by
  rw [assocPush_eq]
  split
  · rename_i hany
    obtain ⟨x, hx⟩ := lookup_isSome_of_any k m hany
    have := lookup_map_update k k' (fun x : List β => x ++ [v]) m
    simp only at this ⊢
    rw [this]
    by_cases h : k' == k
    · simp [h, hx]
    · simp [h]
  · rw [lookup_snoc]
    by_cases h : k' == k
    · simp only [h, ↓reduceIte, Bool.true_or]
      cases m.lookup k' <;> simp
    · simp only [h, Bool.false_eq_true, ↓reduceIte, Bool.false_or]
      cases m.lookup k' <;> simp

theorem keys_assocPush {α β : Type} [BEq α] [LawfulBEq α] (k : α) (v : β) (m : List (α × List β))
    (h : (m.map (·.1)).Nodup) : ((assocPush k v m).map (·.1)).Nodup := by
  rw [assocPush_eq]
  split
  · have : (m.map fun p => if p.1 == k then (p.1, (· ++ [v]) p.2) else p).map (·.1) = m.map (·.1) := by
      rw [List.map_map]
      apply List.map_congr_left
      intro p _
      simp only [Function.comp]
      split <;> rfl
    rw [this]; exact h
  · rename_i hany
    rw [List.map_append]
    apply nodup_snoc _ _ h
    intro hm
    obtain ⟨p, hp, rfl⟩ := List.mem_map.mp hm
    exact hany (List.any_eq_true.mpr ⟨p, hp, by simp⟩)

theorem mem_iff_lookup {κ β : Type} [BEq κ] [LawfulBEq κ] (l : List (κ × β)) (h : (l.map (·.1)).Nodup)
    (k : κ) (v : β) : (k, v) ∈ l ↔ l.lookup k = some v := by
  induction l with
  | nil => simp [List.lookup]
  | cons p l ih =>
    obtain ⟨a, b⟩ := p
    simp only [List.map_cons, List.nodup_cons] at h
    simp only [List.lookup, List.mem_cons, Prod.mk.injEq]
    by_cases hka : k = a
    · subst hka
      simp only [beq_self_eq_true, Option.some.injEq, true_and]
      constructor
      · rintro (e | hm)
        · exact e.symm
        · exact absurd (List.mem_map_of_mem (f := (·.1)) hm) h.1
      · intro e; exact Or.inl e.symm
    · have : (k == a) = false := by simp [hka]
      simp [this, hka, ih h.2]

/-! ### events -/

def sysEvs : List Ev → List (Sys × Bool)
  | [] => []
  | .sys s ex :: evs => (s, ex) :: sysEvs evs
  | .item _ :: evs => sysEvs evs

def curOf (evs : List Ev) : Option Sys := ((sysEvs evs).getLast?).map (·.1)

/-- `id` was added at position `r` -/
def itemAt (evs : List Ev) (r : Src.Reg) (id : LookupId) : Prop :=
  ∃ x y, evs = x ++ .item id :: y ∧ regAfter .root x = r

theorem sysEvs_append (e1 e2 : List Ev) : sysEvs (e1 ++ e2) = sysEvs e1 ++ sysEvs e2 := by
  induction e1 with
  | nil => rfl
  | cons e e1 ih => cases e <;> simp [sysEvs, ih]

def regOfCur : Option Sys → Src.Reg
  | none => .root
  | some s => regOfSys s

theorem regAfter_eq (r : Src.Reg) (evs : List Ev) :
    regAfter r evs = match (sysEvs evs).getLast? with | none => r | some x => regOfSys x.1 := by
  induction evs generalizing r with
  | nil => rfl
  | cons e evs ih =>
    cases e with
    | item id => simp only [regAfter, sysEvs]; exact ih r
    | sys s ex =>
      simp only [regAfter, sysEvs]
      rw [ih]
      cases h : sysEvs evs with
      | nil => simp
      | cons y ys =>
        rw [List.getLast?_cons_cons]
        cases hq : (y :: ys).getLast? with
        | none => simp at hq
        | some z => rfl

theorem regAfter_root (evs : List Ev) : regAfter .root evs = regOfCur (curOf evs) := by
  rw [regAfter_eq, curOf]
  cases (sysEvs evs).getLast? <;> rfl

theorem itemAt_snoc_item (evs : List Ev) (r : Src.Reg) (id id' : LookupId) :
    itemAt (evs ++ [.item id]) r id' ↔ itemAt evs r id' ∨ (id' = id ∧ r = regAfter .root evs) := by
  constructor
  · rintro ⟨x, y, he, hr⟩
    rcases List.eq_nil_or_concat y with rfl | ⟨y', e, rfl⟩
    · have := List.append_inj' he (by simp)
      simp only [List.cons.injEq, Ev.item.injEq, and_true] at this
      obtain ⟨rfl, rfl⟩ := this
      exact Or.inr ⟨rfl, hr.symm⟩
    · left
      rw [List.concat_eq_append, ← List.cons_append, ← List.append_assoc] at he
      have := List.append_inj' he (by simp)
      exact ⟨x, y', this.1, hr⟩
  · rintro (⟨x, y, he, hr⟩ | ⟨rfl, rfl⟩)
    · exact ⟨x, y ++ [.item id], by simp [he], hr⟩
    · exact ⟨evs, [], rfl, rfl⟩

theorem itemAt_snoc_sys (evs : List Ev) (r : Src.Reg) (s : Sys) (ex : Bool) (id' : LookupId) :
    itemAt (evs ++ [.sys s ex]) r id' ↔ itemAt evs r id' := by
  constructor
  · rintro ⟨x, y, he, hr⟩
    rcases List.eq_nil_or_concat y with rfl | ⟨y', e, rfl⟩
    · have := List.append_inj' he (by simp)
      simp at this
    · rw [List.concat_eq_append, ← List.cons_append, ← List.append_assoc] at he
      have := List.append_inj' he (by simp)
      exact ⟨x, y', this.1, hr⟩
  · rintro ⟨x, y, he, hr⟩
    exact ⟨x, y ++ [.sys s ex], by simp [he], hr⟩

theorem itemAt_nil (r : Src.Reg) (id : LookupId) : ¬ itemAt [] r id := by
  rintro ⟨x, y, he, _⟩
  cases x <;> simp at he


def DD : Sys := ("DFLT", "dflt")

def seenOf (evs : List Ev) : List Sys := (sysEvs evs).map (·.1)

theorem curOf_snoc_item (evs : List Ev) (id : LookupId) : curOf (evs ++ [.item id]) = curOf evs := by
  simp [curOf, sysEvs_append, sysEvs]

theorem curOf_snoc_sys (evs : List Ev) (s : Sys) (ex : Bool) : curOf (evs ++ [.sys s ex]) = some s := by
  simp [curOf, sysEvs_append, sysEvs]

theorem sysEvs_of_curOf_none (evs : List Ev) (h : curOf evs = none) : sysEvs evs = [] := by
  simp only [curOf, Option.map_eq_none_iff] at h
  exact List.getLast?_eq_none_iff.mp h

theorem curOf_mem_seen (evs : List Ev) (s : Sys) (h : curOf evs = some s) : s ∈ seenOf evs := by
  simp only [curOf, Option.map_eq_some_iff] at h
  obtain ⟨x, hx, rfl⟩ := h
  exact List.mem_map_of_mem (List.mem_of_getLast? hx)

theorem regOfSys_eq_lang (s : Sys) (S L : Tag) (h : regOfSys s = .lang S L) : s = (S, L) ∧ L ≠ "dflt" := by
  unfold regOfSys at h
  split at h
  · cases h
  · rename_i hne
    cases h
    exact ⟨rfl, by simpa using hne⟩

theorem regOfSys_eq_script (s : Sys) (S : Tag) (h : regOfSys s = .script S) : s = (S, "dflt") := by
  unfold regOfSys at h
  split at h
  · rename_i he
    cases h
    have : s.2 = "dflt" := by simpa using he
    exact Prod.ext rfl this
  · cases h

theorem regOfSys_ne_root (s : Sys) : regOfSys s ≠ .root := by
  unfold regOfSys; split <;> simp

theorem seenOf_prefix (x y : List Ev) (s : Sys) (h : s ∈ seenOf x) : s ∈ seenOf (x ++ y) := by
  simp only [seenOf, sysEvs_append, List.map_append, List.mem_append]
  exact Or.inl h

theorem itemAt_lang_seen (evs : List Ev) (S L : Tag) (id : LookupId) (h : itemAt evs (.lang S L) id) :
    (S, L) ∈ seenOf evs := by
  obtain ⟨x, y, rfl, hr⟩ := h
  rw [regAfter_root] at hr
  cases hc : curOf x with
  | none => rw [hc] at hr; cases hr
  | some s =>
    rw [hc] at hr
    obtain ⟨rfl, _⟩ := regOfSys_eq_lang s S L hr
    exact seenOf_prefix x _ _ (curOf_mem_seen x _ hc)

theorem itemAt_script_seen (evs : List Ev) (S : Tag) (id : LookupId) (h : itemAt evs (.script S) id) :
    (S, "dflt") ∈ seenOf evs := by
  obtain ⟨x, y, rfl, hr⟩ := h
  rw [regAfter_root] at hr
  cases hc : curOf x with
  | none => rw [hc] at hr; cases hr
  | some s =>
    rw [hc] at hr
    have := regOfSys_eq_script s S hr
    subst this
    exact seenOf_prefix x _ _ (curOf_mem_seen x _ hc)

/-- what the fields of `ActiveFeature` hold after the events `evs` -/
structure AInv (dls : List Sys) (evs : List Ev) (a : Active) : Prop where
  defaults : a.defaults = dls
  cur : a.curSys = curOf evs
  rootIds : ∀ id, id ∈ (a.lookups.lookup DD).getD [] ↔ itemAt evs .root id
  scriptIds : ∀ S id, id ∈ (a.scriptDefault.lookup S).getD [] ↔ itemAt evs (.script S) id
  sdKeys : (a.scriptDefault.map (·.1)).Nodup
  sdSeen : ∀ S, (a.scriptDefault.lookup S).isSome = true → (S, "dflt") ∈ seenOf evs
  lkKeys : (a.lookups.map (·.1)).Nodup
  lkSome : ∀ k, k ≠ DD → ((a.lookups.lookup k).isSome = true ↔ k ∈ seenOf evs ∧ k.2 ≠ "dflt")
  langIds : ∀ S L ex, ((S, L), ex) ∈ sysEvs evs → L ≠ "dflt" → ∀ id, id ∈ (a.lookups.lookup (S, L)).getD [] ↔
      itemAt evs (.lang S L) id ∨ (ex = false ∧ (itemAt evs .root id ∨ itemAt evs (.script S) id))
  noLangYet : ∀ S, a.curSys = some (S, "dflt") → ∀ L ex, ((S, L), ex) ∈ sysEvs evs → L = "dflt"
  scriptSeen : ∀ S L ex, ((S, L), ex) ∈ sysEvs evs → (S, "dflt") ∈ seenOf evs
  seenNodup : (seenOf evs).Nodup
  seenDls : ∀ s ∈ seenOf evs, s ∈ dls

theorem AInv.init (tag : Tag) (dls : List Sys) : AInv dls [] { tag := tag, defaults := dls } := {
  defaults := rfl
  cur := rfl
  rootIds := by intro id; simp [List.lookup, itemAt_nil]
  scriptIds := by intro S id; simp [List.lookup, itemAt_nil]
  sdKeys := by simp
  sdSeen := by intro S h; simp [List.lookup] at h
  lkKeys := by simp
  lkSome := by intro k _; simp [List.lookup, seenOf, sysEvs]
  langIds := by intro S L ex h; simp [sysEvs] at h
  noLangYet := by intro S h; simp at h
  scriptSeen := by intro S L ex h; simp [sysEvs] at h
  seenNodup := by simp [seenOf, sysEvs]
  seenDls := by simp [seenOf, sysEvs] }

/-- an item is added -/
theorem AInv.item {dls : List Sys} {evs : List Ev} {a : Active} (h : AInv dls evs a) (id : LookupId) :
    AInv dls (evs ++ [.item id]) (a.addLookup id) := by
  have hsys : sysEvs (evs ++ [.item id]) = sysEvs evs := by simp [sysEvs_append, sysEvs]
  have hseen : seenOf (evs ++ [.item id]) = seenOf evs := by simp [seenOf, hsys]
  have hreg := regAfter_root evs
  cases hc : a.curSys with
  | none =>
    have hcur : curOf evs = none := by rw [← h.cur, hc]
    have hnil := sysEvs_of_curOf_none evs hcur
    rw [hcur] at hreg
    simp only [regOfCur] at hreg
    have ha : a.addLookup id = { a with lookups := assocPush DD id a.lookups } := by
      simp [Active.addLookup, hc, DD]
    rw [ha]
    exact {
      defaults := h.defaults
      cur := by rw [curOf_snoc_item]; exact h.cur
      rootIds := by
        intro id'
        simp only [lookup_assocPush, beq_self_eq_true, ↓reduceIte, List.mem_append, List.mem_singleton, itemAt_snoc_item,
          h.rootIds, hreg, and_true]
      scriptIds := by
        intro S id'
        simp only [itemAt_snoc_item, hreg, h.scriptIds]
        simp
      sdKeys := h.sdKeys
      sdSeen := by rw [hseen]; exact h.sdSeen
      lkKeys := keys_assocPush _ _ _ h.lkKeys
      lkSome := by
        intro k hk
        have : (k == DD) = false := by simp [hk]
        simp only [isSome_assocPush, this, Bool.false_or, hseen]
        exact h.lkSome k hk
      langIds := by intro S L ex hm; rw [hsys, hnil] at hm; simp at hm
      noLangYet := by intro S hs; simp [hc] at hs
      scriptSeen := by intro S L ex hm; rw [hsys, hnil] at hm; simp at hm
      seenNodup := by rw [hseen]; exact h.seenNodup
      seenDls := by rw [hseen]; exact h.seenDls }
  | some sys =>
    obtain ⟨S, L⟩ := sys
    have hcur : curOf evs = some (S, L) := by rw [← h.cur, hc]
    rw [hcur] at hreg
    simp only [regOfCur] at hreg
    by_cases hL : L = "dflt"
    · subst hL
      have hreg' : regAfter .root evs = .script S := by rw [hreg]; simp [regOfSys]
      have ha : a.addLookup id = { a with scriptDefault := assocPush S id a.scriptDefault } := by
        simp [Active.addLookup, hc]
      rw [ha]
      exact {
        defaults := h.defaults
        cur := by rw [curOf_snoc_item]; exact h.cur
        rootIds := by
          intro id'
          simp only [itemAt_snoc_item, hreg', h.rootIds]
          simp
        scriptIds := by
          intro S' id'
          simp only [lookup_assocPush, itemAt_snoc_item, hreg', Src.Reg.script.injEq]
          by_cases hS : S' = S
          · subst hS
            simp only [beq_self_eq_true, ↓reduceIte, List.mem_append, List.mem_singleton, h.scriptIds, and_true]
          · have : (S' == S) = false := by simp [hS]
            simp only [this, Bool.false_eq_true, ↓reduceIte, h.scriptIds, hS, and_false, or_false]
        sdKeys := keys_assocPush _ _ _ h.sdKeys
        sdSeen := by
          intro S' hs
          rw [hseen]
          simp only [isSome_assocPush, Bool.or_eq_true, beq_iff_eq] at hs
          rcases hs with rfl | hs
          · exact curOf_mem_seen evs _ hcur
          · exact h.sdSeen S' hs
        lkKeys := h.lkKeys
        lkSome := by rw [hseen]; exact h.lkSome
        langIds := by
          intro S' L' ex hm hL' id'
          rw [hsys] at hm
          simp only [itemAt_snoc_item, hreg']
          have hne : S' ≠ S := by
            intro e; subst e
            exact hL' (h.noLangYet S' hc L' ex hm)
          rw [h.langIds S' L' ex hm hL' id']
          simp [hne]
        noLangYet := by intro S' hs; rw [hsys]; exact h.noLangYet S' hs
        scriptSeen := by rw [hsys, hseen]; exact h.scriptSeen
        seenNodup := by rw [hseen]; exact h.seenNodup
        seenDls := by rw [hseen]; exact h.seenDls }
    · have hreg' : regAfter .root evs = .lang S L := by rw [hreg]; simp [regOfSys, hL]
      have hLb : (L == "dflt") = false := by simp [hL]
      have ha : a.addLookup id = { a with lookups := assocPush (S, L) id a.lookups } := by
        simp [Active.addLookup, hc, hLb]
      have hneDD : (S, L) ≠ DD := by simp [DD, hL]
      rw [ha]
      exact {
        defaults := h.defaults
        cur := by rw [curOf_snoc_item]; exact h.cur
        rootIds := by
          intro id'
          have : (DD == (S, L)) = false := by simp [DD, hL]; intro _; exact fun e => hL e.symm
          simp only [lookup_assocPush, this, Bool.false_eq_true, ↓reduceIte, itemAt_snoc_item, hreg', h.rootIds]
          simp
        scriptIds := by
          intro S' id'
          simp only [itemAt_snoc_item, hreg', h.scriptIds]
          simp
        sdKeys := h.sdKeys
        sdSeen := by rw [hseen]; exact h.sdSeen
        lkKeys := keys_assocPush _ _ _ h.lkKeys
        lkSome := by
          intro k hk
          simp only [isSome_assocPush, Bool.or_eq_true, beq_iff_eq, hseen]
          constructor
          · rintro (rfl | hs)
            · exact ⟨curOf_mem_seen evs _ hcur, hL⟩
            · exact (h.lkSome k hk).mp hs
          · intro hs; exact Or.inr ((h.lkSome k hk).mpr hs)
        langIds := by
          intro S' L' ex hm hL' id'
          rw [hsys] at hm
          simp only [lookup_assocPush, itemAt_snoc_item, hreg', Src.Reg.lang.injEq]
          by_cases hk : (S', L') = (S, L)
          · cases hk
            simp only [beq_self_eq_true, ↓reduceIte, List.mem_append, List.mem_singleton, h.langIds S L ex hm hL' id',
              and_self, and_true]
            simp only [reduceCtorEq, and_false, or_false]
            constructor
            · rintro ((h1 | h2) | h3)
              · exact Or.inl (Or.inl h1)
              · exact Or.inr h2
              · exact Or.inl (Or.inr h3)
            · rintro ((h1 | h3) | h2)
              · exact Or.inl (Or.inl h1)
              · exact Or.inr h3
              · exact Or.inl (Or.inr h2)
          · have hb : ((S', L') == (S, L)) = false := by simp at hk ⊢; exact hk
            have hk' : ¬ (S' = S ∧ L' = L) := by rintro ⟨rfl, rfl⟩; exact hk rfl
            simp only [hb, Bool.false_eq_true, ↓reduceIte, h.langIds S' L' ex hm hL' id', hk', and_false, or_false,
              reduceCtorEq]
        noLangYet := by intro S' hs; simp [hc, hL] at hs
        scriptSeen := by rw [hsys, hseen]; exact h.scriptSeen
        seenNodup := by rw [hseen]; exact h.seenNodup
        seenDls := by rw [hseen]; exact h.seenDls }


theorem lookup_snoc_getD {κ β : Type} [BEq κ] [LawfulBEq κ] (m : List (κ × List β)) (k k' : κ) (v : List β)
    (hk : m.lookup k = none) :
    ((m ++ [(k, v)]).lookup k').getD [] = if k' == k then v else (m.lookup k').getD [] := by
  rw [lookup_snoc]
  by_cases h : k' == k
  · have := beq_iff_eq.mp h; subst this
    simp [hk]
  · simp only [h, Bool.false_eq_true, ↓reduceIte]
    cases m.lookup k' <;> simp

/-- a `script` / `language` statement is entered -/
theorem AInv.sys {dls : List Sys} {evs : List Ev} {a : Active} (h : AInv dls evs a) (s : Sys) (ex : Bool)
    (hs1 : s ∉ seenOf evs) (hs2 : s ∈ dls) (hs3 : s.2 = "dflt" → ex = false)
    (hs4 : s.2 ≠ "dflt" → ∃ l0, curOf evs = some (s.1, l0)) :
    AInv dls (evs ++ [.sys s ex]) (a.setSystem s ex) := by
  obtain ⟨S, L⟩ := s
  have hsys : sysEvs (evs ++ [.sys (S, L) ex]) = sysEvs evs ++ [((S, L), ex)] := by simp [sysEvs_append, sysEvs]
  have hseen : seenOf (evs ++ [.sys (S, L) ex]) = seenOf evs ++ [(S, L)] := by simp [seenOf, hsys]
  by_cases hL : L = "dflt"
  · subst hL
    have ha : a.setSystem (S, "dflt") ex = { a with curSys := some (S, "dflt") } := by
      simp [Active.setSystem]
    rw [ha]
    have hnoS : ∀ L' ex', ((S, L'), ex') ∉ sysEvs evs := by
      intro L' ex' hm
      exact hs1 (h.scriptSeen S L' ex' hm)
    exact {
      defaults := h.defaults
      cur := by rw [curOf_snoc_sys]
      rootIds := by intro id; rw [itemAt_snoc_sys]; exact h.rootIds id
      scriptIds := by intro S' id; rw [itemAt_snoc_sys]; exact h.scriptIds S' id
      sdKeys := h.sdKeys
      sdSeen := by intro S' hs; rw [hseen]; exact List.mem_append_left _ (h.sdSeen S' hs)
      lkKeys := h.lkKeys
      lkSome := by
        intro k hk
        rw [hseen, h.lkSome k hk]
        simp only [List.mem_append, List.mem_singleton]
        constructor
        · rintro ⟨h1, h2⟩; exact ⟨Or.inl h1, h2⟩
        · rintro ⟨h1 | rfl, h2⟩
          · exact ⟨h1, h2⟩
          · exact absurd rfl h2
      langIds := by
        intro S' L' ex' hm hL' id
        rw [hsys] at hm
        simp only [List.mem_append, List.mem_singleton, Prod.mk.injEq] at hm
        rcases hm with hm | ⟨⟨rfl, rfl⟩, rfl⟩
        · simp only [itemAt_snoc_sys]; exact h.langIds S' L' ex' hm hL' id
        · exact absurd rfl hL'
      noLangYet := by
        intro S' hs L' ex' hm
        simp only [Option.some.injEq, Prod.mk.injEq, and_true] at hs
        subst hs
        rw [hsys] at hm
        simp only [List.mem_append, List.mem_singleton, Prod.mk.injEq] at hm
        rcases hm with hm | ⟨⟨_, rfl⟩, _⟩
        · exact absurd hm (hnoS L' ex')
        · rfl
      scriptSeen := by
        intro S' L' ex' hm
        rw [hsys] at hm
        rw [hseen]
        simp only [List.mem_append, List.mem_singleton, Prod.mk.injEq] at hm ⊢
        rcases hm with hm | ⟨⟨rfl, rfl⟩, rfl⟩
        · exact Or.inl (h.scriptSeen S' L' ex' hm)
        · exact Or.inr (by simp)
      seenNodup := by rw [hseen]; exact nodup_snoc _ _ h.seenNodup hs1
      seenDls := by
        intro s' hs'
        rw [hseen] at hs'
        rcases List.mem_append.mp hs' with h1 | h1
        · exact h.seenDls s' h1
        · simp at h1; subst h1; exact hs2 }
  · obtain ⟨l0, hcur⟩ := hs4 hL
    have hneDD : (S, L) ≠ DD := by simp [DD, hL]
    have hnokey : a.lookups.lookup (S, L) = none := by
      have := h.lkSome (S, L) hneDD
      cases hq : a.lookups.lookup (S, L) with
      | none => rfl
      | some v => rw [hq] at this; exact absurd (this.mp rfl).1 hs1
    have hany : a.lookups.any (·.1 == (S, L)) = false := by
      rw [← lookup_isSome_iff_any, hnokey]; rfl
    have hLb : (L != "dflt") = true := by simp [hL]
    have hdl : a.defaults.contains (S, L) = true := by rw [h.defaults]; simpa using hs2
    have ha : a.setSystem (S, L) ex =
        { a with curSys := some (S, L),
                 lookups := a.lookups ++ [((S, L), if ex then [] else (a.lookups.lookup DD).getD [] ++ (a.scriptDefault.lookup S).getD [])] } := by
      simp only [Active.setSystem, hLb, ↓reduceIte, hany, Bool.false_eq_true, hdl, Bool.true_or, assocGet, DD]
    rw [ha]
    have hSseen : (S, "dflt") ∈ seenOf evs := by
      have hm := curOf_mem_seen evs _ hcur
      simp only [seenOf, List.mem_map] at hm
      obtain ⟨⟨⟨S0, L0⟩, ex0⟩, hm, he⟩ := hm
      cases he
      exact h.scriptSeen S l0 ex0 hm
    exact {
      defaults := h.defaults
      cur := by rw [curOf_snoc_sys]
      rootIds := by
        intro id
        have : (DD == (S, L)) = false := by
          rw [Bool.eq_false_iff]; intro e; exact hneDD (beq_iff_eq.mp e).symm
        rw [itemAt_snoc_sys, lookup_snoc_getD _ _ _ _ hnokey]
        simp only [this, Bool.false_eq_true, ↓reduceIte]
        exact h.rootIds id
      scriptIds := by intro S' id; rw [itemAt_snoc_sys]; exact h.scriptIds S' id
      sdKeys := h.sdKeys
      sdSeen := by intro S' hs; rw [hseen]; exact List.mem_append_left _ (h.sdSeen S' hs)
      lkKeys := by
        rw [List.map_append]
        apply nodup_snoc _ _ h.lkKeys
        intro hm
        obtain ⟨p, hp, hpe⟩ := List.mem_map.mp hm
        have : a.lookups.any (·.1 == (S, L)) = true := List.any_eq_true.mpr ⟨p, hp, by simp [hpe]⟩
        rw [hany] at this; cases this
      lkSome := by
        intro k hk
        rw [hseen, lookup_snoc]
        simp only [List.mem_append, List.mem_singleton]
        cases hq : a.lookups.lookup k with
        | some v =>
          have := (h.lkSome k hk).mp (by rw [hq]; rfl)
          simp only [Option.isSome_some, true_iff]
          exact ⟨Or.inl this.1, this.2⟩
        | none =>
          have hnot : ¬ (k ∈ seenOf evs ∧ k.2 ≠ "dflt") := by
            intro hh; have := (h.lkSome k hk).mpr hh; rw [hq] at this; cases this
          by_cases hkk : k = (S, L)
          · subst hkk; simp [hL]
          · have : (k == (S, L)) = false := by simp [hkk]
            simp only [this, Bool.false_eq_true, ↓reduceIte, Option.isSome_none, false_iff]
            rintro ⟨h1 | h1, h2⟩
            · exact hnot ⟨h1, h2⟩
            · exact hkk h1
      langIds := by
        intro S' L' ex' hm hL' id
        rw [hsys] at hm
        simp only [List.mem_append, List.mem_singleton, Prod.mk.injEq] at hm
        rw [lookup_snoc_getD _ _ _ _ hnokey]
        simp only [itemAt_snoc_sys]
        rcases hm with hm | ⟨⟨rfl, rfl⟩, rfl⟩
        · have hne : (S', L') ≠ (S, L) := by
            intro e; rw [e] at hm
            exact hs1 (List.mem_map.mpr ⟨_, hm, rfl⟩)
          have : ((S', L') == (S, L)) = false := by simp at hne ⊢; exact hne
          simp only [this, Bool.false_eq_true, ↓reduceIte]
          exact h.langIds S' L' ex' hm hL' id
        · simp only [beq_self_eq_true, ↓reduceIte]
          have hnolang : ¬ itemAt evs (.lang S' L') id := fun hh => hs1 (itemAt_lang_seen evs S' L' id hh)
          cases ex'
          · simp only [Bool.false_eq_true, ↓reduceIte, List.mem_append, h.rootIds, h.scriptIds, hnolang, false_or, true_and]
          · simp [hnolang]
      noLangYet := by intro S' hs; simp [hL] at hs
      scriptSeen := by
        intro S' L' ex' hm
        rw [hsys] at hm
        rw [hseen]
        simp only [List.mem_append, List.mem_singleton, Prod.mk.injEq] at hm ⊢
        rcases hm with hm | ⟨⟨rfl, rfl⟩, rfl⟩
        · exact Or.inl (h.scriptSeen S' L' ex' hm)
        · exact Or.inl hSseen
      seenNodup := by rw [hseen]; exact nodup_snoc _ _ h.seenNodup hs1
      seenDls := by
        intro s' hs'
        rw [hseen] at hs'
        rcases List.mem_append.mp hs' with h1 | h1
        · exact h.seenDls s' h1
        · simp at h1; subst h1; exact hs2 }


/-- the conditions on the remaining events -/
def EvsOkFrom (dls : List Sys) : List Ev → List Ev → Prop
  | _, [] => True
  | pre, .item id :: rest => EvsOkFrom dls (pre ++ [.item id]) rest
  | pre, .sys s ex :: rest =>
    (s ∉ seenOf pre ∧ s ∈ dls ∧ (s.2 = "dflt" → ex = false) ∧ (s.2 ≠ "dflt" → ∃ l0, curOf pre = some (s.1, l0))) ∧
    EvsOkFrom dls (pre ++ [.sys s ex]) rest

theorem AInv.fold {dls : List Sys} : ∀ (rest pre : List Ev) (a : Active), AInv dls pre a → EvsOkFrom dls pre rest →
    AInv dls (pre ++ rest) (rest.foldl evStep a) := by
  intro rest
  induction rest with
  | nil => intro pre a h _; simpa using h
  | cons e rest ih =>
    intro pre a h hok
    cases e with
    | item id =>
      simp only [EvsOkFrom] at hok
      have := ih (pre ++ [.item id]) (a.addLookup id) (h.item id) hok
      simpa [evStep] using this
    | sys s ex =>
      simp only [EvsOkFrom] at hok
      have := ih (pre ++ [.sys s ex]) (a.setSystem s ex) (h.sys s ex hok.1.1 hok.1.2.1 hok.1.2.2.1 hok.1.2.2.2) hok.2
      simpa [evStep] using this

/-- the source-level form of the conditions: `script` statements name distinct scripts, `language`
    statements follow a `script` statement and name distinct non-default languages, and every
    language system entered is a declared one -/
def sysOk (dls : List Sys) : Option Tag → List Sys → List (Sys × Bool) → Bool
  | _, _, [] => true
  | cur, seen, (s, ex) :: rest =>
    !seen.contains s && dls.contains s && (if s.2 == "dflt" then !ex else cur == some s.1) &&
    sysOk dls (some s.1) (seen ++ [s]) rest

theorem curOf_script (pre : List Ev) (S : Tag) (h : (curOf pre).map (·.1) = some S) : ∃ l0, curOf pre = some (S, l0) := by
  cases hc : curOf pre with
  | none => rw [hc] at h; cases h
  | some s => rw [hc] at h; simp at h; subst h; exact ⟨s.2, rfl⟩

theorem evsOk_of_sysOk (dls : List Sys) : ∀ (rest pre : List Ev),
    sysOk dls ((curOf pre).map (·.1)) (seenOf pre) (sysEvs rest) = true → EvsOkFrom dls pre rest := by
  intro rest
  induction rest with
  | nil => intro pre _; trivial
  | cons e rest ih =>
    intro pre h
    cases e with
    | item id =>
      simp only [EvsOkFrom]
      apply ih
      have h1 : seenOf (pre ++ [.item id]) = seenOf pre := by simp [seenOf, sysEvs_append, sysEvs]
      rw [curOf_snoc_item, h1]
      simpa [sysEvs] using h
    | sys s ex =>
      simp only [sysEvs, sysOk, Bool.and_eq_true, Bool.not_eq_true', List.contains_eq_mem, decide_eq_false_iff_not,
        decide_eq_true_eq] at h
      obtain ⟨⟨⟨h1, h2⟩, h3⟩, h4⟩ := h
      simp only [EvsOkFrom]
      refine ⟨⟨h1, h2, ?_, ?_⟩, ?_⟩
      · intro e; simp [e] at h3; exact h3
      · intro e
        have : (s.2 == "dflt") = false := by simp [e]
        simp only [this, Bool.false_eq_true, ↓reduceIte, beq_iff_eq] at h3
        exact curOf_script pre s.1 h3
      · apply ih
        have h5 : seenOf (pre ++ [.sys s ex]) = seenOf pre ++ [s] := by simp [seenOf, sysEvs_append, sysEvs]
        rw [curOf_snoc_sys, h5]
        exact h4


/-! ### `ActiveFeature::add_to_features` -/

def sdStep (dls : List Sys) (D : List LookupId) (ls : List (Sys × List LookupId)) (p : Tag × List LookupId) :
    List (Sys × List LookupId) :=
  (ls.filter (·.1 != (p.1, "dflt"))) ++ [((p.1, "dflt"), if dls.contains (p.1, "dflt") then D ++ p.2 else p.2)]

def dlStep (D : List LookupId) (ls : List (Sys × List LookupId)) (sys : Sys) : List (Sys × List LookupId) :=
  if ls.any (·.1 == sys) then ls else ls ++ [(sys, D)]

theorem Active.finish_eq (a : Active) :
    a.finish = a.defaults.foldl (dlStep ((a.lookups.lookup DD).getD []))
      (a.scriptDefault.foldl (sdStep a.defaults ((a.lookups.lookup DD).getD [])) (a.lookups.filter (·.1 != DD))) := rfl

theorem mem_fold_sdStep (dls : List Sys) (D : List LookupId) (sd : List (Tag × List LookupId))
    (hnd : (sd.map (·.1)).Nodup) (acc : List (Sys × List LookupId)) (sys : Sys) (l : List LookupId) :
    (sys, l) ∈ sd.foldl (sdStep dls D) acc ↔
      ((sys, l) ∈ acc ∧ ∀ p ∈ sd, sys ≠ (p.1, "dflt")) ∨
      ∃ p ∈ sd, sys = (p.1, "dflt") ∧ l = (if dls.contains (p.1, "dflt") then D ++ p.2 else p.2) := by
  induction sd generalizing acc with
  | nil => simp
  | cons q sd ih =>
    simp only [List.map_cons, List.nodup_cons] at hnd
    simp only [List.foldl_cons]
    rw [ih hnd.2]
    simp only [sdStep, List.mem_append, List.mem_filter, List.mem_singleton, Prod.mk.injEq, bne_iff_ne, ne_eq,
      List.mem_cons, forall_eq_or_imp, exists_eq_or_imp, List.not_mem_nil, or_false]
    constructor
    · rintro (⟨(⟨h1, h2⟩ | ⟨h1, h2⟩), h3⟩ | h4)
      · exact Or.inl ⟨h1, h2, h3⟩
      · exact Or.inr (Or.inl ⟨h1, h2⟩)
      · exact Or.inr (Or.inr h4)
    · rintro (⟨h1, h2, h3⟩ | ⟨h1, h2⟩ | h4)
      · exact Or.inl ⟨Or.inl ⟨h1, h2⟩, h3⟩
      · refine Or.inl ⟨Or.inr ⟨h1, h2⟩, ?_⟩
        intro p hp e
        rw [h1] at e
        simp only [Prod.mk.injEq, and_true] at e
        exact hnd.1 (e ▸ List.mem_map_of_mem hp)
      · exact Or.inr h4

theorem mem_fold_dlStep (D : List LookupId) (dls : List Sys) (acc : List (Sys × List LookupId)) (sys : Sys) (l : List LookupId) :
    (sys, l) ∈ dls.foldl (dlStep D) acc ↔ (sys, l) ∈ acc ∨ (sys ∈ dls ∧ (∀ l', (sys, l') ∉ acc) ∧ l = D) := by
  induction dls generalizing acc with
  | nil => simp
  | cons s0 dls ih =>
    simp only [List.foldl_cons]
    rw [ih]
    unfold dlStep
    by_cases hany : acc.any (·.1 == s0) = true
    · simp only [hany, ↓reduceIte, List.mem_cons]
      obtain ⟨q, hq, hqe⟩ := List.any_eq_true.mp hany
      have hqe' : q.1 = s0 := by simpa using hqe
      constructor
      · rintro (h | ⟨h1, h2, h3⟩)
        · exact Or.inl h
        · exact Or.inr ⟨Or.inr h1, h2, h3⟩
      · rintro (h | ⟨h1 | h1, h2, h3⟩)
        · exact Or.inl h
        · exfalso; subst h1; exact h2 q.2 (by rw [← hqe']; exact hq)
        · exact Or.inr ⟨h1, h2, h3⟩
    · simp only [hany, Bool.false_eq_true, ↓reduceIte, List.mem_append, List.mem_singleton, Prod.mk.injEq, List.mem_cons,
        List.not_mem_nil, or_false]
      have hno : ∀ l', (s0, l') ∉ acc := by
        intro l' hm; exact hany (List.any_eq_true.mpr ⟨_, hm, by simp⟩)
      constructor
      · rintro ((h | ⟨rfl, rfl⟩) | ⟨h1, h2, h3⟩)
        · exact Or.inl h
        · exact Or.inr ⟨Or.inl rfl, hno, rfl⟩
        · refine Or.inr ⟨Or.inr h1, fun l' hm => h2 l' (Or.inl hm), h3⟩
      · rintro (h | ⟨h1 | h1, h2, h3⟩)
        · exact Or.inl (Or.inl h)
        · exact Or.inl (Or.inr ⟨h1, h3⟩)
        · by_cases he : sys = s0
          · exact Or.inl (Or.inr ⟨he, h3⟩)
          · refine Or.inr ⟨h1, ?_, h3⟩
            rintro l' (hm | ⟨e, _⟩)
            · exact h2 l' hm
            · exact he e

def langOf (l : List (Sys × Bool)) : List (Tag × Tag × Bool) :=
  (l.filter (·.1.2 != "dflt")).map fun x => (x.1.1, x.1.2, x.2)

/-- `Src.registered` with the `language` statements of the block given as a list -/
def registeredWith (langsys : List (Tag × Tag)) (stmts : List (Tag × Tag × Bool)) (reg : Src.Reg) (script lang : Tag) : Bool :=
  match reg with
  | .root => langsys.contains (script, lang) && !(stmts.any fun (s, l, ex) => s == script && l == lang && ex)
  | .script s =>
    s == script && (lang == "dflt" || stmts.any fun (s', l, ex) => s' == s && l == lang && !ex)
  | .lang s l => s == script && l == lang

theorem registered_eq (langsys : List (Tag × Tag)) (body : List Stmt) (reg : Src.Reg) (script lang : Tag) :
    Src.registered langsys body reg script lang = registeredWith langsys (Src.langStmts none body) reg script lang := by
  cases reg <;> rfl

theorem any_langOf (l : List (Sys × Bool)) (sc lg : Tag) (b : Bool) :
    ((langOf l).any fun (s, l', ex) => s == sc && l' == lg && (ex == b)) = true ↔ ((sc, lg), b) ∈ l ∧ lg ≠ "dflt" := by
  simp only [langOf, List.any_eq_true, List.mem_map, List.mem_filter, bne_iff_ne, ne_eq, Bool.and_eq_true, beq_iff_eq]
  constructor
  · rintro ⟨⟨s, l', ex⟩, ⟨⟨⟨s0, l0⟩, ex0⟩, ⟨hm, hne⟩, he⟩, ⟨h1, h2⟩, h3⟩
    simp only [Prod.mk.injEq] at he
    obtain ⟨rfl, rfl, rfl⟩ := he
    simp only at h1 h2 h3 hne
    subst h1 h2 h3
    exact ⟨hm, hne⟩
  · rintro ⟨hm, hne⟩
    exact ⟨(sc, lg, b), ⟨((sc, lg), b), ⟨hm, hne⟩, rfl⟩, ⟨rfl, rfl⟩, rfl⟩


theorem any_langOf_true (l : List (Sys × Bool)) (sc lg : Tag) :
    ((langOf l).any fun (s, l', ex) => s == sc && l' == lg && ex) = true ↔ ((sc, lg), true) ∈ l ∧ lg ≠ "dflt" := by
  have := any_langOf l sc lg true
  simpa using this

theorem any_langOf_false (l : List (Sys × Bool)) (sc lg : Tag) :
    ((langOf l).any fun (s, l', ex) => s == sc && l' == lg && !ex) = true ↔ ((sc, lg), false) ∈ l ∧ lg ≠ "dflt" := by
  have := any_langOf l sc lg false
  simpa using this

theorem bool_false_of_not {b : Bool} (h : ¬ (b = true)) : b = false := by cases b <;> simp_all

theorem fst_unique {α β : Type} (l : List (α × β)) (h : (l.map (·.1)).Nodup) (a : α) (b b' : β)
    (h1 : (a, b) ∈ l) (h2 : (a, b') ∈ l) : b = b' := by
  induction l with
  | nil => simp at h1
  | cons p l ih =>
    simp only [List.map_cons, List.nodup_cons] at h
    have hno : ∀ c, (a, c) ∈ l → p.1 = a → False := by
      intro c hc e
      exact h.1 (e ▸ List.mem_map_of_mem (f := (·.1)) hc)
    rcases List.mem_cons.mp h1 with e1 | h1'
    · rcases List.mem_cons.mp h2 with e2 | h2'
      · rw [← e1] at e2; cases e2; rfl
      · exact (hno b' h2' (by rw [← e1])).elim
    · rcases List.mem_cons.mp h2 with e2 | h2'
      · exact (hno b h1' (by rw [← e2])).elim
      · exact ih h.2 h1' h2'

theorem itemAt_cases (evs : List Ev) (id : LookupId) (P : Src.Reg → Prop) :
    (∃ r, itemAt evs r id ∧ P r) ↔
      (itemAt evs .root id ∧ P .root) ∨ (∃ S, itemAt evs (.script S) id ∧ P (.script S)) ∨
      (∃ S L, itemAt evs (.lang S L) id ∧ P (.lang S L)) := by
  constructor
  · rintro ⟨r, h1, h2⟩
    cases r with
    | root => exact Or.inl ⟨h1, h2⟩
    | script S => exact Or.inr (Or.inl ⟨S, h1, h2⟩)
    | lang S L => exact Or.inr (Or.inr ⟨S, L, h1, h2⟩)
  · rintro (⟨h1, h2⟩ | ⟨S, h1, h2⟩ | ⟨S, L, h1, h2⟩)
    · exact ⟨_, h1, h2⟩
    · exact ⟨_, h1, h2⟩
    · exact ⟨_, h1, h2⟩

/-- **The language systems a lookup is registered for.**  After the events of a feature block, the
    pairs `add_to_features` writes contain `id` for `(sc, lg)` exactly when `id` was added at a
    position that the source semantics registers for `(sc, lg)`. -/
theorem finish_spec {dls : List Sys} {evs : List Ev} {a : Active} (h : AInv dls evs a) (sc lg : Tag) (id : LookupId) :
    (∃ l, ((sc, lg), l) ∈ a.finish ∧ id ∈ l) ↔
      ∃ r, itemAt evs r id ∧ registeredWith dls (langOf (sysEvs evs)) r sc lg = true := by
  rw [Active.finish_eq, h.defaults, itemAt_cases]
  generalize hD : (a.lookups.lookup DD).getD [] = D
  have hDm : ∀ id, id ∈ D ↔ itemAt evs .root id := by intro id; rw [← hD]; exact h.rootIds id
  have hmem : ∀ l, ((sc, lg), l) ∈ dls.foldl (dlStep D) (a.scriptDefault.foldl (sdStep dls D) (a.lookups.filter (·.1 != DD))) ↔ _ :=
    fun l => mem_fold_dlStep D dls _ (sc, lg) l
  have hmem1 : ∀ l, ((sc, lg), l) ∈ a.scriptDefault.foldl (sdStep dls D) (a.lookups.filter (·.1 != DD)) ↔ _ :=
    fun l => mem_fold_sdStep dls D a.scriptDefault h.sdKeys _ (sc, lg) l
  have hmem0 : ∀ l, ((sc, lg), l) ∈ a.lookups.filter (·.1 != DD) ↔ a.lookups.lookup (sc, lg) = some l ∧ (sc, lg) ≠ DD := by
    intro l
    simp only [List.mem_filter, bne_iff_ne, ne_eq]
    rw [mem_iff_lookup _ h.lkKeys]
  simp only [registeredWith, Bool.and_eq_true, Bool.or_eq_true, beq_iff_eq, Bool.not_eq_true', List.contains_eq_mem,
    decide_eq_true_eq]
  by_cases hlg : lg = "dflt"
  · -- the default language system of a script
    subst hlg
    have hno0 : ∀ l, ((sc, "dflt"), l) ∉ a.lookups.filter (·.1 != DD) := by
      intro l hm
      obtain ⟨h1, h2⟩ := (hmem0 l).mp hm
      have := (h.lkSome _ h2).mp (by rw [h1]; rfl)
      exact this.2 rfl
    have hnolang : ∀ S L, itemAt evs (.lang S L) id → ¬ (S = sc ∧ L = "dflt") := by
      rintro S L ⟨x, y, rfl, hr⟩ ⟨rfl, rfl⟩
      rw [regAfter_root] at hr
      cases hc : curOf x with
      | none => rw [hc] at hr; cases hr
      | some s => rw [hc] at hr; exact (regOfSys_eq_lang s _ _ hr).2 rfl
    have hanyT : ((langOf (sysEvs evs)).any fun (s, l', ex) => s == sc && l' == "dflt" && ex) = false := by
      apply bool_false_of_not; rw [any_langOf_true]; simp
    cases hsd : a.scriptDefault.lookup sc with
    | some l0 =>
      have hin : (sc, l0) ∈ a.scriptDefault := (mem_iff_lookup _ h.sdKeys sc l0).mpr hsd
      have hseen : (sc, "dflt") ∈ seenOf evs := h.sdSeen sc (by rw [hsd]; rfl)
      have hdl : (sc, "dflt") ∈ dls := h.seenDls _ hseen
      have hl1 : ∀ l, ((sc, "dflt"), l) ∈ a.scriptDefault.foldl (sdStep dls D) (a.lookups.filter (·.1 != DD)) ↔ l = D ++ l0 := by
        intro l
        rw [hmem1]
        constructor
        · rintro (⟨h1, _⟩ | ⟨p, hp, he, hl⟩)
          · exact absurd h1 (hno0 l)
          · simp only [Prod.mk.injEq, and_true] at he
            have : p = (sc, l0) := by
              have h2 : (sc, p.2) ∈ a.scriptDefault := by rw [he]; exact hp
              have := fst_unique _ h.sdKeys sc p.2 l0 h2 hin
              exact Prod.ext he.symm this
            subst this
            simpa [hdl] using hl
        · rintro rfl
          exact Or.inr ⟨(sc, l0), hin, rfl, by simp [hdl]⟩
      have hS : ∀ id, id ∈ l0 ↔ itemAt evs (.script sc) id := by
        intro id; have := h.scriptIds sc id; rwa [hsd] at this
      constructor
      · rintro ⟨l, hm, hid⟩
        rw [hmem] at hm
        rcases hm with hm | ⟨_, hno, _⟩
        · rw [hl1] at hm; subst hm
          rcases List.mem_append.mp hid with h1 | h1
          · exact Or.inl ⟨(hDm id).mp h1, hdl, hanyT⟩
          · exact Or.inr (Or.inl ⟨sc, (hS id).mp h1, rfl, Or.inl rfl⟩)
        · exact absurd ((hl1 _).mpr rfl) (hno _)
      · rintro (⟨h1, _⟩ | ⟨S, h1, rfl, _⟩ | ⟨S, L, h1, h2⟩)
        · exact ⟨D ++ l0, (hmem _).mpr (Or.inl ((hl1 _).mpr rfl)), List.mem_append_left _ ((hDm id).mpr h1)⟩
        · exact ⟨D ++ l0, (hmem _).mpr (Or.inl ((hl1 _).mpr rfl)), List.mem_append_right _ ((hS id).mpr h1)⟩
        · exact absurd h2 (hnolang S L h1)
    | none =>
      have hnokey : ∀ p ∈ a.scriptDefault, p.1 ≠ sc := by
        intro p hp e
        have := (mem_iff_lookup _ h.sdKeys p.1 p.2).mp hp
        rw [e, hsd] at this; cases this
      have hl1 : ∀ l, ((sc, "dflt"), l) ∉ a.scriptDefault.foldl (sdStep dls D) (a.lookups.filter (·.1 != DD)) := by
        intro l hm
        rw [hmem1] at hm
        rcases hm with ⟨h1, _⟩ | ⟨p, hp, he, _⟩
        · exact hno0 l h1
        · simp only [Prod.mk.injEq, and_true] at he
          exact hnokey p hp he.symm
      have hnoS : ¬ itemAt evs (.script sc) id := by
        intro hh
        have := (h.scriptIds sc id).mpr hh
        rw [hsd] at this; simp at this
      constructor
      · rintro ⟨l, hm, hid⟩
        rw [hmem] at hm
        rcases hm with hm | ⟨hdl, _, rfl⟩
        · exact absurd hm (hl1 l)
        · exact Or.inl ⟨(hDm id).mp hid, hdl, hanyT⟩
      · rintro (⟨h1, hdl, _⟩ | ⟨S, h1, rfl, _⟩ | ⟨S, L, h1, h2⟩)
        · exact ⟨D, (hmem _).mpr (Or.inr ⟨hdl, hl1, rfl⟩), (hDm id).mpr h1⟩
        · exact absurd h1 hnoS
        · exact absurd h2 (hnolang S L h1)
  · -- a language of a script
    have hneDD : (sc, lg) ≠ DD := by simp [DD, hlg]
    have hl1 : ∀ l, ((sc, lg), l) ∈ a.scriptDefault.foldl (sdStep dls D) (a.lookups.filter (·.1 != DD)) ↔
        a.lookups.lookup (sc, lg) = some l := by
      intro l
      rw [hmem1, hmem0]
      constructor
      · rintro (⟨⟨h1, _⟩, _⟩ | ⟨p, _, he, _⟩)
        · exact h1
        · simp only [Prod.mk.injEq] at he; exact absurd he.2 hlg
      · intro h1
        refine Or.inl ⟨⟨h1, hneDD⟩, ?_⟩
        intro p _ he
        simp only [Prod.mk.injEq] at he; exact hlg he.2
    cases hlk : a.lookups.lookup (sc, lg) with
    | some l0 =>
      have hseen : (sc, lg) ∈ seenOf evs := ((h.lkSome _ hneDD).mp (by rw [hlk]; rfl)).1
      obtain ⟨⟨_, ex⟩, hm, he⟩ := List.mem_map.mp hseen
      simp only at he
      subst he
      have hdl : (sc, lg) ∈ dls := h.seenDls _ hseen
      have hids := h.langIds sc lg ex hm hlg id
      rw [hlk] at hids
      simp only [Option.getD_some] at hids
      have hanyT : ((langOf (sysEvs evs)).any fun (s, l', ex) => s == sc && l' == lg && ex) = !(!ex) := by
        cases ex
        · show _ = false
          apply bool_false_of_not; rw [any_langOf_true]
          rintro ⟨h1, _⟩
          have := fst_unique _ h.seenNodup (sc, lg) false true hm h1
          cases this
        · exact (any_langOf_true _ sc lg).mpr ⟨hm, hlg⟩
      have hanyF : (((langOf (sysEvs evs)).any fun (s, l', ex) => s == sc && l' == lg && !ex) = true) ↔ ex = false := by
        rw [any_langOf_false]
        constructor
        · rintro ⟨h1, _⟩; exact fst_unique _ h.seenNodup (sc, lg) ex false hm h1
        · rintro rfl; exact ⟨hm, hlg⟩
      constructor
      · rintro ⟨l, hml, hid⟩
        rw [hmem] at hml
        rcases hml with hml | ⟨_, hno, _⟩
        · rw [hl1, hlk] at hml
          cases hml
          rcases hids.mp hid with h1 | ⟨hex, h1 | h1⟩
          · exact Or.inr (Or.inr ⟨sc, lg, h1, rfl, rfl⟩)
          · exact Or.inl ⟨h1, hdl, by rw [hanyT, hex]; rfl⟩
          · exact Or.inr (Or.inl ⟨sc, h1, rfl, Or.inr (hanyF.mpr hex)⟩)
        · exact absurd ((hl1 l0).mpr hlk) (hno l0)
      · intro hr
        refine ⟨l0, (hmem _).mpr (Or.inl ((hl1 l0).mpr hlk)), hids.mpr ?_⟩
        rcases hr with ⟨h1, _, h3⟩ | ⟨S, h1, rfl, h2⟩ | ⟨S, L, h1, rfl, rfl⟩
        · rw [hanyT] at h3
          exact Or.inr ⟨by simpa using h3, Or.inl h1⟩
        · rcases h2 with h2 | h2
          · exact absurd h2 hlg
          · exact Or.inr ⟨hanyF.mp h2, Or.inr h1⟩
        · exact Or.inl h1
    | none =>
      have hnseen : (sc, lg) ∉ seenOf evs := by
        intro hs
        have := (h.lkSome _ hneDD).mpr ⟨hs, hlg⟩
        rw [hlk] at this; cases this
      have hnoev : ∀ b, ((sc, lg), b) ∉ sysEvs evs := fun b hm => hnseen (List.mem_map.mpr ⟨_, hm, rfl⟩)
      have hanyT : ((langOf (sysEvs evs)).any fun (s, l', ex) => s == sc && l' == lg && ex) = false := by
        apply bool_false_of_not; rw [any_langOf_true]; rintro ⟨h1, _⟩; exact hnoev _ h1
      have hanyF : ¬ (((langOf (sysEvs evs)).any fun (s, l', ex) => s == sc && l' == lg && !ex) = true) := by
        rw [any_langOf_false]; rintro ⟨h1, _⟩; exact hnoev _ h1
      have hno1 : ∀ l, ((sc, lg), l) ∉ a.scriptDefault.foldl (sdStep dls D) (a.lookups.filter (·.1 != DD)) := by
        intro l hm; rw [hl1, hlk] at hm; cases hm
      constructor
      · rintro ⟨l, hml, hid⟩
        rw [hmem] at hml
        rcases hml with hml | ⟨hdl, _, rfl⟩
        · exact absurd hml (hno1 l)
        · exact Or.inl ⟨(hDm id).mp hid, hdl, hanyT⟩
      · rintro (⟨h1, hdl, _⟩ | ⟨S, h1, rfl, h2⟩ | ⟨S, L, h1, rfl, rfl⟩)
        · exact ⟨D, (hmem _).mpr (Or.inr ⟨hdl, hno1, rfl⟩), (hDm id).mpr h1⟩
        · rcases h2 with h2 | h2
          · exact absurd h2 hlg
          · exact absurd h2 hanyF
        · exact absurd (itemAt_lang_seen evs _ _ id h1) hnseen

end Fontc.FeaCompile
