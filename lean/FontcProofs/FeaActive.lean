/-
  C11 simulation, general part 3: `ActiveFeature`.  The language systems a lookup of a feature block
  ends up registered for, after any sequence of `script` / `language` statements in the modelled
  subset, are those the source semantics (`Src.registered`) names.
-/
import FontcProofs.FeaGenInv
import FontcProofs.FeaTables

namespace Fontc.FeaCompile
open Cmp
set_option linter.unusedSimpArgs false

/-! ### association lists -/

theorem assocPush_eq {α β : Type} [BEq α] (k : α) (v : β) (m : List (α × List β)) :
    assocPush k v m = if m.any (·.1 == k) then m.map (fun p => if p.1 == k then (p.1, (· ++ [v]) p.2) else p)
      else m ++ [(k, [v])] := by
  unfold assocPush
  split
  · congr 1
  · rfl

theorem lookup_snoc {κ β : Type} [BEq κ] [LawfulBEq κ] (m : List (κ × β)) (k k' : κ) (v : β) :
    (m ++ [(k, v)]).lookup k' = match m.lookup k' with | some x => some x | none => if k' == k then some v else none := by
  induction m with
  | nil => simp [List.lookup]; split <;> simp_all
  | cons p m ih =>
    obtain ⟨a, b⟩ := p
    simp only [List.cons_append, List.lookup]
    by_cases h : k' == a
    · simp [h]
    · simp [h, ih]

theorem lookup_assocPush {α β : Type} [BEq α] [LawfulBEq α] (k k' : α) (v : β) (m : List (α × List β)) :
    ((assocPush k v m).lookup k').getD [] = if k' == k then (m.lookup k).getD [] ++ [v] else (m.lookup k').getD [] := by
  rw [assocPush_eq]
  split
  · rename_i hany
    obtain ⟨x, hx⟩ := lookup_isSome_of_any k m hany
    have := lookup_map_update k k' (fun x : List β => x ++ [v]) m
    simp only at this ⊢
    rw [this]
    by_cases h : k' == k
    · simp [h, hx]
    · simp [h]
  · rename_i hany
    have hnone := lookup_none_of_any_false' k m hany
    rw [lookup_snoc]
    by_cases h : k' == k
    · have := beq_iff_eq.mp h; subst this
      simp [hnone]
    · simp only [h, Bool.false_eq_true, ↓reduceIte]
      cases m.lookup k' <;> simp

theorem lookup_isSome_iff_any {κ β : Type} [BEq κ] [LawfulBEq κ] (k : κ) (m : List (κ × β)) :
    (m.lookup k).isSome = m.any (·.1 == k) := by
  by_cases h : m.any (·.1 == k) = true
  · obtain ⟨v, hv⟩ := lookup_isSome_of_any k m h
    simp [hv, h]
  · rw [lookup_none_of_any_false' k m h]
    simp only [Option.isSome_none]
    cases hq : m.any (·.1 == k)
    · rfl
    · exact absurd hq h

theorem isSome_assocPush {α β : Type} [BEq α] [LawfulBEq α] (k k' : α) (v : β) (m : List (α × List β)) :
    ((assocPush k v m).lookup k').isSome = (k' == k || (m.lookup k').isSome) := by
  rw [assocPush_eq]
  split
  · rename_i hany
    obtain ⟨x, hx⟩ := lookup_isSome_of_any k m hany
    have := lookup_map_update k k' (fun x : List β => x ++ [v]) m
    simp only at this ⊢
    rw [this]
    by_cases h : k' == k
    · simp [h, hx]
    · simp [h]
  · rw [lookup_snoc]
    by_cases h : k' == k
    · simp only [h, ↓reduceIte, Bool.true_or]
      cases m.lookup k' <;> simp
    · simp only [h, Bool.false_eq_true, ↓reduceIte, Bool.false_or]
      cases m.lookup k' <;> simp

theorem keys_assocPush {α β : Type} [BEq α] [LawfulBEq α] (k : α) (v : β) (m : List (α × List β))
    (h : (m.map (·.1)).Nodup) : ((assocPush k v m).map (·.1)).Nodup := by
  rw [assocPush_eq]
  split
  · have : (m.map fun p => if p.1 == k then (p.1, (· ++ [v]) p.2) else p).map (·.1) = m.map (·.1) := by
      rw [List.map_map]
      apply List.map_congr_left
      intro p _
      simp only [Function.comp]
      split <;> rfl
    rw [this]; exact h
  · rename_i hany
    rw [List.map_append]
    apply nodup_snoc _ _ h
    intro hm
    obtain ⟨p, hp, rfl⟩ := List.mem_map.mp hm
    exact hany (List.any_eq_true.mpr ⟨p, hp, by simp⟩)

theorem mem_iff_lookup {κ β : Type} [BEq κ] [LawfulBEq κ] (l : List (κ × β)) (h : (l.map (·.1)).Nodup)
    (k : κ) (v : β) : (k, v) ∈ l ↔ l.lookup k = some v := by
  induction l with
  | nil => simp [List.lookup]
  | cons p l ih =>
    obtain ⟨a, b⟩ := p
    simp only [List.map_cons, List.nodup_cons] at h
    simp only [List.lookup, List.mem_cons, Prod.mk.injEq]
    by_cases hka : k = a
    · subst hka
      simp only [beq_self_eq_true, Option.some.injEq, true_and]
      constructor
      · rintro (e | hm)
        · exact e.symm
        · exact absurd (List.mem_map_of_mem (f := (·.1)) hm) h.1
      · intro e; exact Or.inl e.symm
    · have : (k == a) = false := by simp [hka]
      simp [this, hka, ih h.2]

/-! ### events -/

def sysEvs : List Ev → List (Sys × Bool)
  | [] => []
  | .sys s ex :: evs => (s, ex) :: sysEvs evs
  | .item _ :: evs => sysEvs evs

def curOf (evs : List Ev) : Option Sys := ((sysEvs evs).getLast?).map (·.1)

/-- `id` was added at position `r` -/
def itemAt (evs : List Ev) (r : Src.Reg) (id : LookupId) : Prop :=
  ∃ x y, evs = x ++ .item id :: y ∧ regAfter .root x = r

theorem sysEvs_append (e1 e2 : List Ev) : sysEvs (e1 ++ e2) = sysEvs e1 ++ sysEvs e2 := by
  induction e1 with
  | nil => rfl
  | cons e e1 ih => cases e <;> simp [sysEvs, ih]

def regOfCur : Option Sys → Src.Reg
  | none => .root
  | some s => regOfSys s

theorem regAfter_eq (r : Src.Reg) (evs : List Ev) :
    regAfter r evs = match (sysEvs evs).getLast? with | none => r | some x => regOfSys x.1 := by
  induction evs generalizing r with
  | nil => rfl
  | cons e evs ih =>
    cases e with
    | item id => simp only [regAfter, sysEvs]; exact ih r
    | sys s ex =>
      simp only [regAfter, sysEvs]
      rw [ih]
      cases h : sysEvs evs with
      | nil => simp
      | cons y ys =>
        rw [List.getLast?_cons_cons]
        cases hq : (y :: ys).getLast? with
        | none => simp at hq
        | some z => rfl

theorem regAfter_root (evs : List Ev) : regAfter .root evs = regOfCur (curOf evs) := by
  rw [regAfter_eq, curOf]
  cases (sysEvs evs).getLast? <;> rfl

theorem itemAt_snoc_item (evs : List Ev) (r : Src.Reg) (id id' : LookupId) :
    itemAt (evs ++ [.item id]) r id' ↔ itemAt evs r id' ∨ (id' = id ∧ r = regAfter .root evs) := by
  constructor
  · rintro ⟨x, y, he, hr⟩
    rcases List.eq_nil_or_concat y with rfl | ⟨y', e, rfl⟩
    · have := List.append_inj' he (by simp)
      simp only [List.cons.injEq, Ev.item.injEq, and_true] at this
      obtain ⟨rfl, rfl⟩ := this
      exact Or.inr ⟨rfl, hr.symm⟩
    · left
      rw [List.concat_eq_append, ← List.cons_append, ← List.append_assoc] at he
      have := List.append_inj' he (by simp)
      exact ⟨x, y', this.1, hr⟩
  · rintro (⟨x, y, he, hr⟩ | ⟨rfl, rfl⟩)
    · exact ⟨x, y ++ [.item id], by simp [he], hr⟩
    · exact ⟨evs, [], rfl, rfl⟩

theorem itemAt_snoc_sys (evs : List Ev) (r : Src.Reg) (s : Sys) (ex : Bool) (id' : LookupId) :
    itemAt (evs ++ [.sys s ex]) r id' ↔ itemAt evs r id' := by
  constructor
  · rintro ⟨x, y, he, hr⟩
    rcases List.eq_nil_or_concat y with rfl | ⟨y', e, rfl⟩
    · have := List.append_inj' he (by simp)
      simp at this
    · rw [List.concat_eq_append, ← List.cons_append, ← List.append_assoc] at he
      have := List.append_inj' he (by simp)
      exact ⟨x, y', this.1, hr⟩
  · rintro ⟨x, y, he, hr⟩
    exact ⟨x, y ++ [.sys s ex], by simp [he], hr⟩

theorem itemAt_nil (r : Src.Reg) (id : LookupId) : ¬ itemAt [] r id := by
  rintro ⟨x, y, he, _⟩
  cases x <;> simp at he


def DD : Sys := ("DFLT", "dflt")

def seenOf (evs : List Ev) : List Sys := (sysEvs evs).map (·.1)

theorem curOf_snoc_item (evs : List Ev) (id : LookupId) : curOf (evs ++ [.item id]) = curOf evs := by
  simp [curOf, sysEvs_append, sysEvs]

theorem curOf_snoc_sys (evs : List Ev) (s : Sys) (ex : Bool) : curOf (evs ++ [.sys s ex]) = some s := by
  simp [curOf, sysEvs_append, sysEvs]

theorem sysEvs_of_curOf_none (evs : List Ev) (h : curOf evs = none) : sysEvs evs = [] := by
  simp only [curOf, Option.map_eq_none_iff] at h
  exact List.getLast?_eq_none_iff.mp h

theorem curOf_mem_seen (evs : List Ev) (s : Sys) (h : curOf evs = some s) : s ∈ seenOf evs := by
  simp only [curOf, Option.map_eq_some_iff] at h
  obtain ⟨x, hx, rfl⟩ := h
  exact List.mem_map_of_mem (List.mem_of_getLast? hx)

theorem regOfSys_eq_lang (s : Sys) (S L : Tag) (h : regOfSys s = .lang S L) : s = (S, L) ∧ L ≠ "dflt" := by
  unfold regOfSys at h
  split at h
  · cases h
  · rename_i hne
    cases h
    exact ⟨rfl, by simpa using hne⟩

theorem regOfSys_eq_script (s : Sys) (S : Tag) (h : regOfSys s = .script S) : s = (S, "dflt") := by
  unfold regOfSys at h
  split at h
  · rename_i he
    cases h
    have : s.2 = "dflt" := by simpa using he
    exact Prod.ext rfl this
  · cases h

theorem regOfSys_ne_root (s : Sys) : regOfSys s ≠ .root := by
  unfold regOfSys; split <;> simp

theorem seenOf_prefix (x y : List Ev) (s : Sys) (h : s ∈ seenOf x) : s ∈ seenOf (x ++ y) := by
  simp only [seenOf, sysEvs_append, List.map_append, List.mem_append]
  exact Or.inl h

theorem itemAt_lang_seen (evs : List Ev) (S L : Tag) (id : LookupId) (h : itemAt evs (.lang S L) id) :
    (S, L) ∈ seenOf evs := by
  obtain ⟨x, y, rfl, hr⟩ := h
  rw [regAfter_root] at hr
  cases hc : curOf x with
  | none => rw [hc] at hr; cases hr
  | some s =>
    rw [hc] at hr
    obtain ⟨rfl, _⟩ := regOfSys_eq_lang s S L hr
    exact seenOf_prefix x _ _ (curOf_mem_seen x _ hc)

theorem itemAt_script_seen (evs : List Ev) (S : Tag) (id : LookupId) (h : itemAt evs (.script S) id) :
    (S, "dflt") ∈ seenOf evs := by
  obtain ⟨x, y, rfl, hr⟩ := h
  rw [regAfter_root] at hr
  cases hc : curOf x with
  | none => rw [hc] at hr; cases hr
  | some s =>
    rw [hc] at hr
    have := regOfSys_eq_script s S hr
    subst this
    exact seenOf_prefix x _ _ (curOf_mem_seen x _ hc)

/-- what the fields of `ActiveFeature` hold after the events `evs` -/
structure AInv (dls : List Sys) (evs : List Ev) (a : Active) : Prop where
  defaults : a.defaults = dls
  cur : a.curSys = curOf evs
  rootIds : ∀ id, id ∈ (a.lookups.lookup DD).getD [] ↔ itemAt evs .root id
  scriptIds : ∀ S id, id ∈ (a.scriptDefault.lookup S).getD [] ↔ itemAt evs (.script S) id
  sdKeys : (a.scriptDefault.map (·.1)).Nodup
  sdSeen : ∀ S, (a.scriptDefault.lookup S).isSome = true → (S, "dflt") ∈ seenOf evs
  lkKeys : (a.lookups.map (·.1)).Nodup
  lkSome : ∀ k, k ≠ DD → ((a.lookups.lookup k).isSome = true ↔ k ∈ seenOf evs ∧ k.2 ≠ "dflt")
  langIds : ∀ S L ex, ((S, L), ex) ∈ sysEvs evs → L ≠ "dflt" → ∀ id, id ∈ (a.lookups.lookup (S, L)).getD [] ↔
      itemAt evs (.lang S L) id ∨ (ex = false ∧ (itemAt evs .root id ∨ itemAt evs (.script S) id))
  noLangYet : ∀ S, a.curSys = some (S, "dflt") → ∀ L ex, ((S, L), ex) ∈ sysEvs evs → L = "dflt"
  scriptSeen : ∀ S L ex, ((S, L), ex) ∈ sysEvs evs → (S, "dflt") ∈ seenOf evs

theorem AInv.init (tag : Tag) (dls : List Sys) : AInv dls [] { tag := tag, defaults := dls } := {
  defaults := rfl
  cur := rfl
  rootIds := by intro id; simp [List.lookup, itemAt_nil]
  scriptIds := by intro S id; simp [List.lookup, itemAt_nil]
  sdKeys := by simp
  sdSeen := by intro S h; simp [List.lookup] at h
  lkKeys := by simp
  lkSome := by intro k _; simp [List.lookup, seenOf, sysEvs]
  langIds := by intro S L ex h; simp [sysEvs] at h
  noLangYet := by intro S h; simp at h
  scriptSeen := by intro S L ex h; simp [sysEvs] at h }

/-- an item is added -/
theorem AInv.item {dls : List Sys} {evs : List Ev} {a : Active} (h : AInv dls evs a) (id : LookupId) :
    AInv dls (evs ++ [.item id]) (a.addLookup id) := by
  have hsys : sysEvs (evs ++ [.item id]) = sysEvs evs := by simp [sysEvs_append, sysEvs]
  have hseen : seenOf (evs ++ [.item id]) = seenOf evs := by simp [seenOf, hsys]
  have hreg := regAfter_root evs
  cases hc : a.curSys with
  | none =>
    have hcur : curOf evs = none := by rw [← h.cur, hc]
    have hnil := sysEvs_of_curOf_none evs hcur
    rw [hcur] at hreg
    simp only [regOfCur] at hreg
    have ha : a.addLookup id = { a with lookups := assocPush DD id a.lookups } := by
      simp [Active.addLookup, hc, DD]
    rw [ha]
    exact {
      defaults := h.defaults
      cur := by rw [curOf_snoc_item]; exact h.cur
      rootIds := by
        intro id'
        simp only [lookup_assocPush, beq_self_eq_true, ↓reduceIte, List.mem_append, List.mem_singleton, itemAt_snoc_item,
          h.rootIds, hreg, and_true]
      scriptIds := by
        intro S id'
        simp only [itemAt_snoc_item, hreg, h.scriptIds]
        simp
      sdKeys := h.sdKeys
      sdSeen := by rw [hseen]; exact h.sdSeen
      lkKeys := keys_assocPush _ _ _ h.lkKeys
      lkSome := by
        intro k hk
        have : (k == DD) = false := by simp [hk]
        simp only [isSome_assocPush, this, Bool.false_or, hseen]
        exact h.lkSome k hk
      langIds := by intro S L ex hm; rw [hsys, hnil] at hm; simp at hm
      noLangYet := by intro S hs; simp [hc] at hs
      scriptSeen := by intro S L ex hm; rw [hsys, hnil] at hm; simp at hm }
  | some sys =>
    obtain ⟨S, L⟩ := sys
    have hcur : curOf evs = some (S, L) := by rw [← h.cur, hc]
    rw [hcur] at hreg
    simp only [regOfCur] at hreg
    by_cases hL : L = "dflt"
    · subst hL
      have hreg' : regAfter .root evs = .script S := by rw [hreg]; simp [regOfSys]
      have ha : a.addLookup id = { a with scriptDefault := assocPush S id a.scriptDefault } := by
        simp [Active.addLookup, hc]
      rw [ha]
      exact {
        defaults := h.defaults
        cur := by rw [curOf_snoc_item]; exact h.cur
        rootIds := by
          intro id'
          simp only [itemAt_snoc_item, hreg', h.rootIds]
          simp
        scriptIds := by
          intro S' id'
          simp only [lookup_assocPush, itemAt_snoc_item, hreg', Src.Reg.script.injEq]
          by_cases hS : S' = S
          · subst hS
            simp only [beq_self_eq_true, ↓reduceIte, List.mem_append, List.mem_singleton, h.scriptIds, and_true]
          · have : (S' == S) = false := by simp [hS]
            simp only [this, Bool.false_eq_true, ↓reduceIte, h.scriptIds, hS, and_false, or_false]
        sdKeys := keys_assocPush _ _ _ h.sdKeys
        sdSeen := by
          intro S' hs
          rw [hseen]
          simp only [isSome_assocPush, Bool.or_eq_true, beq_iff_eq] at hs
          rcases hs with rfl | hs
          · exact curOf_mem_seen evs _ hcur
          · exact h.sdSeen S' hs
        lkKeys := h.lkKeys
        lkSome := by rw [hseen]; exact h.lkSome
        langIds := by
          intro S' L' ex hm hL' id'
          rw [hsys] at hm
          simp only [itemAt_snoc_item, hreg']
          have hne : S' ≠ S := by
            intro e; subst e
            exact hL' (h.noLangYet S' hc L' ex hm)
          rw [h.langIds S' L' ex hm hL' id']
          simp [hne]
        noLangYet := by intro S' hs; rw [hsys]; exact h.noLangYet S' hs
        scriptSeen := by rw [hsys, hseen]; exact h.scriptSeen }
    · have hreg' : regAfter .root evs = .lang S L := by rw [hreg]; simp [regOfSys, hL]
      have hLb : (L == "dflt") = false := by simp [hL]
      have ha : a.addLookup id = { a with lookups := assocPush (S, L) id a.lookups } := by
        simp [Active.addLookup, hc, hLb]
      have hneDD : (S, L) ≠ DD := by simp [DD, hL]
      rw [ha]
      exact {
        defaults := h.defaults
        cur := by rw [curOf_snoc_item]; exact h.cur
        rootIds := by
          intro id'
          have : (DD == (S, L)) = false := by simp [DD, hL]; intro _; exact fun e => hL e.symm
          simp only [lookup_assocPush, this, Bool.false_eq_true, ↓reduceIte, itemAt_snoc_item, hreg', h.rootIds]
          simp
        scriptIds := by
          intro S' id'
          simp only [itemAt_snoc_item, hreg', h.scriptIds]
          simp
        sdKeys := h.sdKeys
        sdSeen := by rw [hseen]; exact h.sdSeen
        lkKeys := keys_assocPush _ _ _ h.lkKeys
        lkSome := by
          intro k hk
          simp only [isSome_assocPush, Bool.or_eq_true, beq_iff_eq, hseen]
          constructor
          · rintro (rfl | hs)
            · exact ⟨curOf_mem_seen evs _ hcur, hL⟩
            · exact (h.lkSome k hk).mp hs
          · intro hs; exact Or.inr ((h.lkSome k hk).mpr hs)
        langIds := by
          intro S' L' ex hm hL' id'
          rw [hsys] at hm
          simp only [lookup_assocPush, itemAt_snoc_item, hreg', Src.Reg.lang.injEq]
          by_cases hk : (S', L') = (S, L)
          · cases hk
            simp only [beq_self_eq_true, ↓reduceIte, List.mem_append, List.mem_singleton, h.langIds S L ex hm hL' id',
              and_self, and_true]
            simp only [reduceCtorEq, and_false, or_false]
            constructor
            · rintro ((h1 | h2) | h3)
              · exact Or.inl (Or.inl h1)
              · exact Or.inr h2
              · exact Or.inl (Or.inr h3)
            · rintro ((h1 | h3) | h2)
              · exact Or.inl (Or.inl h1)
              · exact Or.inr h3
              · exact Or.inl (Or.inr h2)
          · have hb : ((S', L') == (S, L)) = false := by simp at hk ⊢; exact hk
            have hk' : ¬ (S = S' ∧ L = L') := by rintro ⟨rfl, rfl⟩; exact hk rfl
            simp only [hb, Bool.false_eq_true, ↓reduceIte, h.langIds S' L' ex hm hL' id', hk', and_false, or_false,
              reduceCtorEq]
        noLangYet := by intro S' hs; simp [hc, hL] at hs
        scriptSeen := by rw [hsys, hseen]; exact h.scriptSeen }

end Fontc.FeaCompile
