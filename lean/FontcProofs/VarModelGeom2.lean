/-
  Geometry of the variation model, part 2: the shrinking relation, the "killed" predicate,
  `overlaps`, one `influenceStep` (specification `influenceStep_spec`), support/rank lemmas.
  Helper lemmas for FontcProofs/VarModelGeom.lean.
-/
import FontcProofs.VarModelGeom1

namespace Fontc.VarModel.Geom
open Fontc Fontc.VarModel

/-- `t'` is `t` shrunk: same peak, larger min, smaller max. -/
def Shr (t t' : Tent) : Prop := t'.peak = t.peak ∧ t.min ≤ t'.min ∧ t'.max ≤ t.max

def ShrAll (r r' : Region) : Prop :=
  r.length = r'.length ∧
  ∀ (a : Nat) (t t' : Tent), r[a]? = some t → r'[a]? = some t' → Shr t t'

/-- Some active axis of `r` has the peak of `p` outside the open support of `r`'s tent. -/
def KilledBy (r p : Region) : Prop :=
  ∃ (a : Nat) (t q : Tent), r[a]? = some t ∧ p[a]? = some q ∧
    q.peak ≠ t.peak ∧ t.peak ≠ 0 ∧ (q.peak ≤ t.min ∨ t.max ≤ q.peak)

theorem ShrAll.refl (r : Region) : ShrAll r r := by
  refine ⟨rfl, ?_⟩
  intro a t t' h1 h2
  rw [h1] at h2; cases h2
  unfold Shr; grind

theorem ShrAll.trans {r r' r'' : Region} (h1 : ShrAll r r') (h2 : ShrAll r' r'') : ShrAll r r'' := by
  refine ⟨h1.1.trans h2.1, ?_⟩
  intro a t t'' ha hc
  have hlt : a < r'.length := by
    have := (List.getElem?_eq_some_iff.1 ha).1
    rw [← h1.1]; exact this
  have hb : r'[a]? = some r'[a] := List.getElem?_eq_getElem hlt
  have s1 := h1.2 a t _ ha hb
  have s2 := h2.2 a _ t'' hb hc
  unfold Shr at *; grind

theorem KilledBy.shr {r r' p : Region} (hk : KilledBy r p) (hs : ShrAll r r') : KilledBy r' p := by
  obtain ⟨a, t, q, h1, h2, h3, h4, h5⟩ := hk
  have hlt : a < r'.length := by
    have := (List.getElem?_eq_some_iff.1 h1).1
    rw [← hs.1]; exact this
  have hb : r'[a]? = some r'[a] := List.getElem?_eq_getElem hlt
  have s := hs.2 a t _ h1 hb
  refine ⟨a, r'[a], q, hb, h2, ?_⟩
  unfold Shr at s; grind

theorem overlaps_true {r p : Region} (h : overlaps r p = true) :
    ∀ (a : Nat) (t q : Tent), r[a]? = some t → p[a]? = some q →
      (q.peak = t.peak ∨ (t.min < q.peak ∧ q.peak < t.max)) := by
  fun_induction overlaps r p with
  | case1 => simp
  | case2 => simp
  | case3 t ts p ps ih =>
    simp only [Bool.and_eq_true, decide_eq_true_eq] at h
    intro a t' q h1 h2
    cases a with
    | zero => simp at h1 h2; subst h1 h2; exact h.1
    | succ a => exact ih h.2 a t' q (by simpa using h1) (by simpa using h2)

theorem overlaps_false {r p : Region} (h : overlaps r p = false) :
    ∃ (a : Nat) (t q : Tent), r[a]? = some t ∧ p[a]? = some q ∧
      ¬ (q.peak = t.peak ∨ (t.min < q.peak ∧ q.peak < t.max)) := by
  fun_induction overlaps r p with
  | case1 => simp at h
  | case2 => simp at h
  | case3 t ts p ps ih =>
    simp only [Bool.and_eq_false_iff, decide_eq_false_iff_not] at h
    rcases h with h | h
    · exact ⟨0, t, p, by simp, by simp, h⟩
    · obtain ⟨a, t', q, h1, h2, h3⟩ := ih h
      exact ⟨a + 1, t', q, by simpa using h1, by simpa using h2, h3⟩

theorem activeAxes_get {r p : Region} (h : activeAxes r = activeAxes p) {a : Nat} {t q : Tent}
    (h1 : r[a]? = some t) (h2 : p[a]? = some q) : t.hasNonZero = q.hasNonZero := by
  have := congrArg (·[a]?) h
  simpa [activeAxes, List.getElem?_map, h1, h2] using this

theorem cutRatio_pos {t q : Tent} (hne : q.peak ≠ t.peak) (h : t.min < q.peak ∧ q.peak < t.max) :
    -1 < cutRatio t q := by
  unfold cutRatio
  split
  · have := div_pos_of_neg_neg (a := q.peak - t.peak) (b := t.min - t.peak) (by grind) (by grind)
    grind
  · have := div_pos_of_pos_pos (a := q.peak - t.peak) (b := t.max - t.peak) (by grind) (by grind)
    grind

theorem cutTent_spec {t q : Tent} (ho : TentOrd t) (hne : q.peak ≠ t.peak)
    (h : t.min < q.peak ∧ q.peak < t.max) :
    TentOrd (cutTent t q) ∧ Shr t (cutTent t q) ∧
    ((cutTent t q).min = t.min ∨ (cutTent t q).min = q.peak) ∧
    ((cutTent t q).max = t.max ∨ (cutTent t q).max = q.peak) ∧
    (q.peak ≤ (cutTent t q).min ∨ (cutTent t q).max ≤ q.peak) := by
  unfold TentOrd Shr cutTent at *
  split <;> simp <;> grind

/-- Pointwise description of the result of `applyCuts` on the cuts found by `cutAll`. -/
theorem applyCuts_cutAll_get {r p : Region} {a : Nat} {t t' : Tent}
    (h1 : r[a]? = some t) (h2 : (applyCuts r (cutAll ⟨-1, []⟩ 0 r p).cuts)[a]? = some t') :
    t' = t ∨ ∃ q, p[a]? = some q ∧ Cand t q ∧ t' = cutTent t q := by
  rw [applyCuts_getElem?, h1] at h2
  simp only [Option.map_some, Option.some.injEq] at h2
  split at h2
  · rename_i c hc
    have hmem := List.mem_of_find?_eq_some hc
    have hidx := List.find?_some hc
    simp only [beq_iff_eq] at hidx
    rcases cutAll_mem hmem with h | ⟨k, t2, p2, g1, g2, g3, g4⟩
    · simp at h
    · subst g4
      simp only [Nat.zero_add] at hidx
      subst hidx
      rw [h1] at g1; cases g1
      exact .inr ⟨p2, g2, g3, h2.symm⟩
  · exact .inl h2.symm

/-- If some axis is a cut candidate with ratio `> -1`, some axis of the result is really cut. -/
theorem applyCuts_cutAll_exists {r p : Region}
    (h : ∃ (k : Nat) (t q : Tent), r[k]? = some t ∧ p[k]? = some q ∧ Cand t q ∧ -1 < cutRatio t q) :
    ∃ (a : Nat) (t q : Tent), r[a]? = some t ∧ p[a]? = some q ∧ Cand t q ∧
      (applyCuts r (cutAll ⟨-1, []⟩ 0 r p).cuts)[a]? = some (cutTent t q) := by
  have hne := cutAll_nonempty (st := ⟨-1, []⟩) (i := 0) (ts := r) (ps := p) (.inr (by simp)) h
  generalize hcs : (cutAll ⟨-1, []⟩ 0 r p).cuts = cs at hne
  obtain ⟨c, cs', rfl⟩ := List.exists_cons_of_ne_nil hne
  -- the first cut with the same axis index as `c`
  have hsome : ((c :: cs').find? (fun d => d.1 == c.1)).isSome := by
    simp
  obtain ⟨d, hd⟩ := Option.isSome_iff_exists.1 hsome
  have hmem := List.mem_of_find?_eq_some hd
  have hidx := List.find?_some hd
  simp only [beq_iff_eq] at hidx
  rw [← hcs] at hmem
  rcases cutAll_mem hmem with h' | ⟨k, t2, p2, g1, g2, g3, g4⟩
  · simp at h'
  · refine ⟨k, t2, p2, g1, g2, g3, ?_⟩
    rw [applyCuts_getElem?, g1]
    have : c.1 = k := by rw [← hidx, g4]; simp
    rw [this] at hd
    simp only [Option.map_some, hd, g4]

/-! ### One influence step -/

theorem TentOrd.hasNonZero {t : Tent} (h : TentOrd t) : t.hasNonZero = true ↔ t.peak ≠ 0 := by
  unfold TentOrd at h
  simp [Tent.hasNonZero]
  grind

theorem getElem?_some_of_length_eq {α β} {l : List α} {l' : List β} (h : l.length = l'.length)
    {a : Nat} {x : α} (hx : l[a]? = some x) : ∃ y, l'[a]? = some y := by
  have := (List.getElem?_eq_some_iff.1 hx).1
  exact ⟨l'[a]'(h ▸ this), List.getElem?_eq_getElem _⟩

theorem RegInv.of_get {locs : List Loc} {l : Loc} {r : Region} (h : RegInv locs l r)
    {a : Nat} {t : Tent} (h1 : r[a]? = some t) :
    ∃ v, l[a]? = some v ∧ t.peak = v ∧ TentOrd t ∧ InCol locs a t.min ∧ InCol locs a t.max ∧
      InCol locs a t.peak := by
  obtain ⟨v, hv⟩ := getElem?_some_of_length_eq h.2.1 h1
  have := h.2.2 a t v h1 hv
  refine ⟨v, hv, this.1, this.2.1, this.2.2.1, this.2.2.2, .inr ⟨l, h.1, ?_⟩⟩
  simp [List.getD, hv, this.1]

theorem RegInv.of_get_loc {locs : List Loc} {l : Loc} {r : Region} (h : RegInv locs l r)
    {a : Nat} {v : Rat} (h1 : l[a]? = some v) :
    ∃ t, r[a]? = some t ∧ t.peak = v ∧ TentOrd t := by
  obtain ⟨t, ht⟩ := getElem?_some_of_length_eq h.2.1.symm h1
  have := h.2.2 a t v ht h1
  exact ⟨t, ht, this.1, this.2.1⟩

theorem influenceStep_spec {locs : List Loc} {l l' : Loc} {r p : Region}
    (hr : RegInv locs l r) (hp : RegInv locs l' p) (hlen : l.length = l'.length) :
    RegInv locs l (influenceStep r p) ∧ ShrAll r (influenceStep r p) ∧
    (activeAxes r = activeAxes p → l' ≠ l → KilledBy (influenceStep r p) p) := by
  unfold influenceStep
  by_cases hA : activeAxes r = activeAxes p
  case neg => simp only [ne_eq, hA, not_false_eq_true, if_true]; exact ⟨hr, ShrAll.refl r, fun h => h.elim⟩
  simp only [ne_eq, hA, not_true_eq_false, if_false]
  by_cases hO : overlaps r p = true
  case neg =>
    simp only [hO, Bool.not_false, if_true]
    refine ⟨hr, ShrAll.refl r, fun _ _ => ?_⟩
    obtain ⟨a, t, q, h1, h2, h3⟩ := overlaps_false (by simpa using hO)
    obtain ⟨v, _, _, ht, _⟩ := hr.of_get h1
    obtain ⟨v', _, _, hq, _⟩ := hp.of_get h2
    have hnz := activeAxes_get hA h1 h2
    have e1 := ht.hasNonZero
    have e2 := hq.hasNonZero
    refine ⟨a, t, q, h1, h2, ?_⟩
    unfold TentOrd at ht
    grind
  case pos =>
    simp only [hO, Bool.not_true, Bool.false_eq_true, if_false]
    have hov := overlaps_true hO
    have hlen' : (applyCuts r (cutAll ⟨-1, []⟩ 0 r p).cuts).length = r.length := by
      simp [applyCuts]
    -- pointwise facts about the result
    have key : ∀ (a : Nat) (t t' : Tent), r[a]? = some t →
        (applyCuts r (cutAll ⟨-1, []⟩ 0 r p).cuts)[a]? = some t' →
        t'.peak = t.peak ∧ TentOrd t' ∧ Shr t t' ∧ InCol locs a t'.min ∧ InCol locs a t'.max := by
      intro a t t' h1 h2
      obtain ⟨v, hv, hpk, ht, hmin, hmax, _⟩ := hr.of_get h1
      rcases applyCuts_cutAll_get h1 h2 with rfl | ⟨q, hq, hc, rfl⟩
      · exact ⟨rfl, ht, by unfold Shr; grind, hmin, hmax⟩
      · obtain ⟨v', _, _, _, _, _, hqc⟩ := hp.of_get hq
        have hin := (hov a t q h1 hq).resolve_left hc.2
        obtain ⟨c1, c2, c3, c4, _⟩ := cutTent_spec ht hc.2 hin
        refine ⟨c2.1, c1, c2, ?_, ?_⟩
        · rcases c3 with e | e <;> rw [e] <;> assumption
        · rcases c4 with e | e <;> rw [e] <;> assumption
    refine ⟨⟨hr.1, hlen'.trans hr.2.1, ?_⟩, ⟨hlen'.symm, ?_⟩, ?_⟩
    · intro a t' v h1 h2
      obtain ⟨t, ht⟩ := getElem?_some_of_length_eq hlen' h1
      obtain ⟨k1, k2, k3, k4, k5⟩ := key a t t' ht h1
      have := hr.2.2 a t v ht h2
      exact ⟨k1.trans this.1, k2, k4, k5⟩
    · intro a t t' h1 h2
      exact (key a t t' h1 h2).2.2.1
    · intro _ hne
      -- some axis where the two locations differ
      have : ∃ (k : Nat) (v v' : Rat), l[k]? = some v ∧ l'[k]? = some v' ∧ v' ≠ v := by
        apply Classical.byContradiction
        intro hcon
        apply hne
        apply List.ext_getElem? 
        intro k
        by_cases hk : k < l.length
        · have hk' : k < l'.length := hlen ▸ hk
          rw [List.getElem?_eq_getElem hk, List.getElem?_eq_getElem hk']
          congr 1
          apply Classical.byContradiction
          intro hx
          exact hcon ⟨k, l[k], l'[k], List.getElem?_eq_getElem hk, List.getElem?_eq_getElem hk', hx⟩
        · have hk' : ¬ k < l'.length := hlen ▸ hk
          rw [List.getElem?_eq_none (by omega), List.getElem?_eq_none (by omega)]
      obtain ⟨k, v, v', g1, g2, g3⟩ := this
      obtain ⟨t, ht1, ht2, ht3⟩ := hr.of_get_loc g1
      obtain ⟨q, hq1, hq2, hq3⟩ := hp.of_get_loc g2
      have hnz := activeAxes_get hA ht1 hq1
      have e1 := ht3.hasNonZero
      have e2 := hq3.hasNonZero
      have hc : Cand t q := by unfold Cand; grind
      have hin := (hov k t q ht1 hq1).resolve_left hc.2
      obtain ⟨a, t2, q2, f1, f2, f3, f4⟩ :=
        applyCuts_cutAll_exists ⟨k, t, q, ht1, hq1, hc, cutRatio_pos hc.2 hin⟩
      obtain ⟨_, _, _, ht2o, _⟩ := hr.of_get f1
      have hin2 := (hov a t2 q2 f1 f2).resolve_left f3.2
      obtain ⟨c1, c2, _, _, c5⟩ := cutTent_spec ht2o f3.2 hin2
      have e3 := ht2o.hasNonZero
      refine ⟨a, cutTent t2 q2, q2, f4, f2, ?_⟩
      unfold Shr Cand at *
      grind

/-! ### Supports and rank -/

/-- non-zero test used for supports (`rank` counts these). -/
def nz (v : Rat) : Bool := !isZero v

theorem nz_iff (v : Rat) : nz v = true ↔ v ≠ 0 := by simp [nz, isZero]

theorem rank_cons (x : Rat) (l : Loc) : rank (x :: l) = (if x = 0 then 0 else 1) + rank l := by
  unfold rank
  by_cases h : x = 0 <;> simp [isZero, h] <;> omega

theorem rank_mono : ∀ (l l' : Loc), l.length = l'.length →
    (∀ (a : Nat) (v v' : Rat), l[a]? = some v → l'[a]? = some v' → v ≠ 0 → v' ≠ 0) →
    rank l ≤ rank l'
  | [], [], _, _ => Nat.le_refl _
  | [], _ :: _, h, _ => by simp at h
  | _ :: _, [], h, _ => by simp at h
  | x :: l, y :: l', hlen, h => by
    have ih := rank_mono l l' (by simpa using hlen)
      (fun a v v' h1 h2 => h (a + 1) v v' (by simpa using h1) (by simpa using h2))
    have h0 := h 0 x y (by simp) (by simp)
    rw [rank_cons, rank_cons]
    by_cases hx : x = 0 <;> by_cases hy : y = 0 <;> simp [hx, hy] <;> grind

theorem support_eq : ∀ (l l' : Loc), l.length = l'.length →
    (∀ (a : Nat) (v v' : Rat), l[a]? = some v → l'[a]? = some v' → v ≠ 0 → v' ≠ 0) →
    rank l' ≤ rank l → l'.map nz = l.map nz
  | [], [], _, _, _ => rfl
  | [], _ :: _, h, _, _ => by simp at h
  | _ :: _, [], h, _, _ => by simp at h
  | x :: l, y :: l', hlen, h, hr => by
    have htl : ∀ (a : Nat) (v v' : Rat), l[a]? = some v → l'[a]? = some v' → v ≠ 0 → v' ≠ 0 :=
      fun a v v' h1 h2 => h (a + 1) v v' (by simpa using h1) (by simpa using h2)
    have hm := rank_mono l l' (by simpa using hlen) htl
    have h0 := h 0 x y (by simp) (by simp)
    rw [rank_cons, rank_cons] at hr
    have hxy : nz y = nz x := by
      have e1 := nz_iff x
      have e2 := nz_iff y
      by_cases hx : x = 0 <;> by_cases hy : y = 0 <;> simp [hx, hy] at hr <;> grind
    have ih := support_eq l l' (by simpa using hlen) htl (by
      by_cases hx : x = 0 <;> by_cases hy : y = 0 <;> simp [hx, hy] at hr <;> grind)
    simp [hxy, ih]

theorem TentOrd.validate {t : Tent} (h : TentOrd t) : t.validate = true := by
  rw [validate_iff]; unfold TentOrd at h; grind

theorem tentFactor_eq_zero {t : Tent} {v : Rat} (ho : TentOrd t) (h1 : v ≠ t.peak)
    (h2 : t.peak ≠ 0) (h3 : v ≤ t.min ∨ t.max ≤ v) : tentFactor t v = 0 := by
  unfold tentFactor
  simp [ho.validate, h1, h2, h3]

theorem tentFactor_peak (t : Tent) : tentFactor t t.peak = 1 := by
  unfold tentFactor
  split <;> simp

end Fontc.VarModel.Geom
