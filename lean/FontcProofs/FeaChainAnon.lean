/-
  C11, contextual lookups, part 4: the anonymous lookups.  Inline rules of one contextual lookup share
  anonymous lookups (`find_or_create_anon_lookup`); under the conditions of the modelled subset every
  inline rule still finds its own replacement in the lookup it references, when all rules are in.
-/
import FontcProofs.FeaChainFold
import FontcProofs.FeaMap

namespace Fontc.FeaCompile
open Cmp
set_option linter.unusedSimpArgs false

/-! ### list helpers -/

theorem getElem?_modifyNth {α : Type} (f : α → α) (l : List α) (n k : Nat) :
    (modifyNth f l n)[k]? = if k = n then (l[k]?).map f else l[k]? := by
  induction l generalizing n k with
  | nil => simp [modifyNth]
  | cons x l ih =>
    cases n with
    | zero =>
      cases k with
      | zero => simp [modifyNth]
      | succ k => simp [modifyNth]
    | succ n =>
      cases k with
      | zero => simp [modifyNth]
      | succ k => simp [modifyNth, ih]

theorem length_modifyNth {α : Type} (f : α → α) (l : List α) (n : Nat) : (modifyNth f l n).length = l.length := by
  induction l generalizing n with
  | nil => simp [modifyNth]
  | cons x l ih => cases n <;> simp [modifyNth, ih]

/-- `find_or_create_anon_lookup`: an existing usable lookup (the first one), or a fresh one at the end -/
theorem findOrCreate_spec (an : List Anon) (usable : Anon → Bool) (fresh : Anon) :
    ((findOrCreate an usable fresh).1 = an ∧ ∃ a, an[(findOrCreate an usable fresh).2]? = some a ∧ usable a = true) ∨
    ((findOrCreate an usable fresh).1 = an ++ [fresh] ∧ (findOrCreate an usable fresh).2 = an.length ∧
      ∀ a ∈ an, usable a = false) := by
  unfold findOrCreate
  cases hq : an.findIdx? usable with
  | some i =>
    left
    obtain ⟨hlt, hp, _⟩ := List.findIdx?_eq_some_iff_getElem.mp hq
    exact ⟨rfl, an[i], by simp [List.getElem?_eq_getElem hlt], hp⟩
  | none =>
    right
    refine ⟨rfl, rfl, ?_⟩
    intro a ha
    have := List.findIdx?_eq_none_iff.mp hq a ha
    simpa using this

/-! ### what it means that an inline rule finds its replacement in lookup `j` -/

def SingleHolds (A : List Anon) (j : Nat) (pairs : List (Glyph × Glyph)) : Prop :=
  ∃ m : List (Glyph × Glyph), A[j]? = some (Anon.single m) ∧ ∀ p ∈ pairs, m.lookup p.1 = some p.2

def MultiHolds (A : List Anon) (j : Nat) (t : Glyph) (rs : List Glyph) : Prop :=
  ∃ m : List (Glyph × List Glyph), A[j]? = some (Anon.multiple m) ∧ m.lookup t = some rs

def LigHolds (A : List Anon) (j : Nat) (seqs : List (List Glyph)) (r : Glyph) : Prop :=
  ∃ m : LigMap, A[j]? = some (Anon.ligature m) ∧ ∀ f rest, f :: rest ∈ seqs → (rest, r) ∈ (m.lookup f).getD []

/-- every sequence of an anonymous ligature lookup comes from the set `S` -/
def LigContent (A : List Anon) (S : List (List Glyph × Glyph)) : Prop :=
  ∀ (j : Nat) (m : LigMap), A[j]? = some (Anon.ligature m) → ∀ f rest x, (rest, x) ∈ (m.lookup f).getD [] → (f :: rest, x) ∈ S

def PairsFunctional (pairs : List (Glyph × Glyph)) : Prop :=
  ∀ p ∈ pairs, ∀ q ∈ pairs, p.1 = q.1 → p.2 = q.2

/-- folding `mapInsert` over functional pairs: every pair is found -/
theorem lookup_foldl_functional (pairs : List (Glyph × Glyph)) (hf : PairsFunctional pairs) (m : List (Glyph × Glyph)) :
    ∀ p ∈ pairs, (pairs.foldl (fun m (p : Glyph × Glyph) => mapInsert p.1 p.2 m) m).lookup p.1 = some p.2 := by
  induction pairs generalizing m with
  | nil => intro p hp; simp at hp
  | cons q pairs ih =>
    intro p hp
    simp only [List.foldl_cons]
    have hf' : PairsFunctional pairs := fun a ha b hb => hf a (by simp [ha]) b (by simp [hb])
    by_cases hin : p ∈ pairs
    · exact ih hf' _ p hin
    · have hpq : p = q := by
        rcases List.mem_cons.mp hp with h | h
        · exact h
        · exact absurd h hin
      subst hpq
      -- p is not in the tail, but its key may be, with the same value
      by_cases hk : ∃ q' ∈ pairs, q'.1 = p.1
      · obtain ⟨q', hq', hkey⟩ := hk
        have := ih hf' (mapInsert p.1 p.2 m) q' hq'
        rw [hkey] at this
        rw [this, hf q' (by simp [hq']) p (by simp) hkey]
      · have hnotin : p.1 ∉ pairs.map (·.1) := by
          intro hm
          obtain ⟨q', hq', e⟩ := List.mem_map.mp hm
          exact hk ⟨q', hq', e⟩
        -- later inserts do not touch the key
        have : ∀ (m' : List (Glyph × Glyph)), (pairs.foldl (fun m (p : Glyph × Glyph) => mapInsert p.1 p.2 m) m').lookup p.1 = m'.lookup p.1 := by
          clear ih hf hf' hp hin hk
          induction pairs with
          | nil => intro m'; rfl
          | cons r pairs ih2 =>
            intro m'
            simp only [List.map_cons, List.mem_cons, not_or] at hnotin
            simp only [List.foldl_cons]
            rw [ih2 hnotin.2, lookup_mapInsert]
            simp [hnotin.1]
        rw [this, lookup_mapInsert]
        simp

/-- keys not among the inserted pairs keep their value -/
theorem lookup_foldl_other (pairs : List (Glyph × Glyph)) (m : List (Glyph × Glyph)) (a : Glyph)
    (h : a ∉ pairs.map (·.1)) :
    (pairs.foldl (fun m (p : Glyph × Glyph) => mapInsert p.1 p.2 m) m).lookup a = m.lookup a := by
  induction pairs generalizing m with
  | nil => rfl
  | cons r pairs ih =>
    simp only [List.map_cons, List.mem_cons, not_or] at h
    simp only [List.foldl_cons]
    rw [ih _ h.2, lookup_mapInsert]
    simp [h.1]

/-! ### inline single substitution -/

def checkedPairs (fx : Fixes) (t r : GC) : List (Glyph × Glyph) :=
  if fx.anonSingle then singlePairs t r else t.glyphs.zip r.glyphs

def singleUsable (fx : Fixes) (t r : GC) (a : Anon) : Bool :=
  match a with
  | .single m => (checkedPairs fx t r).all fun (a, b) => match m.lookup a with | some x => x == b | none => true
  | _ => false

def singleUpd (t r : GC) (a : Anon) : Anon :=
  match a with
  | .single m => .single ((singlePairs t r).foldl (fun m (a, b) => mapInsert a b m) m)
  | a => a

theorem anonAddSingle_eq (fx : Fixes) (an : List Anon) (t r : GC) :
    anonAddSingle fx an t r =
      (modifyNth (singleUpd t r) (findOrCreate an (singleUsable fx t r) (.single [])).1
          (findOrCreate an (singleUsable fx t r) (.single [])).2,
        (findOrCreate an (singleUsable fx t r) (.single [])).2) := rfl

theorem foldl_pair_fn (pairs : List (Glyph × Glyph)) (m : List (Glyph × Glyph)) :
    pairs.foldl (fun m (x : Glyph × Glyph) => match x with | (a, b) => mapInsert a b m) m
      = pairs.foldl (fun m (p : Glyph × Glyph) => mapInsert p.1 p.2 m) m := rfl

/-- the rule's own pairs are in the lookup it is given -/
theorem anonAddSingle_holds (fx : Fixes) (an : List Anon) (t r : GC) (hf : PairsFunctional (singlePairs t r)) :
    SingleHolds (anonAddSingle fx an t r).1 (anonAddSingle fx an t r).2 (singlePairs t r) := by
  rw [anonAddSingle_eq]
  simp only [SingleHolds, getElem?_modifyNth, ↓reduceIte]
  rcases findOrCreate_spec an (singleUsable fx t r) (.single []) with ⟨h1, a, ha, hu⟩ | ⟨h1, h2, _⟩
  · rw [h1, ha]
    cases a with
    | single m =>
      refine ⟨_, rfl, ?_⟩
      rw [foldl_pair_fn]
      exact lookup_foldl_functional _ hf m
    | multiple m => simp [singleUsable] at hu
    | ligature m => simp [singleUsable] at hu
  · rw [h1, h2]
    simp only [List.getElem?_append_right (Nat.le_refl _), Nat.sub_self, List.getElem?_cons_zero, Option.map_some, singleUpd]
    refine ⟨_, rfl, ?_⟩
    rw [foldl_pair_fn]
    exact lookup_foldl_functional _ hf []

/-- entries of the list before the step are still there (possibly updated in place) -/
theorem anonAddSingle_get (fx : Fixes) (an : List Anon) (t r : GC) (j : Nat) (a : Anon) (h : an[j]? = some a) :
    (anonAddSingle fx an t r).1[j]? =
      some (if j = (anonAddSingle fx an t r).2 then singleUpd t r a else a) := by
  rw [anonAddSingle_eq]
  simp only [getElem?_modifyNth]
  have hlt : j < an.length := (List.getElem?_eq_some_iff.mp h).1
  rcases findOrCreate_spec an (singleUsable fx t r) (.single []) with ⟨h1, _⟩ | ⟨h1, h2, _⟩
  · rw [h1, h]; split <;> simp
  · rw [h1, h2, List.getElem?_append_left hlt, h]
    have : j ≠ an.length := Nat.ne_of_lt hlt
    simp [this]

/-- an earlier rule's pairs survive the step, if the new pairs that share a key with them were
    checked or agree with them -/
theorem anonAddSingle_preserves (fx : Fixes) (an : List Anon) (t r : GC) (j : Nat) (pairs' : List (Glyph × Glyph))
    (hf : PairsFunctional (singlePairs t r))
    (h : SingleHolds an j pairs')
    (hc : ∀ p ∈ singlePairs t r, ∀ q ∈ pairs', p.1 = q.1 → p ∈ checkedPairs fx t r ∨ p.2 = q.2) :
    SingleHolds (anonAddSingle fx an t r).1 j pairs' := by
  obtain ⟨m, hm, hall⟩ := h
  have hget := anonAddSingle_get fx an t r j _ hm
  by_cases hj : j = (anonAddSingle fx an t r).2
  · -- the same lookup was chosen: it was usable
    rw [if_pos hj] at hget
    refine ⟨_, hget, ?_⟩
    have husable : singleUsable fx t r (.single m) = true := by
      rw [anonAddSingle_eq] at hj
      simp only at hj
      rcases findOrCreate_spec an (singleUsable fx t r) (.single []) with ⟨_, a, ha, hu⟩ | ⟨_, h2, _⟩
      · rw [← hj, hm] at ha; cases ha; exact hu
      · rw [h2] at hj
        exact absurd (List.getElem?_eq_some_iff.mp hm).1 (by omega)
    intro q hq
    rw [foldl_pair_fn]
    by_cases hk : q.1 ∈ (singlePairs t r).map (·.1)
    · obtain ⟨p, hp, hpk⟩ := List.mem_map.mp hk
      have h1 := lookup_foldl_functional _ hf m p hp
      rw [hpk] at h1
      rw [h1]
      rcases hc p hp q hq hpk with hch | heq
      · simp only [singleUsable, List.all_eq_true] at husable
        have := husable p hch
        simp only [hpk, hall q hq, beq_iff_eq] at this
        rw [this]
      · rw [heq]
    · rw [lookup_foldl_other _ _ _ hk]
      exact hall q hq
  · rw [if_neg hj] at hget
    exact ⟨m, hget, hall⟩

/-! ### generic shape of the three adders -/

def addAnon (usable : Anon → Bool) (fresh : Anon) (upd : Anon → Anon) (an : List Anon) : List Anon × Nat :=
  (modifyNth upd (findOrCreate an usable fresh).1 (findOrCreate an usable fresh).2, (findOrCreate an usable fresh).2)

theorem addAnon_unfold (usable : Anon → Bool) (fresh : Anon) (upd : Anon → Anon) (an : List Anon) :
    ∃ an1 i, addAnon usable fresh upd an = (modifyNth upd an1 i, i) ∧
      ((an1 = an ∧ ∃ a, an[i]? = some a ∧ usable a = true) ∨
       (an1 = an ++ [fresh] ∧ i = an.length ∧ ∀ a ∈ an, usable a = false)) :=
  ⟨_, _, rfl, findOrCreate_spec an usable fresh⟩

theorem addAnon_get (usable : Anon → Bool) (fresh : Anon) (upd : Anon → Anon) (an : List Anon) (j : Nat) (a : Anon)
    (h : an[j]? = some a) :
    (j = (addAnon usable fresh upd an).2 → (addAnon usable fresh upd an).1[j]? = some (upd a)) ∧
    (j ≠ (addAnon usable fresh upd an).2 → (addAnon usable fresh upd an).1[j]? = some a) := by
  obtain ⟨an1, i, he, spec⟩ := addAnon_unfold usable fresh upd an
  rw [he]
  simp only [getElem?_modifyNth]
  have hlt : j < an.length := (List.getElem?_eq_some_iff.mp h).1
  rcases spec with ⟨h1, _⟩ | ⟨h1, h2, _⟩
  · subst h1; rw [h]
    exact ⟨fun e => by simp [e], fun e => by simp [e]⟩
  · subst h1 h2
    rw [List.getElem?_append_left hlt, h]
    exact ⟨fun e => by simp [e], fun e => by simp [e]⟩

/-- every entry after the step is an old entry (updated if it was chosen) or the updated fresh one -/
theorem addAnon_from (usable : Anon → Bool) (fresh : Anon) (upd : Anon → Anon) (an : List Anon) (j : Nat) (a : Anon)
    (h : (addAnon usable fresh upd an).1[j]? = some a) :
    (∃ a0, an[j]? = some a0 ∧ (a = a0 ∨ (j = (addAnon usable fresh upd an).2 ∧ a = upd a0))) ∨
    (an[j]? = none ∧ j = (addAnon usable fresh upd an).2 ∧ a = upd fresh ∧ ∀ x ∈ an, usable x = false) := by
  obtain ⟨an1, i, he, spec⟩ := addAnon_unfold usable fresh upd an
  rw [he] at h ⊢
  simp only [getElem?_modifyNth] at h ⊢
  rcases spec with ⟨h1, _⟩ | ⟨h1, h2, h3⟩
  · subst h1
    left
    cases hq : an1[j]? with
    | none => simp [hq] at h
    | some a0 =>
      refine ⟨a0, rfl, ?_⟩
      rw [hq] at h
      by_cases hj : j = i
      · simp [hj] at h; exact Or.inr ⟨hj, h.symm⟩
      · simp [hj] at h; exact Or.inl h.symm
  · subst h1 h2
    by_cases hlt : j < an.length
    · left
      rw [List.getElem?_append_left hlt] at h
      have hne : j ≠ an.length := Nat.ne_of_lt hlt
      simp only [hne, ↓reduceIte] at h
      exact ⟨a, h, Or.inl rfl⟩
    · right
      have hge : an.length ≤ j := Nat.le_of_not_lt hlt
      rw [List.getElem?_append_right hge] at h
      have hj : j = an.length := by
        cases hd : j - an.length with
        | zero => omega
        | succ k => rw [hd] at h; split at h <;> simp at h
      subst hj
      simp at h
      exact ⟨by simp, rfl, h.symm, h3⟩

theorem addAnon_chosen (usable : Anon → Bool) (fresh : Anon) (upd : Anon → Anon) (an : List Anon) :
    (∃ a, an[(addAnon usable fresh upd an).2]? = some a ∧ usable a = true) ∨
    ((addAnon usable fresh upd an).2 = an.length ∧ ∀ x ∈ an, usable x = false) := by
  obtain ⟨an1, i, he, spec⟩ := addAnon_unfold usable fresh upd an
  rw [he]
  rcases spec with ⟨_, a, ha, hu⟩ | ⟨_, h2, h3⟩
  · exact Or.inl ⟨a, ha, hu⟩
  · exact Or.inr ⟨h2, h3⟩

theorem addAnon_self (usable : Anon → Bool) (fresh : Anon) (upd : Anon → Anon) (an : List Anon) :
    ∃ a0, (a0 = fresh ∨ (an[(addAnon usable fresh upd an).2]? = some a0 ∧ usable a0 = true)) ∧
      (addAnon usable fresh upd an).1[(addAnon usable fresh upd an).2]? = some (upd a0) := by
  obtain ⟨an1, i, he, spec⟩ := addAnon_unfold usable fresh upd an
  rw [he]
  simp only [getElem?_modifyNth, ↓reduceIte]
  rcases spec with ⟨h1, a, ha, hu⟩ | ⟨h1, h2, _⟩
  · subst h1; exact ⟨a, Or.inr ⟨ha, hu⟩, by rw [ha]; rfl⟩
  · subst h1 h2; exact ⟨fresh, Or.inl rfl, by simp⟩

theorem anonAddSingle_eq' (fx : Fixes) (an : List Anon) (t r : GC) :
    anonAddSingle fx an t r = addAnon (singleUsable fx t r) (.single []) (singleUpd t r) an := rfl

def multiUsable (t : Glyph) (rs : List Glyph) (a : Anon) : Bool :=
  match a with
  | .multiple m => (match m.lookup t with | some x => x == rs | none => true)
  | _ => false

def multiUpd (t : Glyph) (rs : List Glyph) (a : Anon) : Anon :=
  match a with
  | .multiple m => .multiple (mapInsert t rs m)
  | a => a

theorem anonAddMultiple_eq' (an : List Anon) (t : Glyph) (rs : List Glyph) :
    anonAddMultiple an t rs = addAnon (multiUsable t rs) (.multiple []) (multiUpd t rs) an := rfl

def ligUsableA (fx : Fixes) (seq : List Glyph) (r : Glyph) (a : Anon) : Bool :=
  match a with
  | .ligature m => ligUsable fx m seq r
  | _ => false

def ligUpd (seq : List Glyph) (r : Glyph) (a : Anon) : Anon :=
  match a with
  | .ligature m => .ligature (ligInsert m seq r)
  | a => a

theorem anonAddLigature_eq' (fx : Fixes) (an : List Anon) (seq : List Glyph) (r : Glyph) :
    anonAddLigature fx an seq r = addAnon (ligUsableA fx seq r) (.ligature []) (ligUpd seq r) an := rfl

def ligsUsableA (fx : Fixes) (seqs : List (List Glyph)) (r : Glyph) (a : Anon) : Bool :=
  match a with
  | .ligature m => seqs.all fun seq => ligUsable fx m seq r
  | _ => false

def ligsUpd (seqs : List (List Glyph)) (r : Glyph) (a : Anon) : Anon :=
  match a with
  | .ligature m => .ligature (seqs.foldl (fun m seq => ligInsert m seq r) m)
  | a => a

theorem anonAddLigatures_eq' (fx : Fixes) (an : List Anon) (seqs : List (List Glyph)) (r : Glyph) :
    anonAddLigatures fx an seqs r = addAnon (ligsUsableA fx seqs r) (.ligature []) (ligsUpd seqs r) an := rfl

end Fontc.FeaCompile
