/-
  The two merge passes of `overlay_feature_variations` (`merge_same_sub_rules`, `merge_same_region_rules`):
  what they preserve.
-/
import FontcProofs.FeatVarsFinal

namespace Fontc.FeatVars

/-! ### substitution maps -/

theorem subsGet_nil (g : Nat) : subsGet [] g = none := rfl

theorem subsGet_cons (k v : Nat) (m : Subs) (g : Nat) :
    subsGet ((k, v) :: m) g = if k = g then some v else subsGet m g := by
  unfold subsGet
  rw [List.find?_cons]
  by_cases h : k = g
  · have : ((k, v).1 == g) = true := by simpa using h
    rw [this]; simp [h]
  · have : ((k, v).1 == g) = false := by simpa using h
    rw [this]; simp [h]

theorem subsGet_subsInsert (k v : Nat) (m : Subs) (g : Nat) :
    subsGet (subsInsert k v m) g = if g = k then some v else subsGet m g := by
  induction m with
  | nil => rw [subsInsert, subsGet_cons, subsGet_nil]; by_cases h : g = k <;> grind
  | cons e m ih =>
    obtain ⟨k', v'⟩ := e
    simp only [subsInsert]
    split
    · rw [subsGet_cons]; by_cases h : g = k <;> grind
    · split
      · rename_i _ heq
        subst heq
        rw [subsGet_cons, subsGet_cons]; by_cases h : g = k <;> grind
      · rename_i hnlt hne
        rw [subsGet_cons, subsGet_cons, ih]
        by_cases h : g = k
        · subst h; simp [Ne.symm hne]
        · simp [h]

/-- `BTreeMap::extend`: a key of `new` gets (one of) its new value(s), any other key keeps its old value -/
theorem subsGet_subsExtend (old new : Subs) (g : Nat) :
    (∀ x, subsGet (subsExtend old new) g = some x → subsGet old g = some x ∨ (g, x) ∈ new) ∧
    ((subsGet old g).isSome = true ∨ (∃ x, (g, x) ∈ new) → (subsGet (subsExtend old new) g).isSome = true) := by
  unfold subsExtend
  induction new generalizing old with
  | nil => simp
  | cons e new ih =>
    obtain ⟨k, v⟩ := e
    simp only [List.foldl_cons]
    obtain ⟨h1, h2⟩ := ih (subsInsert k v old)
    constructor
    · intro x hx
      rcases h1 x hx with h | h
      · rw [subsGet_subsInsert] at h
        split at h
        · rename_i hg; subst hg; cases h; exact Or.inr (by simp)
        · exact Or.inl h
      · exact Or.inr (List.mem_cons_of_mem _ h)
    · intro h
      apply h2
      rcases h with h | ⟨x, hx⟩
      · left; rw [subsGet_subsInsert]; split <;> simp [h]
      · rcases List.mem_cons.1 hx with hx | hx
        · cases hx; left; rw [subsGet_subsInsert]; simp
        · exact Or.inr ⟨x, hx⟩

/-- keys are unique (a map) -/
def SubsUniq (s : Subs) : Prop := s.Pairwise fun a b => a.1 ≠ b.1

theorem mem_of_subsGet {s : Subs} {g x : Nat} (h : subsGet s g = some x) : (g, x) ∈ s := by
  unfold subsGet at h
  cases hf : s.find? (fun e => e.1 == g) with
  | none => simp [hf] at h
  | some e =>
    simp [hf] at h
    have hm := List.mem_of_find?_eq_some hf
    have hk := List.find?_some hf
    have : e.1 = g := by simpa using hk
    obtain ⟨a, b⟩ := e
    simp at this h; subst this; subst h; exact hm

theorem subsGet_of_mem {s : Subs} (hu : SubsUniq s) {g x : Nat} (h : (g, x) ∈ s) : subsGet s g = some x := by
  induction s with
  | nil => simp at h
  | cons e s ih =>
    obtain ⟨k, v⟩ := e
    rw [SubsUniq, List.pairwise_cons] at hu
    rw [subsGet_cons]
    rcases List.mem_cons.1 h with h | h
    · cases h; simp
    · have hne : k ≠ g := hu.1 _ h
      simp [hne, ih hu.2 h]

/-! ### region normalisation -/

/-- the point lies in the normalized cube -/
def InCube (p : Point) : Prop := ∀ x ∈ p, -1 ≤ x ∧ x ≤ 1

theorem contains_cleanupBox (b : NBox) (p : Point) (hp : InCube p) :
    contains (cleanupBox b) p = contains b p := by
  induction b generalizing p with
  | nil => simp [cleanupBox, contains]
  | cons e b ih =>
    cases p with
    | nil => cases e with
      | none => simp [cleanupBox, contains]
      | some r => obtain ⟨lo, hi⟩ := r; simp only [cleanupBox, List.map_cons]; split <;> simp [contains]
    | cons x p =>
      have hp' : InCube p := fun y hy => hp y (List.mem_cons_of_mem _ hy)
      have hx := hp x (by simp)
      have ih' := ih p hp'
      simp only [cleanupBox] at ih' ⊢
      cases e with
      | none => simp [contains, ih']
      | some r =>
        obtain ⟨lo, hi⟩ := r
        simp only [List.map_cons]
        split
        · rename_i h; simp only [contains, ih']; obtain ⟨rfl, rfl⟩ := h; simp [hx.1, hx.2]
        · simp [contains, ih']

theorem length_cleanupBox (b : NBox) : (cleanupBox b).length = b.length := by simp [cleanupBox]

theorem cleanupBox_ok {b : NBox} (h : BoxOk b) : BoxOk (cleanupBox b) := by
  intro lo hi hm
  simp only [cleanupBox, List.mem_map] at hm
  obtain ⟨e, he, heq⟩ := hm
  cases e with
  | none => simp at heq
  | some r =>
    obtain ⟨lo', hi'⟩ := r
    simp only at heq
    split at heq
    · cases heq
    · cases heq; exact h _ _ he

theorem cleanupBox_getElem {b : NBox} {k : Nat} {lo hi : Rat}
    (h : (cleanupBox b)[k]? = some (some (lo, hi))) : b[k]? = some (some (lo, hi)) := by
  simp only [cleanupBox, List.getElem?_map] at h
  cases hb : b[k]? with
  | none => simp [hb] at h
  | some e =>
    simp only [hb, Option.map_some, Option.some.injEq] at h
    cases e with
    | none => simp at h
    | some r =>
      obtain ⟨lo', hi'⟩ := r
      simp only at h
      split at h
      · cases h
      · cases h; rfl

theorem mem_normalizeRegion {r : Region} {c : NBox} : c ∈ normalizeRegion r ↔ ∃ b ∈ r, c = cleanupBox b := by
  simp [normalizeRegion, mem_insSort, eq_comm]

theorem regionContains_normalize (r : Region) (p : Point) (hp : InCube p) :
    regionContains (normalizeRegion r) p = regionContains r p := by
  unfold regionContains
  rw [Bool.eq_iff_iff, List.any_eq_true, List.any_eq_true]
  constructor
  · rintro ⟨c, hc, hcp⟩
    obtain ⟨b, hb, rfl⟩ := mem_normalizeRegion.1 hc
    exact ⟨b, hb, by rwa [contains_cleanupBox b p hp] at hcp⟩
  · rintro ⟨b, hb, hbp⟩
    exact ⟨cleanupBox b, mem_normalizeRegion.2 ⟨b, hb, rfl⟩, by rwa [contains_cleanupBox b p hp]⟩

theorem normalizeRegion_ne_nil {r : Region} (h : r ≠ []) : normalizeRegion r ≠ [] := by
  cases r with
  | nil => exact absurd rfl h
  | cons b r =>
    intro hn
    have : cleanupBox b ∈ normalizeRegion (b :: r) := mem_normalizeRegion.2 ⟨b, by simp, rfl⟩
    rw [hn] at this; simp at this

/-! ### the effective map of a conflict-free rule list -/

/-- some rule active at `p` substitutes `g` by `x` -/
def ActiveHas (rules : List Rule) (p : Point) (g x : Nat) : Prop :=
  ∃ r ∈ rules, regionContains r.1 p = true ∧ subsGet r.2 g = some x

/-- rules that are active together never substitute the same glyph differently -/
def NoConflict (rules : List Rule) (p : Point) : Prop :=
  ∀ g x y, ActiveHas rules p g x → ActiveHas rules p g y → x = y

theorem effective_iff {rules : List Rule} {p : Point} (hnc : NoConflict rules p) (g x : Nat) :
    effective (activeSubs rules p) g = some x ↔ ActiveHas rules p g x := by
  unfold effective activeSubs
  constructor
  · intro h
    obtain ⟨m, hm, hx⟩ := List.exists_of_findSome?_eq_some h
    obtain ⟨r, hr, rfl⟩ := List.mem_map.1 hm
    have := List.mem_filter.1 hr
    exact ⟨r, this.1, by simpa using this.2, hx⟩
  · rintro ⟨r, hr, hact, hx⟩
    have hmem : r.2 ∈ List.map (fun r => r.2) (List.filter (fun r => regionContains r.1 p) rules) :=
      List.mem_map.2 ⟨r, List.mem_filter.2 ⟨hr, by simpa using hact⟩, rfl⟩
    cases hf : List.findSome? (fun m => subsGet m g) (List.map (fun r => r.2) (List.filter (fun r => regionContains r.1 p) rules)) with
    | none =>
      have := List.findSome?_eq_none_iff.1 hf _ hmem
      rw [hx] at this; cases this
    | some y =>
      obtain ⟨m, hm, hy⟩ := List.exists_of_findSome?_eq_some hf
      obtain ⟨r', hr', rfl⟩ := List.mem_map.1 hm
      have h' := List.mem_filter.1 hr'
      have : y = x := hnc g y x ⟨r', h'.1, by simpa using h'.2, hy⟩ ⟨r, hr, hact, hx⟩
      rw [this]

/-- two rule lists with the same `ActiveHas` relation (one of them conflict free) have the same effective map -/
theorem effective_congr {rs rs' : List Rule} {p : Point} (hnc : NoConflict rs p)
    (h : ∀ g x, ActiveHas rs' p g x ↔ ActiveHas rs p g x) (g : Nat) :
    effective (activeSubs rs' p) g = effective (activeSubs rs p) g := by
  have hnc' : NoConflict rs' p := fun g x y hx hy => hnc g x y ((h g x).1 hx) ((h g y).1 hy)
  cases h1 : effective (activeSubs rs p) g with
  | some x => exact (effective_iff hnc' g x).2 ((h g x).2 ((effective_iff hnc g x).1 h1))
  | none =>
    cases h2 : effective (activeSubs rs' p) g with
    | none => rfl
    | some y =>
      have := (effective_iff hnc g y).2 ((h g y).1 ((effective_iff hnc' g y).1 h2))
      rw [h1] at this; cases this

/-! ### the two grouping folds -/

/-- invariant of the grouping fold of `merge_same_sub_rules` -/
def SubMergeInv (m : List (Subs × Region)) (done : List Rule) : Prop :=
  (∀ e ∈ m, ∀ c ∈ e.2, ∃ r ∈ done, r.2 = e.1 ∧ c ∈ r.1) ∧
  (∀ r ∈ done, ∃ reg, (r.2, reg) ∈ m ∧ ∀ c ∈ r.1, c ∈ reg) ∧
  (∀ e ∈ m, e.2 ≠ [])

theorem subMerge_step {m : List (Subs × Region)} {done : List Rule} (r : Rule) (hne : r.1 ≠ [])
    (h : SubMergeInv m done) :
    SubMergeInv (imUpsert r.2 r.1 (fun old => old ++ r.1) m) (done ++ [r]) := by
  obtain ⟨h1, h2, h3⟩ := h
  refine ⟨?_, ?_, ?_⟩
  · intro e he c hc
    rcases mem_imUpsert he with he | ⟨hk, hv⟩
    · obtain ⟨r', hr', e1, e2⟩ := h1 e he c hc
      exact ⟨r', List.mem_append_left _ hr', e1, e2⟩
    · rcases hv with hv | ⟨old, ho, hv⟩
      · rw [hv] at hc; exact ⟨r, by simp, hk.symm, hc⟩
      · rw [hv] at hc
        rcases List.mem_append.1 hc with hc | hc
        · obtain ⟨r', hr', e1, e2⟩ := h1 _ ho c hc
          exact ⟨r', List.mem_append_left _ hr', by rw [e1, hk], e2⟩
        · exact ⟨r, by simp, hk.symm, hc⟩
  · intro r' hr'
    rcases List.mem_append.1 hr' with hr' | hr'
    · obtain ⟨reg, hreg, hsub⟩ := h2 r' hr'
      rcases imUpsert_keeps (k := r.2) (ins := r.1) (upd := fun old => old ++ r.1) hreg with hk | ⟨hk1, hk2⟩
      · exact ⟨reg, hk, hsub⟩
      · refine ⟨reg ++ r.1, ?_, fun c hc => List.mem_append_left _ (hsub c hc)⟩
        have : r'.2 = r.2 := hk1
        rw [this]; exact hk2
    · have : r' = r := by simpa using hr'
      subst this
      obtain ⟨v, hv, hcase⟩ := imUpsert_has (k := r'.2) (ins := r'.1) (upd := fun old => old ++ r'.1) (m := m)
      refine ⟨v, hv, ?_⟩
      rcases hcase with rfl | ⟨old, _, rfl⟩
      · exact fun c hc => hc
      · exact fun c hc => List.mem_append_right _ hc
  · intro e he
    rcases mem_imUpsert he with he | ⟨_, hv⟩
    · exact h3 e he
    · rcases hv with hv | ⟨old, _, hv⟩
      · rw [hv]; exact hne
      · rw [hv]; intro hnil; exact hne (List.append_eq_nil_iff.1 hnil).2

theorem subMerge_fold (rules : List Rule) (hne : ∀ r ∈ rules, r.1 ≠ []) :
    ∀ (m : List (Subs × Region)) (done : List Rule), SubMergeInv m done →
      SubMergeInv (rules.foldl (fun m (x : Rule) => imUpsert x.2 x.1 (fun r => r ++ x.1) m) m) (done ++ rules) := by
  induction rules with
  | nil => intro m done h; simpa using h
  | cons r rules ih =>
    intro m done h
    simp only [List.foldl_cons]
    have := ih (fun r' hr' => hne r' (List.mem_cons_of_mem _ hr')) _ _ (subMerge_step r (hne r (by simp)) h)
    simpa using this

theorem mergeSameSubRules_eq (rules : List Rule) :
    mergeSameSubRules rules =
      (rules.foldl (fun m (x : Rule) => imUpsert x.2 x.1 (fun r => r ++ x.1) m) []).map fun e => (e.2, e.1) := by
  unfold mergeSameSubRules
  have : (fun (m : List (Subs × Region)) (x : Region × Subs) =>
        match x with | (region, subs) => imUpsert subs region (fun r => r ++ region) m) =
      fun m (x : Rule) => imUpsert x.2 x.1 (fun r => r ++ x.1) m := by
    funext m x; cases x; rfl
  simp only [this]

/-- `merge_same_sub_rules`: every merged rule is the union of the regions of the source rules with that map,
    and every source rule is covered -/
theorem mergeSameSubRules_spec (rules : List Rule) (hne : ∀ r ∈ rules, r.1 ≠ []) :
    (∀ r' ∈ mergeSameSubRules rules, r'.1 ≠ [] ∧ ∀ c ∈ r'.1, ∃ r ∈ rules, r.2 = r'.2 ∧ c ∈ r.1) ∧
    (∀ r ∈ rules, ∃ r' ∈ mergeSameSubRules rules, r'.2 = r.2 ∧ ∀ c ∈ r.1, c ∈ r'.1) := by
  have h := subMerge_fold rules hne [] [] ⟨by simp, by simp, by simp⟩
  simp only [List.nil_append] at h
  obtain ⟨h1, h2, h3⟩ := h
  rw [mergeSameSubRules_eq]
  constructor
  · intro r' hr'
    obtain ⟨e, he, rfl⟩ := List.mem_map.1 hr'
    exact ⟨h3 e he, fun c hc => h1 e he c hc⟩
  · intro r hr
    obtain ⟨reg, hreg, hsub⟩ := h2 r hr
    exact ⟨(reg, r.2), List.mem_map.2 ⟨(r.2, reg), hreg, rfl⟩, rfl, hsub⟩

/-- invariant of the grouping fold of `merge_same_region_rules` -/
def RegMergeInv (m : List (Region × Subs)) (done : List Rule) : Prop :=
  (∀ e ∈ m, ∀ g x, subsGet e.2 g = some x → ∃ r ∈ done, normalizeRegion r.1 = e.1 ∧ subsGet r.2 g = some x) ∧
  (∀ r ∈ done, ∃ s, (normalizeRegion r.1, s) ∈ m ∧ ∀ g, (subsGet r.2 g).isSome = true → (subsGet s g).isSome = true) ∧
  (∀ e ∈ m, ∃ r ∈ done, normalizeRegion r.1 = e.1)

theorem regMerge_step {m : List (Region × Subs)} {done : List Rule} (r : Rule) (hu : SubsUniq r.2)
    (h : RegMergeInv m done) :
    RegMergeInv (imUpsert (normalizeRegion r.1) r.2 (fun old => subsExtend old r.2) m) (done ++ [r]) := by
  obtain ⟨h1, h2, h3⟩ := h
  refine ⟨?_, ?_, ?_⟩
  · intro e he g x hx
    rcases mem_imUpsert he with he | ⟨hk, hv⟩
    · obtain ⟨r', hr', e1, e2⟩ := h1 e he g x hx
      exact ⟨r', List.mem_append_left _ hr', e1, e2⟩
    · rcases hv with hv | ⟨old, ho, hv⟩
      · rw [hv] at hx; exact ⟨r, by simp, hk.symm, hx⟩
      · rw [hv] at hx
        rcases (subsGet_subsExtend old r.2 g).1 x hx with hx | hx
        · obtain ⟨r', hr', e1, e2⟩ := h1 _ ho g x hx
          exact ⟨r', List.mem_append_left _ hr', by rw [e1, hk], e2⟩
        · exact ⟨r, by simp, hk.symm, subsGet_of_mem hu hx⟩
  · intro r' hr'
    rcases List.mem_append.1 hr' with hr' | hr'
    · obtain ⟨s, hs, hsome⟩ := h2 r' hr'
      rcases imUpsert_keeps (k := normalizeRegion r.1) (ins := r.2) (upd := fun old => subsExtend old r.2) hs with hk | ⟨hk1, hk2⟩
      · exact ⟨s, hk, hsome⟩
      · refine ⟨subsExtend s r.2, ?_, fun g hg => (subsGet_subsExtend s r.2 g).2 (Or.inl (hsome g hg))⟩
        have : normalizeRegion r'.1 = normalizeRegion r.1 := hk1
        rw [this]; exact hk2
    · have : r' = r := by simpa using hr'
      subst this
      obtain ⟨v, hv, hcase⟩ := imUpsert_has (k := normalizeRegion r'.1) (ins := r'.2)
        (upd := fun old => subsExtend old r'.2) (m := m)
      refine ⟨v, hv, ?_⟩
      rcases hcase with rfl | ⟨old, _, rfl⟩
      · exact fun g hg => hg
      · intro g hg
        apply (subsGet_subsExtend old r'.2 g).2
        right
        cases hx : subsGet r'.2 g with
        | none => rw [hx] at hg; cases hg
        | some x => exact ⟨x, mem_of_subsGet hx⟩
  · intro e he
    rcases mem_imUpsert he with he | ⟨hk, _⟩
    · obtain ⟨r', hr', e1⟩ := h3 e he
      exact ⟨r', List.mem_append_left _ hr', e1⟩
    · exact ⟨r, by simp, hk.symm⟩

theorem regMerge_fold (rules : List Rule) (hu : ∀ r ∈ rules, SubsUniq r.2) :
    ∀ (m : List (Region × Subs)) (done : List Rule), RegMergeInv m done →
      RegMergeInv (rules.foldl (fun m (x : Rule) => imUpsert (normalizeRegion x.1) x.2 (fun old => subsExtend old x.2) m) m)
        (done ++ rules) := by
  induction rules with
  | nil => intro m done h; simpa using h
  | cons r rules ih =>
    intro m done h
    simp only [List.foldl_cons]
    have := ih (fun r' hr' => hu r' (List.mem_cons_of_mem _ hr')) _ _ (regMerge_step r (hu r (by simp)) h)
    simpa using this

theorem mergeSameRegionRules_eq (rules : List Rule) :
    mergeSameRegionRules rules =
      (rules.reverse.foldl (fun m (x : Rule) => imUpsert (normalizeRegion x.1) x.2 (fun old => subsExtend old x.2) m) []).reverse := by
  unfold mergeSameRegionRules
  simp only []

/-- `merge_same_region_rules`: every merged rule has the (normalised) region of some source rule and only
    substitutions of source rules with that region; every source rule is covered -/
theorem mergeSameRegionRules_spec (rules : List Rule) (hu : ∀ r ∈ rules, SubsUniq r.2) :
    (∀ r' ∈ mergeSameRegionRules rules,
        (∃ r ∈ rules, normalizeRegion r.1 = r'.1) ∧
        ∀ g x, subsGet r'.2 g = some x → ∃ r ∈ rules, normalizeRegion r.1 = r'.1 ∧ subsGet r.2 g = some x) ∧
    (∀ r ∈ rules, ∃ r' ∈ mergeSameRegionRules rules, r'.1 = normalizeRegion r.1 ∧
        ∀ g, (subsGet r.2 g).isSome = true → (subsGet r'.2 g).isSome = true) := by
  have h := regMerge_fold rules.reverse (fun r hr => hu r (List.mem_reverse.1 hr)) [] [] ⟨by simp, by simp, by simp⟩
  simp only [List.nil_append] at h
  obtain ⟨h1, h2, h3⟩ := h
  rw [mergeSameRegionRules_eq]
  constructor
  · intro r' hr'
    have hr' := List.mem_reverse.1 hr'
    constructor
    · obtain ⟨r, hr, e⟩ := h3 r' hr'
      exact ⟨r, List.mem_reverse.1 hr, e⟩
    · intro g x hx
      obtain ⟨r, hr, e1, e2⟩ := h1 r' hr' g x hx
      exact ⟨r, List.mem_reverse.1 hr, e1, e2⟩
  · intro r hr
    obtain ⟨s, hs, hsome⟩ := h2 r (List.mem_reverse.2 hr)
    exact ⟨(normalizeRegion r.1, s), List.mem_reverse.2 hs, rfl, hsome⟩

end Fontc.FeatVars
