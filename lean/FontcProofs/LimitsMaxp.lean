/-
  Helper lemmas for C17: MaxBuilder, update_composite_limits vs. the recursive specification.
-/
import FontcModel.Limits

namespace Fontc.Limits

/-! ### MaxBuilder.update fold -/

def infoOfShape : Shape → GlyphInfo
  | .simple cs => ⟨some ⟨(cs.map List.length).sum, cs.length, 0⟩, none⟩
  | .composite comps => ⟨none, some (comps.map (·.gid))⟩
  | .empty => ⟨some {}, none⟩

theorem foldl_update_glyphInfo (gs : List Glyph) (b : MaxBuilder) :
    (gs.foldl MaxBuilder.update b).glyphInfo = b.glyphInfo ++ gs.map (fun g => infoOfShape g.shape) := by
  induction gs generalizing b with
  | nil => simp
  | cons g gs ih =>
    simp only [List.foldl_cons, ih, List.map_cons]
    unfold MaxBuilder.update
    cases g.shape <;> simp [infoOfShape]

theorem maxBuilderOf_glyphInfo (gs : List Glyph) :
    (maxBuilderOf gs).glyphInfo = gs.map (fun g => infoOfShape g.shape) := by
  simp [maxBuilderOf, foldl_update_glyphInfo]

def simplePoints : Shape → Nat
  | .simple cs => (cs.map List.length).sum
  | _ => 0
def simpleContours : Shape → Nat
  | .simple cs => cs.length
  | _ => 0
def componentCount : Shape → Nat
  | .composite comps => comps.length
  | _ => 0

theorem foldl_update_maxPoints (gs : List Glyph) (b : MaxBuilder) :
    (gs.foldl MaxBuilder.update b).maxPoints = (gs.map (fun g => simplePoints g.shape)).foldl max b.maxPoints := by
  induction gs generalizing b with
  | nil => simp
  | cons g gs ih =>
    simp only [List.foldl_cons, ih, List.map_cons]
    unfold MaxBuilder.update
    cases g.shape <;> simp [simplePoints]

theorem foldl_update_maxContours (gs : List Glyph) (b : MaxBuilder) :
    (gs.foldl MaxBuilder.update b).maxContours = (gs.map (fun g => simpleContours g.shape)).foldl max b.maxContours := by
  induction gs generalizing b with
  | nil => simp
  | cons g gs ih =>
    simp only [List.foldl_cons, ih, List.map_cons]
    unfold MaxBuilder.update
    cases g.shape <;> simp [simpleContours]

theorem foldl_update_maxComponentElements (gs : List Glyph) (b : MaxBuilder) :
    (gs.foldl MaxBuilder.update b).maxComponentElements =
      (gs.map (fun g => componentCount g.shape)).foldl max b.maxComponentElements := by
  induction gs generalizing b with
  | nil => simp
  | cons g gs ih =>
    simp only [List.foldl_cons, ih, List.map_cons]
    unfold MaxBuilder.update
    cases g.shape <;> simp [componentCount]

theorem foldl_update_bbox (gs : List Glyph) (b : MaxBuilder) :
    (gs.foldl MaxBuilder.update b).bbox = (gs.filterMap (·.bbox)).foldl optUnion b.bbox := by
  induction gs generalizing b with
  | nil => simp
  | cons g gs ih =>
    simp only [List.foldl_cons, ih]
    unfold MaxBuilder.update
    cases hb : g.bbox <;> cases g.shape <;> simp [hb]

/-! ### the specification: fuel irrelevance and unfolding -/

def specLimits (g : List Shape) (fuel gid : Nat) : Limits :=
  ⟨specPoints g fuel gid, specContours g fuel gid, specDepth g fuel gid⟩

theorem isComposite_iff (g : List Shape) (gid : Nat) :
    isComposite g gid = true ↔ ∃ comps, g[gid]? = some (.composite comps) := by
  unfold isComposite
  cases h : g[gid]? with
  | none => simp
  | some sh => cases sh <;> simp

theorem specPoints_fuel {g : List Shape} {rank : Nat → Nat} (hA : Acyclic g rank) :
    ∀ f1 f2 gid, rank gid < f1 → rank gid < f2 → specPoints g f1 gid = specPoints g f2 gid := by
  intro f1
  induction f1 with
  | zero => intro f2 gid h; omega
  | succ a ih =>
    intro f2 gid h1 h2
    cases f2 with
    | zero => omega
    | succ b =>
      unfold specPoints
      cases hg : g[gid]? with
      | none => rfl
      | some sh =>
        cases sh with
        | empty => rfl
        | simple cs => rfl
        | composite comps =>
          simp only
          congr 1
          apply List.map_congr_left
          intro c hc
          have := hA.dec gid comps hg c hc
          exact ih b c.gid (by omega) (by omega)

theorem specContours_fuel {g : List Shape} {rank : Nat → Nat} (hA : Acyclic g rank) :
    ∀ f1 f2 gid, rank gid < f1 → rank gid < f2 → specContours g f1 gid = specContours g f2 gid := by
  intro f1
  induction f1 with
  | zero => intro f2 gid h; omega
  | succ a ih =>
    intro f2 gid h1 h2
    cases f2 with
    | zero => omega
    | succ b =>
      unfold specContours
      cases hg : g[gid]? with
      | none => rfl
      | some sh =>
        cases sh with
        | empty => rfl
        | simple cs => rfl
        | composite comps =>
          simp only
          congr 1
          apply List.map_congr_left
          intro c hc
          have := hA.dec gid comps hg c hc
          exact ih b c.gid (by omega) (by omega)

theorem specDepth_fuel {g : List Shape} {rank : Nat → Nat} (hA : Acyclic g rank) :
    ∀ f1 f2 gid, rank gid < f1 → rank gid < f2 → specDepth g f1 gid = specDepth g f2 gid := by
  intro f1
  induction f1 with
  | zero => intro f2 gid h; omega
  | succ a ih =>
    intro f2 gid h1 h2
    cases f2 with
    | zero => omega
    | succ b =>
      unfold specDepth
      cases hg : g[gid]? with
      | none => rfl
      | some sh =>
        cases sh with
        | empty => rfl
        | simple cs => rfl
        | composite comps =>
          simp only
          congr 1
          apply List.map_congr_left
          intro c hc
          have := hA.dec gid comps hg c hc
          rw [ih b c.gid (by omega) (by omega)]

/-- the specification's recursion equation at a fixed, sufficient fuel -/
theorem specLimits_composite {g : List Shape} {rank : Nat → Nat} (hA : Acyclic g rank) (fuel gid : Nat)
    (comps : List Component) (hg : g[gid]? = some (.composite comps)) (hf : rank gid < fuel) :
    specLimits g fuel gid =
      ⟨(comps.map fun c => (specLimits g fuel c.gid).maxPoints).sum,
       (comps.map fun c => (specLimits g fuel c.gid).maxContours).sum,
       listMax (comps.map fun c => (specLimits g fuel c.gid).maxDepth + 1)⟩ := by
  cases fuel with
  | zero => omega
  | succ f =>
    have hc : ∀ c ∈ comps, rank c.gid < f := fun c hc => by
      have := hA.dec gid comps hg c hc; omega
    unfold specLimits
    simp only [Limits.mk.injEq]
    refine ⟨?_, ?_, ?_⟩
    · rw [specPoints, hg]; simp only
      congr 1; apply List.map_congr_left; intro c hcm
      exact specPoints_fuel hA f (f+1) c.gid (hc c hcm) (by have := hc c hcm; omega)
    · rw [specContours, hg]; simp only
      congr 1; apply List.map_congr_left; intro c hcm
      exact specContours_fuel hA f (f+1) c.gid (hc c hcm) (by have := hc c hcm; omega)
    · rw [specDepth, hg]; simp only
      congr 1; apply List.map_congr_left; intro c hcm
      rw [specDepth_fuel hA f (f+1) c.gid (hc c hcm) (by have := hc c hcm; omega)]

theorem foldl_accLimits (xs : List Limits) (acc : Limits) :
    xs.foldl accLimits acc =
      ⟨acc.maxPoints + (xs.map (·.maxPoints)).sum, acc.maxContours + (xs.map (·.maxContours)).sum,
       max acc.maxDepth (listMax (xs.map (·.maxDepth + 1)))⟩ := by
  induction xs generalizing acc with
  | nil => simp [listMax]
  | cons x xs ih =>
    simp only [List.foldl_cons, ih, accLimits, List.map_cons, List.sum_cons, listMax, List.foldr_cons,
      Limits.mk.injEq]
    refine ⟨by omega, by omega, by omega⟩

/-! ### the worklist invariant -/

def Limits.le (a b : Limits) : Prop :=
  a.maxPoints ≤ b.maxPoints ∧ a.maxContours ≤ b.maxContours ∧ a.maxDepth ≤ b.maxDepth

/-- each field of `ov` is 0 or the value of some composite glyph -/
def Attained (g : List Shape) (S : Nat → Limits) (ov : Limits) : Prop :=
  (ov.maxPoints = 0 ∨ ∃ gid, gid < g.length ∧ isComposite g gid = true ∧ (S gid).maxPoints = ov.maxPoints) ∧
  (ov.maxContours = 0 ∨ ∃ gid, gid < g.length ∧ isComposite g gid = true ∧ (S gid).maxContours = ov.maxContours) ∧
  (ov.maxDepth = 0 ∨ ∃ gid, gid < g.length ∧ isComposite g gid = true ∧ (S gid).maxDepth = ov.maxDepth)

structure Inv (g : List Shape) (S : Nat → Limits) (info : List GlyphInfo) (ov : Limits) : Prop where
  len : info.length = g.length
  comps : ∀ (gid : Nat) (gi : GlyphInfo), info[gid]? = some gi →
    ∃ sh, g[gid]? = some sh ∧ gi.components = (infoOfShape sh).components
  sound : ∀ (gid : Nat) (gi : GlyphInfo) (l : Limits), info[gid]? = some gi → gi.limits = some l → l = S gid
  unknownComposite : ∀ (gid : Nat) (gi : GlyphInfo), info[gid]? = some gi → gi.limits = none →
    isComposite g gid = true
  counted : ∀ (gid : Nat) (gi : GlyphInfo), info[gid]? = some gi → isComposite g gid = true →
    gi.limits.isSome = true → Limits.le (S gid) ov
  attained : Attained g S ov

theorem getElem?_of_lt {α} (l : List α) (i : Nat) (h : i < l.length) : ∃ x, l[i]? = some x :=
  ⟨l[i], by simp [h]⟩

/-- what the `retain` closure computes for a pending composite -/
theorem stepGlyph_spec {g : List Shape} {rank : Nat → Nat} (hA : Acyclic g rank) (fuel : Nat)
    (hfuel : ∀ gid, gid < g.length → rank gid < fuel)
    {info : List GlyphInfo} {ov : Limits} (hI : Inv g (specLimits g fuel) info ov)
    (gid : Nat) (comps : List Component) (hg : g[gid]? = some (.composite comps)) :
    (stepGlyph info gid = some none ∧ ∃ c ∈ comps, ∃ gi, info[c.gid]? = some gi ∧ gi.limits = none)
    ∨ stepGlyph info gid = some (some (specLimits g fuel gid)) := by
  have hlt : gid < g.length := by
    have := (List.getElem?_eq_some_iff.1 hg).1; exact this
  obtain ⟨gi, hgi⟩ := getElem?_of_lt info gid (by rw [hI.len]; exact hlt)
  obtain ⟨sh, hsh, hcomp⟩ := hI.comps gid gi hgi
  rw [hg] at hsh
  cases hsh
  simp only [infoOfShape] at hcomp
  have hclosed := hA.closed gid comps hg
  have hany : (comps.map (·.gid)).any (fun c => (info[c]?).isNone) = false := by
    simp only [List.any_eq_false, List.mem_map]
    rintro c ⟨c', hc', rfl⟩
    obtain ⟨x, hx⟩ := getElem?_of_lt info c'.gid (by rw [hI.len]; exact hclosed c' hc')
    simp [hx]
  unfold stepGlyph
  simp only [hgi, hcomp, hany, Bool.false_eq_true, if_false]
  by_cases hall : ((comps.map (·.gid)).map fun c => (info[c]?).bind (·.limits)).all Option.isSome = true
  · right
    simp only [hall, if_true]
    have hls : ((comps.map (·.gid)).map fun c => (info[c]?).bind (·.limits)) =
        (comps.map (·.gid)).map (fun c => some (specLimits g fuel c)) := by
      apply List.map_congr_left
      intro c hc
      have hs := (List.all_eq_true.1 hall) _ (List.mem_map.2 ⟨c, hc, rfl⟩)
      obtain ⟨c', hc', rfl⟩ := List.mem_map.1 hc
      obtain ⟨x, hx⟩ := getElem?_of_lt info c'.gid (by rw [hI.len]; exact hclosed c' hc')
      rw [hx] at hs ⊢
      simp only [Option.bind_some] at hs ⊢
      cases hl : x.limits with
      | none => simp [hl] at hs
      | some l => rw [hI.sound c'.gid x l hx hl]
    rw [hls]
    have hfm : ((comps.map (·.gid)).map (fun c => some (specLimits g fuel c))).filterMap id =
        comps.map (fun c => specLimits g fuel c.gid) := by
      simp [List.filterMap_map, Function.comp_def]
    rw [hfm, foldl_accLimits, specLimits_composite hA fuel gid comps hg (hfuel gid hlt)]
    simp [List.map_map, Function.comp_def]
  · left
    simp only [hall, Bool.false_eq_true, if_false, true_and]
    have hall' : ((comps.map (·.gid)).map fun c => (info[c]?).bind (·.limits)).all Option.isSome = false := by
      simpa using hall
    obtain ⟨o, ho, hno⟩ := List.all_eq_false.1 hall'
    obtain ⟨c, hc, rfl⟩ := List.mem_map.1 ho
    obtain ⟨c', hc', rfl⟩ := List.mem_map.1 hc
    obtain ⟨x, hx⟩ := getElem?_of_lt info c'.gid (by rw [hI.len]; exact hclosed c' hc')
    refine ⟨c', hc', x, hx, ?_⟩
    rw [hx] at hno
    simpa using hno

theorem setLimits_getElem? (info : List GlyphInfo) (gid : Nat) (gi : GlyphInfo) (l : Limits)
    (h : info[gid]? = some gi) (j : Nat) :
    (setLimits info gid l)[j]? = if gid = j then some { gi with limits := some l } else info[j]? := by
  unfold setLimits
  rw [h]
  simp only [List.getElem?_set]
  by_cases hj : gid = j
  · subst hj
    have : gid < info.length := (List.getElem?_eq_some_iff.1 h).1
    simp [this]
  · simp [hj]

theorem setLimits_length (info : List GlyphInfo) (gid : Nat) (l : Limits) :
    (setLimits info gid l).length = info.length := by
  unfold setLimits
  cases info[gid]? <;> simp

theorem Limits.le_max_left (a b : Limits) : Limits.le a (a.max b) := by
  unfold Limits.le Limits.max; simp only; omega
theorem Limits.le_max_right (a b : Limits) : Limits.le b (a.max b) := by
  unfold Limits.le Limits.max; simp only; omega
theorem Limits.le_trans {a b c : Limits} (h1 : Limits.le a b) (h2 : Limits.le b c) : Limits.le a c := by
  unfold Limits.le at *; omega

theorem Inv_setLimits {g : List Shape} {S : Nat → Limits} {info : List GlyphInfo} {ov : Limits}
    (hI : Inv g S info ov) (gid : Nat) (gi : GlyphInfo) (hgi : info[gid]? = some gi)
    (hc : isComposite g gid = true) :
    Inv g S (setLimits info gid (S gid)) (ov.max (S gid)) := by
  have hlt : gid < g.length := by
    have := (List.getElem?_eq_some_iff.1 hgi).1; rw [hI.len] at this; exact this
  refine ⟨?_, ?_, ?_, ?_, ?_, ?_⟩
  · rw [setLimits_length]; exact hI.len
  · intro j gj hj
    rw [setLimits_getElem? info gid gi _ hgi] at hj
    by_cases h : gid = j
    · subst h
      simp only [if_true, Option.some.injEq] at hj
      subst hj
      exact hI.comps gid gi hgi
    · simp only [h, if_false] at hj
      exact hI.comps j gj hj
  · intro j gj l hj hl
    rw [setLimits_getElem? info gid gi _ hgi] at hj
    by_cases h : gid = j
    · subst h
      simp only [if_true, Option.some.injEq] at hj
      subst hj
      simp only [Option.some.injEq] at hl
      exact hl.symm
    · simp only [h, if_false] at hj
      exact hI.sound j gj l hj hl
  · intro j gj hj hl
    rw [setLimits_getElem? info gid gi _ hgi] at hj
    by_cases h : gid = j
    · subst h
      simp only [if_true, Option.some.injEq] at hj
      subst hj
      simp at hl
    · simp only [h, if_false] at hj
      exact hI.unknownComposite j gj hj hl
  · intro j gj hj hcj hs
    rw [setLimits_getElem? info gid gi _ hgi] at hj
    by_cases h : gid = j
    · subst h
      exact Limits.le_max_right _ _
    · simp only [h, if_false] at hj
      exact Limits.le_trans (hI.counted j gj hj hcj hs) (Limits.le_max_left _ _)
  · obtain ⟨h1, h2, h3⟩ := hI.attained
    unfold Attained Limits.max
    simp only
    refine ⟨?_, ?_, ?_⟩
    · by_cases hm : (S gid).maxPoints ≤ ov.maxPoints
      · rw [Nat.max_eq_left hm]; exact h1
      · right; exact ⟨gid, hlt, hc, by omega⟩
    · by_cases hm : (S gid).maxContours ≤ ov.maxContours
      · rw [Nat.max_eq_left hm]; exact h2
      · right; exact ⟨gid, hlt, hc, by omega⟩
    · by_cases hm : (S gid).maxDepth ≤ ov.maxDepth
      · rw [Nat.max_eq_left hm]; exact h3
      · right; exact ⟨gid, hlt, hc, by omega⟩

/-- one `retain` sweep -/
theorem sweep_spec {g : List Shape} {rank : Nat → Nat} (hA : Acyclic g rank) (fuel : Nat)
    (hfuel : ∀ gid, gid < g.length → rank gid < fuel) (ps : List Nat) :
    ∀ (info : List GlyphInfo) (ov : Limits), Inv g (specLimits g fuel) info ov →
    (∀ gid ∈ ps, isComposite g gid = true) →
    ∃ info' ov' kept, sweep info ov ps = some (info', ov', kept) ∧ Inv g (specLimits g fuel) info' ov' ∧
      kept.Sublist ps ∧
      (∀ (j : Nat) (gi : GlyphInfo), info[j]? = some gi → gi.limits.isSome = true →
          ∃ gi', info'[j]? = some gi' ∧ gi'.limits.isSome = true) ∧
      (∀ gid ∈ ps, gid ∉ kept → ∃ gi', info'[gid]? = some gi' ∧ gi'.limits.isSome = true) ∧
      (∀ gid ∈ kept, ∃ comps, g[gid]? = some (.composite comps) ∧
          ∃ c ∈ comps, ∃ gi, info[c.gid]? = some gi ∧ gi.limits = none) := by
  induction ps with
  | nil =>
    intro info ov hI _
    exact ⟨info, ov, [], rfl, hI, List.Sublist.refl _, fun j gi h1 h2 => ⟨gi, h1, h2⟩, by simp, by simp⟩
  | cons gid rest ih =>
    intro info ov hI hps
    have hcg : isComposite g gid = true := hps gid List.mem_cons_self
    obtain ⟨comps, hg⟩ := (isComposite_iff g gid).1 hcg
    have hrest : ∀ x ∈ rest, isComposite g x = true := fun x hx => hps x (List.mem_cons_of_mem _ hx)
    have hlt : gid < g.length := (List.getElem?_eq_some_iff.1 hg).1
    obtain ⟨gi0, hgi0⟩ := getElem?_of_lt info gid (by rw [hI.len]; exact hlt)
    rcases stepGlyph_spec hA fuel hfuel hI gid comps hg with ⟨hstep, c, hc, gic, hgic, hnone⟩ | hstep
    · -- stays pending
      obtain ⟨info', ov', kept, hs, hI', hsub, hmono, hdone, hkept⟩ := ih info ov hI hrest
      refine ⟨info', ov', gid :: kept, ?_, hI', hsub.cons_cons gid, hmono, ?_, ?_⟩
      · simp only [sweep, hstep, hs]
      · intro x hx hxk
        rcases List.mem_cons.1 hx with rfl | hx
        · exact absurd List.mem_cons_self hxk
        · exact hdone x hx (fun h => hxk (List.mem_cons_of_mem _ h))
      · intro x hx
        rcases List.mem_cons.1 hx with rfl | hx
        · exact ⟨comps, hg, c, hc, gic, hgic, hnone⟩
        · exact hkept x hx
    · -- resolved
      have hI1 := Inv_setLimits hI gid gi0 hgi0 hcg
      obtain ⟨info', ov', kept, hs, hI', hsub, hmono, hdone, hkept⟩ :=
        ih (setLimits info gid (specLimits g fuel gid)) (ov.max (specLimits g fuel gid)) hI1 hrest
      have hmono1 : ∀ (j : Nat) (gi : GlyphInfo), info[j]? = some gi → gi.limits.isSome = true →
          ∃ gi', (setLimits info gid (specLimits g fuel gid))[j]? = some gi' ∧ gi'.limits.isSome = true := by
        intro j gj hj hsome
        rw [setLimits_getElem? info gid gi0 _ hgi0]
        by_cases h : gid = j
        · simp [h]
        · simp only [h, if_false]; exact ⟨gj, hj, hsome⟩
      refine ⟨info', ov', kept, ?_, hI', hsub.cons gid, ?_, ?_, ?_⟩
      · simp only [sweep, hstep, hs]
      · intro j gj hj hsome
        obtain ⟨g1, h1, h1s⟩ := hmono1 j gj hj hsome
        exact hmono j g1 h1 h1s
      · intro x hx hxk
        by_cases hxg : x = gid
        · subst hxg
          have : ∃ gi', (setLimits info x (specLimits g fuel x))[x]? = some gi' ∧ gi'.limits.isSome = true := by
            rw [setLimits_getElem? info x gi0 _ hgi0]; simp
          obtain ⟨g1, h1, h1s⟩ := this
          exact hmono x g1 h1 h1s
        · rcases List.mem_cons.1 hx with h | hx
          · exact absurd h hxg
          · exact hdone x hx hxk
      · intro x hx
        obtain ⟨cs, hgx, c, hc, gic, hgic, hnone⟩ := hkept x hx
        refine ⟨cs, hgx, c, hc, ?_⟩
        rw [setLimits_getElem? info gid gi0 _ hgi0] at hgic
        by_cases h : gid = c.gid
        · simp only [h, if_true, Option.some.injEq] at hgic
          subst hgic
          simp at hnone
        · simp only [h, if_false] at hgic
          exact ⟨gic, hgic, hnone⟩

theorem exists_min_rank (rank : Nat → Nat) (ps : List Nat) (h : ps ≠ []) :
    ∃ x ∈ ps, ∀ y ∈ ps, rank x ≤ rank y := by
  induction ps with
  | nil => exact absurd rfl h
  | cons a rest ih =>
    by_cases hr : rest = []
    · subst hr; exact ⟨a, List.mem_cons_self, by simp⟩
    · obtain ⟨x, hx, hmin⟩ := ih hr
      by_cases hax : rank a ≤ rank x
      · refine ⟨a, List.mem_cons_self, ?_⟩
        intro y hy
        rcases List.mem_cons.1 hy with rfl | hy
        · omega
        · have := hmin y hy; omega
      · refine ⟨x, List.mem_cons_of_mem _ hx, ?_⟩
        intro y hy
        rcases List.mem_cons.1 hy with rfl | hy
        · omega
        · exact hmin y hy

theorem sublist_length_lt {α} {kept ps : List α} (hs : kept.Sublist ps) (x : α) (hx : x ∈ ps) (hk : x ∉ kept) :
    kept.length < ps.length := by
  have hle := hs.length_le
  by_cases heq : kept.length = ps.length
  · have := hs.eq_of_length heq
    subst this
    exact absurd hx hk
  · omega

/-- what the loop delivers: an upper bound of every composite's limits, each field attained (or 0) -/
def Final (g : List Shape) (S : Nat → Limits) (l : Limits) : Prop :=
  (∀ gid, gid < g.length → isComposite g gid = true → Limits.le (S gid) l) ∧ Attained g S l

theorem loop_spec {g : List Shape} {rank : Nat → Nat} (hA : Acyclic g rank) (fuel : Nat)
    (hfuel : ∀ gid, gid < g.length → rank gid < fuel) :
    ∀ (k : Nat) (pending : List Nat), pending.length = k →
    ∀ (info : List GlyphInfo) (ov : Limits), Inv g (specLimits g fuel) info ov →
    (∀ gid ∈ pending, isComposite g gid = true) →
    (∀ (j : Nat) (gi : GlyphInfo), info[j]? = some gi → gi.limits = none → j ∈ pending) →
    ∃ l, compositeLoop info ov pending = some l ∧ Final g (specLimits g fuel) l := by
  intro k
  induction k using Nat.strongRecOn with
  | _ k ih =>
    intro pending hk info ov hI hvalid hunk
    by_cases hne : pending = []
    · subst hne
      refine ⟨ov, by rw [compositeLoop]; simp, ?_, hI.attained⟩
      intro gid hlt hc
      obtain ⟨gi, hgi⟩ := getElem?_of_lt info gid (by rw [hI.len]; exact hlt)
      cases hl : gi.limits with
      | none => exact absurd (hunk gid gi hgi hl) (by simp)
      | some l => exact hI.counted gid gi hgi hc (by simp [hl])
    · obtain ⟨info', ov', kept, hs, hI', hsub, hmono, hdone, hkept⟩ := sweep_spec hA fuel hfuel pending info ov hI hvalid
      obtain ⟨x, hx, hmin⟩ := exists_min_rank rank pending hne
      have hxk : x ∉ kept := by
        intro hxk
        obtain ⟨comps, hgx, c, hc, gic, hgic, hnone⟩ := hkept x hxk
        have hcp := hunk c.gid gic hgic hnone
        have h1 := hmin c.gid hcp
        have h2 := hA.dec x comps hgx c hc
        omega
      have hlt : kept.length < pending.length := sublist_length_lt hsub x hx hxk
      have hvalid' : ∀ gid ∈ kept, isComposite g gid = true := fun gid h => hvalid gid (hsub.subset h)
      have hunk' : ∀ j gi, info'[j]? = some gi → gi.limits = none → j ∈ kept := by
        intro j gj hj hnone
        have hjl : j < info.length := by
          have := (List.getElem?_eq_some_iff.1 hj).1
          rw [hI'.len] at this; rw [hI.len]; exact this
        obtain ⟨g0, hg0⟩ := getElem?_of_lt info j hjl
        cases hl0 : g0.limits with
        | some l0 =>
          obtain ⟨g1, h1, h1s⟩ := hmono j g0 hg0 (by simp [hl0])
          rw [hj] at h1; cases h1
          simp [hnone] at h1s
        | none =>
          have hjp := hunk j g0 hg0 hl0
          by_cases hjk : j ∈ kept
          · exact hjk
          · obtain ⟨g1, h1, h1s⟩ := hdone j hjp hjk
            rw [hj] at h1; cases h1
            simp [hnone] at h1s
      obtain ⟨l, hl, hfin⟩ := ih kept.length (by omega) kept rfl info' ov' hI' hvalid' hunk'
      refine ⟨l, ?_, hfin⟩
      rw [compositeLoop]
      simp only [hne, dite_false]
      split
      · rename_i heq; rw [hs] at heq; cases heq
      · rename_i i2 o2 k2 heq
        rw [hs] at heq
        cases heq
        simp only [hlt, dite_true]
        exact hl

/-! ### the range-checked loop (code as of 944e88e) refines the unbounded one when nothing overflows -/

def Limits.fits (l : Limits) : Prop := l.maxPoints ≤ 65535 ∧ l.maxContours ≤ 65535 ∧ l.maxDepth ≤ 65535

theorem foldl_accLimits_ge (xs : List Limits) (acc : Limits) :
    Limits.le acc (xs.foldl accLimits acc) := by
  rw [foldl_accLimits]; unfold Limits.le; simp only; omega

theorem foldl_accLimitsC_eq (xs : List Limits) (acc : Limits) (flag : Bool)
    (h : Limits.fits (xs.foldl accLimits acc)) :
    xs.foldl accLimitsC (acc, flag) = (xs.foldl accLimits acc, flag) := by
  induction xs generalizing acc with
  | nil => rfl
  | cons x xs ih =>
    simp only [List.foldl_cons] at h ⊢
    have hge := foldl_accLimits_ge xs (accLimits acc x)
    unfold Limits.le at hge
    unfold Limits.fits at h
    have hstep : accLimitsC (acc, flag) x = (accLimits acc x, flag) := by
      have e1 : (accLimits acc x).maxPoints = acc.maxPoints + x.maxPoints := rfl
      have e2 : (accLimits acc x).maxContours = acc.maxContours + x.maxContours := rfl
      have e3 : (accLimits acc x).maxDepth = max acc.maxDepth (x.maxDepth + 1) := rfl
      rw [e1, e2, e3] at hge
      unfold accLimitsC accLimits
      simp only [Prod.mk.injEq, Limits.mk.injEq]
      have h1 : acc.maxPoints + x.maxPoints ≤ 65535 := by omega
      have h2 : acc.maxContours + x.maxContours ≤ 65535 := by omega
      have h3 : x.maxDepth + 1 ≤ 65535 := by omega
      refine ⟨⟨Nat.min_eq_left h1, Nat.min_eq_left h2, by rw [Nat.min_eq_left h3]⟩, ?_⟩
      have d1 : decide (65535 < acc.maxPoints + x.maxPoints) = false := decide_eq_false (by omega)
      have d2 : decide (65535 < acc.maxContours + x.maxContours) = false := decide_eq_false (by omega)
      rw [d1, d2]; simp
    rw [hstep]
    exact ih _ h

theorem stepGlyphC_sim (info : List GlyphInfo) (flag : Bool) (gid : Nat) :
    (stepGlyph info gid = none → stepGlyphC info flag gid = none) ∧
    (stepGlyph info gid = some none → stepGlyphC info flag gid = some none) ∧
    (∀ l, stepGlyph info gid = some (some l) → Limits.fits l → stepGlyphC info flag gid = some (some (l, flag))) := by
  unfold stepGlyph stepGlyphC
  cases info[gid]? with
  | none => simp
  | some gi =>
    simp only
    cases gi.components with
    | none => simp
    | some comps =>
      simp only
      by_cases hany : comps.any (fun c => (info[c]?).isNone) = true
      · simp [hany]
      · simp only [hany, Bool.false_eq_true, if_false]
        by_cases hall : (comps.map fun c => (info[c]?).bind (·.limits)).all Option.isSome = true
        · simp only [hall, if_true]
          refine ⟨by simp, by simp, ?_⟩
          intro l hl hfit
          simp only [Option.some.injEq] at hl
          subst hl
          rw [foldl_accLimitsC_eq _ _ _ hfit]
        · simp [hall]

/-- no composite's resolved totals leave the u16 range -/
def Bounded (g : List Shape) (fuel : Nat) : Prop :=
  ∀ gid, gid < g.length → isComposite g gid = true → Limits.fits (specLimits g fuel gid)

theorem sweepC_sim {g : List Shape} {rank : Nat → Nat} (hA : Acyclic g rank) (fuel : Nat)
    (hfuel : ∀ gid, gid < g.length → rank gid < fuel) (hB : Bounded g fuel) (flag : Bool) (ps : List Nat) :
    ∀ (info : List GlyphInfo) (ov : Limits), Inv g (specLimits g fuel) info ov →
    (∀ gid ∈ ps, isComposite g gid = true) →
    sweepC info ov flag ps = (sweep info ov ps).map (fun r => (r.1, r.2.1, flag, r.2.2)) := by
  induction ps with
  | nil => intro info ov _ _; rfl
  | cons gid rest ih =>
    intro info ov hI hps
    have hcg : isComposite g gid = true := hps gid List.mem_cons_self
    obtain ⟨comps, hg⟩ := (isComposite_iff g gid).1 hcg
    have hrest : ∀ x ∈ rest, isComposite g x = true := fun x hx => hps x (List.mem_cons_of_mem _ hx)
    have hlt : gid < g.length := (List.getElem?_eq_some_iff.1 hg).1
    obtain ⟨gi0, hgi0⟩ := getElem?_of_lt info gid (by rw [hI.len]; exact hlt)
    obtain ⟨_, hsn, hss⟩ := stepGlyphC_sim info flag gid
    rcases stepGlyph_spec hA fuel hfuel hI gid comps hg with ⟨hstep, _⟩ | hstep
    · simp only [sweep, sweepC, hstep, hsn hstep, ih info ov hI hrest]
      cases sweep info ov rest <;> rfl
    · have hfit := hB gid hlt hcg
      simp only [sweep, sweepC, hstep, hss _ hstep hfit]
      exact ih _ _ (Inv_setLimits hI gid gi0 hgi0 hcg) hrest

theorem compositeLoop_step {info : List GlyphInfo} {ov : Limits} {pending : List Nat} (hne : pending ≠ [])
    {info' : List GlyphInfo} {ov' : Limits} {kept : List Nat} (hs : sweep info ov pending = some (info', ov', kept)) :
    compositeLoop info ov pending =
      if kept.length < pending.length then compositeLoop info' ov' kept else none := by
  rw [compositeLoop]
  simp only [hne, dite_false]
  split
  · rename_i heq; rw [hs] at heq; cases heq
  · rename_i i2 o2 k2 heq
    rw [hs] at heq; cases heq
    by_cases h : kept.length < pending.length <;> simp [h]

theorem compositeLoopC_step {info : List GlyphInfo} {ov : Limits} {flag : Bool} {pending : List Nat}
    (hne : pending ≠ []) {info' : List GlyphInfo} {ov' : Limits} {f' : Bool} {kept : List Nat}
    (hs : sweepC info ov flag pending = some (info', ov', f', kept)) :
    compositeLoopC info ov flag pending =
      if kept.length < pending.length then compositeLoopC info' ov' f' kept else none := by
  rw [compositeLoopC]
  simp only [hne, dite_false]
  split
  · rename_i heq; rw [hs] at heq; cases heq
  · rename_i i2 o2 f2 k2 heq
    rw [hs] at heq; cases heq
    by_cases h : kept.length < pending.length <;> simp [h]

theorem loopC_sim {g : List Shape} {rank : Nat → Nat} (hA : Acyclic g rank) (fuel : Nat)
    (hfuel : ∀ gid, gid < g.length → rank gid < fuel) (hB : Bounded g fuel) (flag : Bool) :
    ∀ (k : Nat) (pending : List Nat), pending.length = k →
    ∀ (info : List GlyphInfo) (ov : Limits), Inv g (specLimits g fuel) info ov →
    (∀ gid ∈ pending, isComposite g gid = true) →
    compositeLoopC info ov flag pending = (compositeLoop info ov pending).map (fun l => (l, flag)) := by
  intro k
  induction k using Nat.strongRecOn with
  | _ k ih =>
    intro pending hk info ov hI hvalid
    by_cases hne : pending = []
    · subst hne; rw [compositeLoopC, compositeLoop]; simp
    · obtain ⟨info', ov', kept, hs, hI', hsub, _, _, _⟩ := sweep_spec hA fuel hfuel pending info ov hI hvalid
      have hsC := sweepC_sim hA fuel hfuel hB flag pending info ov hI hvalid
      rw [hs] at hsC
      simp only [Option.map_some] at hsC
      rw [compositeLoop_step hne hs, compositeLoopC_step hne hsC]
      by_cases hlt : kept.length < pending.length
      · simp only [hlt, if_true]
        exact ih kept.length (by omega) kept rfl info' ov' hI' (fun gid h => hvalid gid (hsub.subset h))
      · simp [hlt]

theorem mem_compositeGids_of_shapes (gs : List Glyph) (gid : Nat) :
    gid ∈ compositeGids ((maxBuilderOf gs).glyphInfo) ↔
      (gid < gs.length ∧ isComposite (gs.map (·.shape)) gid = true) := by
  rw [maxBuilderOf_glyphInfo]
  unfold compositeGids isComposite
  simp only [List.mem_filter, List.mem_range, List.length_map, List.getElem?_map]
  constructor
  · rintro ⟨hlt, h⟩
    refine ⟨hlt, ?_⟩
    have : gs[gid]? = some gs[gid] := by simp [hlt]
    rw [this] at h ⊢
    simp only [Option.map_some] at h ⊢
    cases hs : gs[gid].shape <;> simp [hs, infoOfShape] at h ⊢
  · rintro ⟨hlt, h⟩
    refine ⟨hlt, ?_⟩
    have : gs[gid]? = some gs[gid] := by simp [hlt]
    rw [this] at h ⊢
    simp only [Option.map_some] at h ⊢
    cases hs : gs[gid].shape <;> simp [hs, infoOfShape] at h ⊢

/-- the state after the `MaxBuilder::update` fold satisfies the worklist invariant -/
theorem Inv_initial (gs : List Glyph) (rank : Nat → Nat) (fuel : Nat)
    (hfuel : ∀ gid, gid < gs.length → rank gid < fuel) :
    Inv (gs.map (·.shape)) (specLimits (gs.map (·.shape)) fuel) ((maxBuilderOf gs).glyphInfo) {} := by
  let g := gs.map (·.shape)
  show Inv g (specLimits g fuel) ((maxBuilderOf gs).glyphInfo) {}
  rw [maxBuilderOf_glyphInfo]
  have hget : ∀ (gid : Nat) (gi : GlyphInfo), (gs.map (fun x => infoOfShape x.shape))[gid]? = some gi →
      ∃ sh, g[gid]? = some sh ∧ gi = infoOfShape sh := by
    intro gid gi h
    simp only [List.getElem?_map, Option.map_eq_some_iff] at h
    obtain ⟨x, hx, rfl⟩ := h
    exact ⟨x.shape, by simp [g, hx], rfl⟩
  refine ⟨by simp [g], ?_, ?_, ?_, ?_, ?_⟩
  · intro gid gi h
    obtain ⟨sh, hsh, rfl⟩ := hget gid gi h
    exact ⟨sh, hsh, rfl⟩
  · intro gid gi l h hl
    obtain ⟨sh, hsh, rfl⟩ := hget gid gi h
    have hlt : gid < g.length := (List.getElem?_eq_some_iff.1 hsh).1
    have hf := hfuel gid (by simpa [g] using hlt)
    obtain ⟨f, rfl⟩ : ∃ f, fuel = f + 1 := ⟨fuel - 1, by omega⟩
    cases sh with
    | empty =>
      simp only [infoOfShape, Option.some.injEq] at hl
      subst hl
      simp [specLimits, specPoints, specContours, specDepth, hsh]
    | simple cs =>
      simp only [infoOfShape, Option.some.injEq] at hl
      subst hl
      simp [specLimits, specPoints, specContours, specDepth, hsh]
    | composite comps => simp [infoOfShape] at hl
  · intro gid gi h hl
    obtain ⟨sh, hsh, rfl⟩ := hget gid gi h
    cases sh with
    | empty => simp [infoOfShape] at hl
    | simple cs => simp [infoOfShape] at hl
    | composite comps => exact (isComposite_iff g gid).2 ⟨comps, hsh⟩
  · intro gid gi h hc hs
    obtain ⟨sh, hsh, rfl⟩ := hget gid gi h
    obtain ⟨comps, hcomps⟩ := (isComposite_iff g gid).1 hc
    rw [hsh] at hcomps; cases hcomps
    simp [infoOfShape] at hs
  · exact ⟨Or.inl rfl, Or.inl rfl, Or.inl rfl⟩

end Fontc.Limits
