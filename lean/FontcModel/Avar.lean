/-
  Model of fontbe/src/avar.rs (`to_segment_map`) and of the fvar axis record (fontbe/src/fvar.rs),
  plus the *specification side*: what an OpenType consumer does with fvar + avar
  (default normalisation and segment-map application), written from the OpenType spec
  (fvar "VariationAxisRecord", otvaroverview "Coordinate scales and normalization", avar "Segment maps"),
  NOT from the fontc code.
  Core Lean only (linked into the native driver).
-/
import FontcModel.Basic
import FontcModel.Plm

namespace Fontc.Avar
open Fontc Fontc.Plm

/-! ## Fixed-point conversions (font-types 0.12.5 `float_conv!`, src/fixed.rs:310-318)

  `from_f64(x) = (x * ONE + (if x.is_sign_positive() {0.5} else {-0.5})) as iN`: the cast truncates toward
  zero and saturates, so this is round-half-away-from-zero, saturating.  -/

/-- `F2Dot14::from_f64` as the raw i16. Same function as `Fontc.f2dot14Bits` (kept separate so that this
    file states the rounding it relies on; `f2dot14_eq_basic` in FontcProofs proves they coincide). -/
def f2dot14 (x : Rat) : Int :=
  let s := x * 16384
  let r : Int := if s < 0 then -((-s + 1/2).floor) else (s + 1/2).floor
  if r < -32768 then -32768 else if r > 32767 then 32767 else r

/-- `Fixed::from_f64` as the raw i32 (16.16). -/
def fixed16 (x : Rat) : Int :=
  let s := x * 65536
  let r : Int := if s < 0 then -((-s + 1/2).floor) else (s + 1/2).floor
  if r < -2147483648 then -2147483648 else if r > 2147483647 then 2147483647 else r

def f2dot14Val (b : Int) : Rat := (b : Rat) / 16384
def fixed16Val (b : Int) : Rat := (b : Rat) / 65536

/-! ## fontbe/src/avar.rs -/

/-- avar.rs:88-92: `(default normalization, actual normalization)` of every vertex of the axis converter. -/
def rawMappings (ax : Axis) : List Pt :=
  let dc := ax.defaultConverter
  ax.conv.iter.map fun (user, _, norm) => (dc.toNormalized user, norm)

/-- avar.rs:96-100: `reduce` starts from the first pair *as is*, so `min` ranges over the first
    components (default-normalised) and `max` over the second components (actual-normalised). -/
def rawMin : List Pt → Rat
  | [] => 0
  | p :: rest => listMin p.1 (rest.map (·.1))
def rawMax : List Pt → Rat
  | [] => 0
  | p :: rest => listMax p.2 (rest.map (·.2))

/-- avar.rs:96-106: `min`/`max` are computed once, then -1:-1 is inserted in front when `min != -1` and
    1:1 pushed at the back when `max != 1`. -/
def padded (m : List Pt) : List Pt :=
  let lo := rawMin m
  let hi := rawMax m
  let m1 := if lo != -1 then ((-1 : Rat), (-1 : Rat)) :: m else m
  if hi != 1 then m1 ++ [((1 : Rat), (1 : Rat))] else m1

def defaultSegmentMap : List Pt := [(-1, -1), (0, 0), (1, 1)]

/-- `to_segment_map` before the conversion to F2Dot14 (avar.rs:82-113). -/
def segmentMapExact (ax : Axis) : List Pt :=
  let m := padded (rawMappings ax)
  if m.all (fun p => p.1 == p.2) then defaultSegmentMap else m

/-- `to_segment_map` (avar.rs:82-123): raw F2Dot14 `(from, to)` pairs. `conv.iter` is never empty
    (`CoordConverter::new` inserts (0,0)), so the `unwrap` at l.100 cannot fail. -/
def segmentMap (ax : Axis) : List (Int × Int) :=
  (segmentMapExact ax).map fun p => (f2dot14 p.1, f2dot14 p.2)

/-- avar.rs:147-152 + write-fonts-0.49.2 src/tables/avar.rs:9-13 `SegmentMaps::is_identity`
    (every *quantised* from equals its to): the avar table is omitted when this holds for every axis. -/
def isIdentityMap (m : List (Int × Int)) : Bool := m.all fun p => p.1 == p.2

/-- fvar.rs:72-75: `VariationAxisRecord { min_value, default_value, max_value }` as raw 16.16. -/
def fvarRecord (ax : Axis) : Int × Int × Int := (fixed16 ax.min, fixed16 ax.default, fixed16 ax.max)

/-- fvar.rs:117-127: an instance coordinate is the instance's user coordinate for the axis
    (or the axis default when the location omits it), converted to 16.16. No clamping. -/
def fvarInstanceCoord (ax : Axis) (loc : Option Rat) : Int := fixed16 (loc.getD ax.default)

/-! ## Specification side -/

/-- Default normalisation of a user coordinate from the fvar axis record
    (OpenType "otvaroverview", *Coordinate scales and normalization*):
    clamp to [min,max]; below default `-(default - u)/(default - min)`, above `(u - default)/(max - default)`,
    at default 0. -/
def defaultNormalize (mn df mx u : Rat) : Rat :=
  let u := if u < mn then mn else if mx < u then mx else u
  if u < df then -((df - u) / (df - mn))
  else if df < u then (u - df) / (mx - df)
  else 0

/-- Scan for the segment containing `x`; `p` is the last record with `fromCoordinate < x`. -/
def avarGo (x : Rat) : Pt → List Pt → Rat
  | _, [] => x                       -- beyond the last record: the spec leaves this undefined; unchanged
  | p, q :: rest =>
    if q.1 < x then avarGo x q rest
    else p.2 + (x - p.1) * (q.2 - p.2) / (q.1 - p.1)

/-- avar segment-map application (OpenType avar, *Segment maps*): find consecutive records with
    `from[k] ≤ x ≤ from[k+1]` and interpolate linearly between `to[k]` and `to[k+1]`;
    a coordinate equal to a `fromCoordinate` maps to its `toCoordinate`; an empty map is the identity.
    Outside the first/last record (impossible for a conforming map, which contains -1 and 1) the value
    is left unchanged. -/
def avarApply (seg : List Pt) (x : Rat) : Rat :=
  match seg with
  | [] => x
  | p :: rest =>
    if p.1 < x then avarGo x p rest
    else if p.1 == x then p.2
    else x

/-- Design normalisation as the property states it: design default ↦ 0, design min ↦ -1,
    design max ↦ +1, linear in between. -/
def designNormalize (dmin ddef dmax d : Rat) : Rat :=
  if d < ddef then -((ddef - d) / (ddef - dmin))
  else if ddef < d then (d - ddef) / (dmax - ddef)
  else 0

/-- The consumer pipeline on raw table values: fvar 16.16 record → default normalisation →
    F2Dot14 → avar segment map (F2Dot14 entries). Result as a rational (not re-quantised). -/
def consumerNormalize (fvar : Int × Int × Int) (seg : List (Int × Int)) (u : Rat) : Rat :=
  let x := defaultNormalize (fixed16Val fvar.1) (fixed16Val fvar.2.1) (fixed16Val fvar.2.2) u
  let xq := f2dot14Val (f2dot14 x)
  avarApply (seg.map fun p => (f2dot14Val p.1, f2dot14Val p.2)) xq

/-- Required entries (avar spec: every segment map must contain -1:-1, 0:0, 1:1). -/
def hasRequired (seg : List Pt) : Bool :=
  seg.contains (-1, -1) && seg.contains (0, 0) && seg.contains (1, 1)

/-- from- and to-coordinates are non-decreasing along the map. -/
def monotone : List Pt → Bool
  | [] => true
  | [_] => true
  | p :: q :: rest => p.1 ≤ q.1 && p.2 ≤ q.2 && monotone (q :: rest)

/-- from-coordinates strictly increasing (what the avar spec actually demands of `fromCoordinate`). -/
def strictFrom : List Pt → Bool
  | [] => true
  | [_] => true
  | p :: q :: rest => p.1 < q.1 && strictFrom (q :: rest)

/-! ## Axis definitions as sources state them (used to phrase the theorems) -/

/-- What a source says about one axis: the user:design examples in the order listed, which of them is
    the default, and the user-space bounds. -/
structure AxisDef where
  mappings : List Pt
  defaultIdx : Nat
  min : Rat
  default : Rat
  max : Rat
  deriving Repr, Inhabited

/-- The IR axis fontc builds from it (`CoordConverter::new` may fail). -/
def AxisDef.axis? (a : AxisDef) : Option Axis :=
  match Conv.new a.mappings a.defaultIdx with
  | .ok c => some ⟨a.min, a.default, a.max, c⟩
  | .error _ => none

/-- the examples sorted the way `PiecewiseLinearMap::new` sorts them -/
def AxisDef.nodes (a : AxisDef) : List Pt := (Plm.new a.mappings).pts

/-- design coordinate of the default example -/
def AxisDef.designDefault (a : AxisDef) : Rat := ((a.mappings[a.defaultIdx]?).map (·.2)).getD 0
/-- smallest / largest design coordinate among the examples -/
def AxisDef.designMin (a : AxisDef) : Rat :=
  match a.mappings.map (·.2) with | [] => 0 | d :: ds => listMin d ds
def AxisDef.designMax (a : AxisDef) : Rat :=
  match a.mappings.map (·.2) with | [] => 0 | d :: ds => listMax d ds

/-- Well-formed axis definition: once sorted, user values strictly increase and design values do not decrease;
    the default example carries the axis default; the axis minimum/maximum are the first/last example. -/
structure AxisDef.WellFormed (a : AxisDef) : Prop where
  sorted : a.nodes.Pairwise (fun p q => p.1 < q.1 ∧ p.2 ≤ q.2)
  defaultNode : ∃ dd, a.mappings[a.defaultIdx]? = some (a.default, dd)
  minFirst : ∃ d, a.nodes.head? = some (a.min, d)
  maxLast : ∃ d, a.nodes.getLast? = some (a.max, d)

end Fontc.Avar
