/-
  Bytes — safe big-endian readers, the sfnt container checker `wellFormedSfnt`, and minimal parsers
  for the tables the whole-font oracle (`wellFormedFont`) inspects.

  Two layers:
  * over `List UInt8` (`Bytes`): encoders `be16/be32`, sequential readers `take2/take4`, the OpenType
    checksum, the table-directory parser and `wellFormedSfnt`.  These are the objects of the theorems in
    `FontcProps/C05.lean` (`wellFormedSfnt (build ts) = true` for every table list).
  * over `ByteArray` (random access): `Tbl` views and the per-table parsers used by `wellFormedFont`.
    These are *checkers* written from the OpenType spec (not from fontc's code); they are part of the
    trusted base of the e2e oracle and are cross-checked against `read-fonts` by the harness.

  Core Lean only (linked into the native driver).
-/

namespace Fontc.Bytes

abbrev Bytes := List UInt8

/-! ## Encoders / sequential readers -/

def be16 (n : Nat) : Bytes := [UInt8.ofNat (n / 256), UInt8.ofNat n]

def be32 (n : Nat) : Bytes :=
  [UInt8.ofNat (n / 16777216), UInt8.ofNat (n / 65536), UInt8.ofNat (n / 256), UInt8.ofNat n]

def word (a b c d : UInt8) : Nat :=
  a.toNat * 16777216 + b.toNat * 65536 + c.toNat * 256 + d.toNat

def take2 : Bytes → Option (Nat × Bytes)
  | a :: b :: rest => some (a.toNat * 256 + b.toNat, rest)
  | _ => none

def take4 : Bytes → Option (Nat × Bytes)
  | a :: b :: c :: d :: rest => some (word a b c d, rest)
  | _ => none

/-! ## OpenType checksum (read-fonts `compute_checksum`, tables.rs:62): big-endian u32 words, the trailing
    1–3 bytes zero-extended, wrapping sum. `sumWords` is the un-reduced sum (tail recursive). -/

def sumWords (acc : Nat) : Bytes → Nat
  | a :: b :: c :: d :: rest => sumWords (acc + word a b c d) rest
  | [a, b, c] => acc + word a b c 0
  | [a, b] => acc + word a b 0 0
  | [a] => acc + word a 0 0 0
  | [] => acc

def rawSum (bs : Bytes) : Nat := sumWords 0 bs

def checksum (bs : Bytes) : Nat := rawSum bs % 4294967296

/-! ## sfnt container -/

/-- `round4` (font_builder.rs: `(sz + 3) & !3`). -/
def pad4 (n : Nat) : Nat := (n + 3) / 4 * 4

structure Rec where
  tag : UInt32
  checksum : Nat
  offset : Nat
  length : Nat
  deriving Repr, DecidableEq, Inhabited

def headTag : UInt32 := 0x68656164
def cffTag : UInt32 := 0x43464620
def cff2Tag : UInt32 := 0x43464632
def magic : Nat := 0xB1B0AFBA

def headerLen (n : Nat) : Nat := 12 + 16 * n

/-- entrySelector, searchRange, rangeShift for `n` records of 16 bytes
    (write-fonts search_range.rs `SearchRange::compute(n, 16)`; for n = 0 the Rust float code yields (0,16,0)). -/
def searchParams (n : Nat) : Nat × Nat × Nat :=
  let es := Nat.log2 n
  let sr := 2 ^ es * 16
  (es, sr, n * 16 - sr)

/-- head.checkSumAdjustment zeroed: `data[..8] ++ 0000 ++ data[12..]`. -/
def zeroAdj (d : Bytes) : Bytes := d.take 8 ++ [0, 0, 0, 0] ++ d.drop 12

/-- The bytes a table's directory checksum is computed over: for `head` (≥ 12 bytes) the adjustment
    field reads as zero. -/
def zeroedRaw (tag : UInt32) (d : Bytes) : Bytes :=
  if tag = headTag ∧ 12 ≤ d.length then zeroAdj d else d

def parseRec (bs : Bytes) : Option (Rec × Bytes) :=
  match take4 bs with
  | none => none
  | some (t, r1) =>
    match take4 r1 with
    | none => none
    | some (c, r2) =>
      match take4 r2 with
      | none => none
      | some (o, r3) =>
        match take4 r3 with
        | none => none
        | some (l, r4) => some (⟨UInt32.ofNat t, c, o, l⟩, r4)

def parseRecs : Nat → Bytes → Option (List Rec)
  | 0, _ => some []
  | n + 1, bs =>
    match parseRec bs with
    | none => none
    | some (r, rest) =>
      match parseRecs n rest with
      | none => none
      | some rs => some (r :: rs)

structure Dir where
  version : Nat
  numTables : Nat
  searchRange : Nat
  entrySelector : Nat
  rangeShift : Nat
  recs : List Rec
  deriving Repr, DecidableEq

def parseDir (f : Bytes) : Option Dir :=
  match take4 f with
  | none => none
  | some (v, r1) =>
    match take2 r1 with
    | none => none
    | some (n, r2) =>
      match take2 r2 with
      | none => none
      | some (sr, r3) =>
        match take2 r3 with
        | none => none
        | some (es, r4) =>
          match take2 r4 with
          | none => none
          | some (rs, r5) =>
            match parseRecs n r5 with
            | none => none
            | some recs => some ⟨v, n, sr, es, rs, recs⟩

/-- bytes `[offset, offset+length)` of the file (caller checks bounds). -/
def recData (f : Bytes) (r : Rec) : Bytes := (f.drop r.offset).take r.length

/-- Per-record conditions: 4-aligned, after the directory, padded extent inside the file, checksum right
    (head: with the adjustment zeroed), padding bytes zero. -/
def recOk (f : Bytes) (n : Nat) (r : Rec) : Bool :=
  decide (r.offset % 4 = 0) && decide (headerLen n ≤ r.offset) &&
  decide (r.offset + pad4 r.length ≤ f.length) &&
  decide (r.checksum = checksum (zeroedRaw r.tag (recData f r))) &&
  ((f.drop (r.offset + r.length)).take (pad4 r.length - r.length)).all (fun b => b == 0)

/-- padded extents do not overlap -/
def disjointB (a b : Rec) : Bool :=
  decide (a.offset + pad4 a.length ≤ b.offset) || decide (b.offset + pad4 b.length ≤ a.offset)

def tagLtB (a b : Rec) : Bool := decide (a.tag.toNat < b.tag.toNat)

def pairwiseB {α} (R : α → α → Bool) : List α → Bool
  | [] => true
  | a :: l => l.all (R a) && pairwiseB R l

def hasCff (recs : List Rec) : Bool := recs.any fun r => r.tag == cffTag || r.tag == cff2Tag

/-- head present ⇒ it has the adjustment field and the whole file sums to 0xB1B0AFBA. -/
def headOk (f : Bytes) (recs : List Rec) : Bool :=
  match recs.find? (fun r => r.tag == headTag) with
  | none => true
  | some r => decide (12 ≤ r.length) && decide (checksum f = magic)

/-- The container check of C05: directory header fields, records strictly sorted by tag, every record
    aligned / in bounds / checksummed / zero padded, padded extents pairwise disjoint and tiling the file
    exactly, whole-file checksum. -/
def wellFormedSfnt (f : Bytes) : Bool :=
  match parseDir f with
  | none => false
  | some d =>
    decide (d.version = if hasCff d.recs then 0x4F54544F else 0x00010000) &&
    decide ((d.entrySelector, d.searchRange, d.rangeShift) = searchParams d.numTables) &&
    pairwiseB tagLtB d.recs &&
    d.recs.all (recOk f d.numTables) &&
    pairwiseB disjointB d.recs &&
    decide (headerLen d.numTables + (d.recs.map fun r => pad4 r.length).sum = f.length) &&
    headOk f d.recs

/-- Names of the conjuncts of `wellFormedSfnt` that fail (for diagnostics in the driver). -/
def sfntFailures (f : Bytes) : List String :=
  match parseDir f with
  | none => ["directory-unparseable"]
  | some d =>
    (if d.version = (if hasCff d.recs then 0x4F54544F else 0x00010000) then [] else ["sfnt-version"]) ++
    (if (d.entrySelector, d.searchRange, d.rangeShift) = searchParams d.numTables then [] else ["search-params"]) ++
    (if pairwiseB tagLtB d.recs then [] else ["directory-unsorted"]) ++
    (if d.recs.all (recOk f d.numTables) then [] else ["record-bad"]) ++
    (if pairwiseB disjointB d.recs then [] else ["tables-overlap"]) ++
    (if headerLen d.numTables + (d.recs.map fun r => pad4 r.length).sum = f.length then [] else ["not-compact"]) ++
    (if headOk f d.recs then [] else ["file-checksum"])

structure Table where
  tag : UInt32
  data : Bytes
  deriving Repr, DecidableEq, Inhabited

/-- Read every table back out of a font file (none when the directory does not parse or a record points
    outside the file). -/
def tablesOf (f : Bytes) : Option (List Table) :=
  match parseDir f with
  | none => none
  | some d =>
    if d.recs.all (fun r => decide (r.offset + r.length ≤ f.length)) then
      some (d.recs.map fun r => ⟨r.tag, recData f r⟩)
    else none

/-! ## Random-access table views (ByteArray) for the whole-font oracle -/

structure Tbl where
  ba : ByteArray
  off : Nat
  len : Nat
  deriving Inhabited

namespace Tbl

def u8 (t : Tbl) (i : Nat) : Option Nat :=
  if i < t.len ∧ t.off + i < t.ba.size then some (t.ba.get! (t.off + i)).toNat else none

def u16 (t : Tbl) (i : Nat) : Option Nat := do
  let a ← t.u8 i
  let b ← t.u8 (i + 1)
  pure (a * 256 + b)

def i16 (t : Tbl) (i : Nat) : Option Int := do
  let v ← t.u16 i
  pure (if v < 32768 then (v : Int) else (v : Int) - 65536)

def u32 (t : Tbl) (i : Nat) : Option Nat := do
  let a ← t.u16 i
  let b ← t.u16 (i + 2)
  pure (a * 65536 + b)

/-- sub-view `[i, i+n)`; none if it leaves the table -/
def sub (t : Tbl) (i n : Nat) : Option Tbl :=
  if i + n ≤ t.len then some ⟨t.ba, t.off + i, n⟩ else none

/-- sub-view from `i` to the end of the table -/
def from? (t : Tbl) (i : Nat) : Option Tbl :=
  if i ≤ t.len then some ⟨t.ba, t.off + i, t.len - i⟩ else none

end Tbl

def tagOf (s : String) : UInt32 :=
  match s.toList with
  | [a, b, c, d] => UInt32.ofNat (a.toNat * 16777216 + b.toNat * 65536 + c.toNat * 256 + d.toNat)
  | _ => 0

def tagStr (t : UInt32) : String :=
  let n := t.toNat
  String.ofList [Char.ofNat (n / 16777216 % 256), Char.ofNat (n / 65536 % 256), Char.ofNat (n / 256 % 256), Char.ofNat (n % 256)]

/-- A parsed font: the byte array plus its directory records. -/
structure Font where
  ba : ByteArray
  recs : List Rec

def Font.table? (f : Font) (tag : String) : Option Tbl :=
  match f.recs.find? (fun r => r.tag == tagOf tag) with
  | none => none
  | some r => if r.offset + r.length ≤ f.ba.size then some ⟨f.ba, r.offset, r.length⟩ else none

def Font.has (f : Font) (tag : String) : Bool := (f.table? tag).isSome

/-- `List.range n` mapped through an `Option`-valued reader, failing if any read fails. -/
def readMany {α} (n : Nat) (rd : Nat → Option α) : Option (List α) := (List.range n).mapM rd

/-! ### maxp / head / hhea / loca / hmtx / post -/

structure Maxp where
  version : Nat
  numGlyphs : Nat
  maxPoints : Nat
  maxContours : Nat
  maxCompositePoints : Nat
  maxCompositeContours : Nat
  maxComponentElements : Nat
  maxComponentDepth : Nat
  deriving Repr

def parseMaxp (t : Tbl) : Option Maxp := do
  let v ← t.u32 0
  let n ← t.u16 4
  if v = 0x00010000 then
    pure ⟨v, n, ← t.u16 6, ← t.u16 8, ← t.u16 10, ← t.u16 12, ← t.u16 28, ← t.u16 30⟩
  else pure ⟨v, n, 0, 0, 0, 0, 0, 0⟩

structure Head where
  magicNumber : Nat
  unitsPerEm : Nat
  indexToLocFormat : Nat
  checkSumAdjustment : Nat
  deriving Repr

def parseHead (t : Tbl) : Option Head := do
  if t.len < 54 then none
  pure ⟨← t.u32 12, ← t.u16 18, ← t.u16 50, ← t.u32 8⟩

def parseHheaNumHMetrics (t : Tbl) : Option Nat := do
  if t.len < 36 then none
  t.u16 34

/-- glyph data offsets (numGlyphs + 1 of them), in bytes -/
def parseLoca (t : Tbl) (long : Bool) (numGlyphs : Nat) : Option (List Nat) :=
  if long then
    if t.len = 4 * (numGlyphs + 1) then readMany (numGlyphs + 1) fun i => t.u32 (4 * i) else none
  else
    if t.len = 2 * (numGlyphs + 1) then readMany (numGlyphs + 1) fun i => (· * 2) <$> t.u16 (2 * i) else none

def monotone : List Nat → Bool
  | a :: b :: rest => a ≤ b && monotone (b :: rest)
  | _ => true

structure Post where
  version : Nat
  numGlyphs : Option Nat
  maxNameIndex : Nat
  numStrings : Nat
  deriving Repr

/-- count Pascal strings in `[i, len)`; none if one overruns -/
def countPascal (t : Tbl) (fuel i acc : Nat) : Option Nat :=
  match fuel with
  | 0 => if i = t.len then some acc else none
  | fuel + 1 =>
    if i = t.len then some acc
    else match t.u8 i with
      | none => none
      | some l => if i + 1 + l ≤ t.len then countPascal t fuel (i + 1 + l) (acc + 1) else none

def parsePost (t : Tbl) : Option Post := do
  if t.len < 32 then none
  let v ← t.u32 0
  if v = 0x00020000 then
    let n ← t.u16 32
    let idx ← readMany n fun i => t.u16 (34 + 2 * i)
    let strs ← countPascal t t.len (34 + 2 * n) 0
    pure ⟨v, some n, idx.foldl max 0, strs⟩
  else pure ⟨v, none, 0, 0⟩

/-! ### glyf -/

structure Glyph where
  /-- numberOfContours (negative: composite) -/
  nContours : Int
  /-- simple: number of points; composite: 0 -/
  nPoints : Nat
  components : List Nat
  deriving Repr, Inhabited

/-- Composite records from offset `i`; returns the component glyph ids. -/
def parseComponents (t : Tbl) : Nat → Nat → List Nat → Option (List Nat)
  | 0, _, _ => none
  | fuel + 1, i, acc => do
    let flags ← t.u16 i
    let gid ← t.u16 (i + 2)
    let argLen := if flags % 2 = 1 then 4 else 2
    let trLen := if flags / 8 % 2 = 1 then 2 else if flags / 64 % 2 = 1 then 4 else if flags / 128 % 2 = 1 then 8 else 0
    let next := i + 4 + argLen + trLen
    if next > t.len then none
    else if flags / 32 % 2 = 1 then parseComponents t fuel next (gid :: acc)
    else
      -- WE_HAVE_INSTRUCTIONS
      if flags / 256 % 2 = 1 then
        let n ← t.u16 next
        if next + 2 + n ≤ t.len then pure (gid :: acc).reverse else none
      else pure (gid :: acc).reverse

def parseGlyph (glyf : Tbl) (start stop : Nat) : Option Glyph :=
  if start = stop then some ⟨0, 0, []⟩
  else if stop < start then none
  else do
    let t ← glyf.sub start (stop - start)
    if t.len < 10 then none
    let nc ← t.i16 0
    if nc ≥ 0 then
      let k := nc.toNat
      if k = 0 then pure ⟨0, 0, []⟩
      else
        let ends ← readMany k fun j => t.u16 (10 + 2 * j)
        -- contour end points strictly increasing
        if !(monotone ends) then none
        let last := ends.getLast?.getD 0
        -- instruction length must fit too
        let _ ← t.u16 (10 + 2 * k)
        pure ⟨nc, last + 1, []⟩
    else
      let comps ← parseComponents t (t.len / 4 + 1) 10 []
      pure ⟨nc, 0, comps⟩

def parseGlyphs (glyf : Tbl) : List Nat → Option (List Glyph)
  | a :: b :: rest => do
    let g ← parseGlyph glyf a b
    let gs ← parseGlyphs glyf (b :: rest)
    pure (g :: gs)
  | _ => some []

/-- (depth, total points, total contours) of glyph `g` with components resolved; none = cycle or bad gid.
    Depth convention of the spec: simple glyph 0, composite of simple glyphs 1. -/
def glyphTotals (gs : Array Glyph) : Nat → Nat → Option (Nat × Nat × Nat)
  | 0, _ => none
  | fuel + 1, g =>
    match gs[g]? with
    | none => none
    | some gl =>
      if gl.components.isEmpty then some (0, gl.nPoints, gl.nContours.toNat)
      else
        gl.components.foldl (fun acc c =>
          match acc, glyphTotals gs fuel c with
          | some (d, p, k), some (d', p', k') => some (max d (d' + 1), p + p', k + k')
          | _, _ => none) (some (0, 0, 0))

/-! ### name -/

structure NameRec where
  platformID : Nat
  encodingID : Nat
  languageID : Nat
  nameID : Nat
  length : Nat
  offset : Nat
  deriving Repr

def parseName (t : Tbl) : Option (Nat × List NameRec) := do
  let count ← t.u16 2
  let storage ← t.u16 4
  let recs ← readMany count fun i =>
    let b := 6 + 12 * i
    do pure (⟨← t.u16 b, ← t.u16 (b + 2), ← t.u16 (b + 4), ← t.u16 (b + 6), ← t.u16 (b + 8), ← t.u16 (b + 10)⟩ : NameRec)
  pure (storage, recs)

/-! ### fvar / avar / gvar / STAT -/

structure Fvar where
  axisCount : Nat
  instanceCount : Nat
  /-- axisNameID of every axis, then subfamilyNameID / postScriptNameID (≠ 0xFFFF) of every instance -/
  nameIds : List Nat
  deriving Repr

def parseFvar (t : Tbl) : Option Fvar := do
  let axesOff ← t.u16 4
  let axisCount ← t.u16 8
  let axisSize ← t.u16 10
  let instCount ← t.u16 12
  let instSize ← t.u16 14
  if axisSize < 20 ∨ instSize < 4 + 4 * axisCount then none
  let axisIds ← readMany axisCount fun i => t.u16 (axesOff + axisSize * i + 18)
  let instBase := axesOff + axisSize * axisCount
  let instIds ← readMany instCount fun i => do
    let b := instBase + instSize * i
    let sub ← t.u16 b
    -- the whole record must be inside the table
    let _ ← t.u8 (b + instSize - 1)
    if instSize ≥ 4 * axisCount + 6 then
      let ps ← t.u16 (b + 4 + 4 * axisCount)
      pure (if ps = 0xFFFF then [sub] else [sub, ps])
    else pure [sub]
  pure ⟨axisCount, instCount, axisIds ++ instIds.flatten⟩

def parseAvarAxisCount (t : Tbl) : Option Nat := t.u16 6

structure Gvar where
  axisCount : Nat
  glyphCount : Nat
  offsetsOk : Bool
  deriving Repr

def parseGvar (t : Tbl) : Option Gvar := do
  let axisCount ← t.u16 4
  let sharedCount ← t.u16 6
  let sharedOff ← t.u32 8
  let glyphCount ← t.u16 12
  let flags ← t.u16 14
  let dataOff ← t.u32 16
  let offs ← readMany (glyphCount + 1) fun i =>
    if flags % 2 = 1 then t.u32 (20 + 4 * i) else (· * 2) <$> t.u16 (20 + 2 * i)
  let last := offs.getLast?.getD 0
  pure ⟨axisCount, glyphCount,
    monotone offs && decide (dataOff + last ≤ t.len) && decide (sharedOff + sharedCount * axisCount * 2 ≤ t.len)⟩

/-- STAT: name ids referenced (axis names, value names, elided fallback). -/
def parseStatNameIds (t : Tbl) : Option (List Nat) := do
  let minor ← t.u16 2
  let axisSize ← t.u16 4
  let axisCount ← t.u16 6
  let axesOff ← t.u32 8
  let valCount ← t.u16 12
  let valOffs ← t.u32 14
  let axisIds ← readMany axisCount fun i => t.u16 (axesOff + axisSize * i + 4)
  let valIds ← readMany valCount fun i => do
    let o ← t.u16 (valOffs + 2 * i)
    let b := valOffs + o
    let fmt ← t.u16 b
    if fmt = 0 ∨ fmt > 4 then none
    t.u16 (b + 6)
  let elided ← if minor ≥ 1 then (fun x => [x]) <$> t.u16 18 else pure []
  pure (axisIds ++ valIds ++ elided)

/-! ### ItemVariationStore (HVAR / VVAR / MVAR) -/

structure Ivs where
  axisCount : Nat
  regionCount : Nat
  /-- itemCount of every ItemVariationData subtable -/
  itemCounts : List Nat
  /-- every region index used by a subtable -/
  regionIndexes : List Nat
  deriving Repr

def parseIvs (t : Tbl) : Option Ivs := do
  let fmt ← t.u16 0
  if fmt ≠ 1 then none
  let regOff ← t.u32 2
  let dataCount ← t.u16 6
  let axisCount ← t.u16 regOff
  let regionCount ← t.u16 (regOff + 2)
  -- the region list itself must be inside the table
  if regOff + 4 + regionCount * axisCount * 6 > t.len then none
  let subs ← readMany dataCount fun i => do
    let o ← t.u32 (8 + 4 * i)
    if o = 0 then pure (0, [])
    else
      let itemCount ← t.u16 o
      let wordCount ← t.u16 (o + 2)
      let ric ← t.u16 (o + 4)
      let idx ← readMany ric fun j => t.u16 (o + 6 + 2 * j)
      let longWords := wordCount / 32768 % 2 = 1
      let wc := wordCount % 32768
      if wc > ric then none
      let rowLen := if longWords then 4 * wc + 2 * (ric - wc) else 2 * wc + (ric - wc)
      if o + 6 + 2 * ric + rowLen * itemCount > t.len then none
      pure (itemCount, idx)
  pure ⟨axisCount, regionCount, subs.map (·.1), (subs.map (·.2)).flatten⟩

/-- DeltaSetIndexMap: list of (outer, inner) -/
def parseDeltaSetIndexMap (t : Tbl) : Option (List (Nat × Nat)) := do
  let fmt ← t.u8 0
  let entryFormat ← t.u8 1
  let (count, base) ← if fmt = 0 then (fun c => (c, 4)) <$> t.u16 2
                      else if fmt = 1 then (fun c => (c, 6)) <$> t.u32 2 else none
  let innerBits := entryFormat % 16 + 1
  let entrySize := entryFormat / 16 % 4 + 1
  readMany count fun i => do
    let bytes ← readMany entrySize fun j => t.u8 (base + entrySize * i + j)
    let v := bytes.foldl (fun acc b => acc * 256 + b) 0
    pure (v / 2 ^ innerBits, v % 2 ^ innerBits)

structure VarMetrics where
  ivs : Ivs
  /-- advance mapping; none = implicit (outer 0, inner = glyph id) -/
  advMap : Option (List (Nat × Nat))
  deriving Repr

/-- HVAR / VVAR -/
def parseHvar (t : Tbl) : Option VarMetrics := do
  let ivsOff ← t.u32 4
  let advOff ← t.u32 8
  let ivs ← parseIvs (← t.from? ivsOff)
  let adv ← if advOff = 0 then pure none else some <$> parseDeltaSetIndexMap (← t.from? advOff)
  pure ⟨ivs, adv⟩

structure Mvar where
  ivs : Option Ivs
  /-- (outer, inner) of every value record -/
  recs : List (Nat × Nat)
  deriving Repr

def parseMvar (t : Tbl) : Option Mvar := do
  let recSize ← t.u16 6
  let recCount ← t.u16 8
  let ivsOff ← t.u16 10
  if recCount > 0 ∧ recSize < 8 then none
  let recs ← readMany recCount fun i => do
    let b := 12 + recSize * i
    pure (← t.u16 (b + 4), ← t.u16 (b + 6))
  let ivs ← if ivsOff = 0 then pure none else some <$> parseIvs (← t.from? ivsOff)
  pure ⟨ivs, recs⟩

/-- a delta-set index is in range; (0xFFFF, 0xFFFF) is the spec's "no variation data" -/
def Ivs.indexOk (s : Ivs) (oi : Nat × Nat) : Bool :=
  if oi.1 = 0xFFFF ∧ oi.2 = 0xFFFF then true
  else match s.itemCounts[oi.1]? with
    | some c => decide (oi.2 < c)
    | none => false

/-! ### GDEF / GSUB / GPOS / BASE / COLR: references into variation data

  Written from the OpenType spec ("OpenType Layout Common Table Formats", GPOS, GDEF chapters).
  A `VariationIndex` table is a Device table whose deltaFormat is 0x8000: (outer, inner) at bytes 0..4. -/

/-- ItemVariationStore referenced by a u32 offset at `at` when `minor ≥ need`; `some none` = no store. -/
def parseStoreAt (t : Tbl) (need at_ : Nat) : Option (Option Ivs) := do
  let minor ← t.u16 2
  if minor < need then pure none
  else
    let off ← t.u32 at_
    if off = 0 then pure none else some <$> parseIvs (← t.from? off)

def parseGdefIvs (t : Tbl) : Option (Option Ivs) := parseStoreAt t 3 14
def parseBaseIvs (t : Tbl) : Option (Option Ivs) := parseStoreAt t 1 8

/-- COLR v1 itemVariationStoreOffset (u32 at 30) -/
def parseColrIvs (t : Tbl) : Option (Option Ivs) := do
  let v ← t.u16 0
  if v = 0 then pure none
  else
    let off ← t.u32 30
    if off = 0 then pure none else some <$> parseIvs (← t.from? off)

/-- Device / VariationIndex table at `off` of `t`: `some (some (outer, inner))` for a VariationIndex,
    `some none` for a hinting Device table, `none` if malformed. -/
def readVarIdx (t : Tbl) (off : Nat) : Option (Option (Nat × Nat)) := do
  let a ← t.u16 off
  let b ← t.u16 (off + 2)
  let fmt ← t.u16 (off + 4)
  if fmt = 0x8000 then pure (some (a, b))
  else if 1 ≤ fmt ∧ fmt ≤ 3 then pure none
  else none

def bitSet (n i : Nat) : Bool := n / 2 ^ i % 2 = 1

def valueRecordSize (fmt : Nat) : Nat := 2 * ((List.range 8).filter (bitSet fmt)).length

/-- variation indices referenced by the ValueRecord at `p` (device offsets are relative to `t`) -/
def valueRecordVarIdx (t : Tbl) (p fmt : Nat) : Option (List (Nat × Nat)) := do
  let nPlain := ((List.range 4).filter (bitSet fmt)).length
  let devs := ([4, 5, 6, 7].filter (bitSet fmt)).zipIdx
  let idx ← devs.mapM fun (_, k) => do
    let off ← t.u16 (p + 2 * nPlain + 2 * k)
    if off = 0 then pure none else readVarIdx t off
  pure (idx.filterMap id)

/-- Anchor table at offset `off` of `t` (0 = NULL) -/
def anchorVarIdx (t : Tbl) (off : Nat) : Option (List (Nat × Nat)) :=
  if off = 0 then some [] else do
    let a ← t.from? off
    let fmt ← a.u16 0
    if fmt = 3 then
      let xd ← a.u16 6
      let yd ← a.u16 8
      let x ← if xd = 0 then pure none else readVarIdx a xd
      let y ← if yd = 0 then pure none else readVarIdx a yd
      pure ([x, y].filterMap id)
    else if fmt = 1 ∨ fmt = 2 then pure [] else none

/-- a count-prefixed matrix of anchor offsets (BaseArray / Mark2Array / LigatureAttach), `cols` per row -/
def anchorMatrixVarIdx (t : Tbl) (cols : Nat) : Option (List (Nat × Nat)) := do
  let rows ← t.u16 0
  let ls ← readMany (rows * cols) fun k => do anchorVarIdx t (← t.u16 (2 + 2 * k))
  pure ls.flatten

def markArrayVarIdx (t : Tbl) : Option (List (Nat × Nat)) := do
  let n ← t.u16 0
  let ls ← readMany n fun k => do anchorVarIdx t (← t.u16 (2 + 4 * k + 2))
  pure ls.flatten

/-- one GPOS subtable of (non-extension) lookup type `ty` -/
def gposSubtableVarIdx (ty : Nat) (st : Tbl) : Option (List (Nat × Nat)) := do
  let fmt ← st.u16 0
  if ty = 1 then
    let vf ← st.u16 4
    if fmt = 1 then valueRecordVarIdx st 6 vf
    else if fmt = 2 then
      let n ← st.u16 6
      let ls ← readMany n fun k => valueRecordVarIdx st (8 + valueRecordSize vf * k) vf
      pure ls.flatten
    else none
  else if ty = 2 then
    let vf1 ← st.u16 4
    let vf2 ← st.u16 6
    let s1 := valueRecordSize vf1
    let s2 := valueRecordSize vf2
    if fmt = 1 then
      let n ← st.u16 8
      let ls ← readMany n fun k => do
        let ps ← st.from? (← st.u16 (10 + 2 * k))
        let cnt ← ps.u16 0
        let rs ← readMany cnt fun j => do
          let p := 2 + (2 + s1 + s2) * j
          let a ← valueRecordVarIdx ps (p + 2) vf1
          let b ← valueRecordVarIdx ps (p + 2 + s1) vf2
          pure (a ++ b)
        pure rs.flatten
      pure ls.flatten
    else if fmt = 2 then
      let c1 ← st.u16 12
      let c2 ← st.u16 14
      let ls ← readMany (c1 * c2) fun k => do
        let p := 16 + (s1 + s2) * k
        let a ← valueRecordVarIdx st p vf1
        let b ← valueRecordVarIdx st (p + s1) vf2
        pure (a ++ b)
      pure ls.flatten
    else none
  else if ty = 3 then
    let n ← st.u16 4
    let ls ← readMany (2 * n) fun k => do anchorVarIdx st (← st.u16 (6 + 2 * k))
    pure ls.flatten
  else if ty = 4 ∨ ty = 6 then
    let classes ← st.u16 6
    let marks ← markArrayVarIdx (← st.from? (← st.u16 8))
    let bases ← anchorMatrixVarIdx (← st.from? (← st.u16 10)) classes
    pure (marks ++ bases)
  else if ty = 5 then
    let classes ← st.u16 6
    let marks ← markArrayVarIdx (← st.from? (← st.u16 8))
    let la ← st.from? (← st.u16 10)
    let n ← la.u16 0
    let ls ← readMany n fun k => do anchorMatrixVarIdx (← la.from? (← la.u16 (2 + 2 * k))) classes
    pure (marks ++ ls.flatten)
  else if ty = 7 ∨ ty = 8 then pure []
  else none

/-- every VariationIndex referenced from a GPOS lookup (extension lookups resolved) -/
def gposVarIdx (t : Tbl) : Option (List (Nat × Nat)) := do
  let ll ← t.from? (← t.u16 8)
  let n ← ll.u16 0
  let ls ← readMany n fun i => do
    let lk ← ll.from? (← ll.u16 (2 + 2 * i))
    let ty ← lk.u16 0
    let subs ← lk.u16 4
    let ss ← readMany subs fun j => do
      let st ← lk.from? (← lk.u16 (6 + 2 * j))
      if ty = 9 then
        let ety ← st.u16 2
        if ety = 9 then none
        gposSubtableVarIdx ety (← st.from? (← st.u32 4))
      else gposSubtableVarIdx ty st
    pure ss.flatten
  pure ls.flatten

/-- GDEF LigCaretList: CaretValueFormat3 device tables -/
def gdefCaretVarIdx (t : Tbl) : Option (List (Nat × Nat)) := do
  let off ← t.u16 8
  if off = 0 then pure []
  else
    let lc ← t.from? off
    let n ← lc.u16 2
    let ls ← readMany n fun i => do
      let lg ← lc.from? (← lc.u16 (4 + 2 * i))
      let k ← lg.u16 0
      let cs ← readMany k fun j => do
        let cv ← lg.from? (← lg.u16 (2 + 2 * j))
        let fmt ← cv.u16 0
        if fmt = 3 then
          let d ← cv.u16 4
          if d = 0 then pure none else readVarIdx cv d
        else if fmt = 1 ∨ fmt = 2 then pure none else none
      pure (cs.filterMap id)
    pure ls.flatten

structure FeatVars where
  /-- axisIndex of every format-1 condition, in table order -/
  condAxes : List Nat
  /-- featureIndex of every FeatureTableSubstitution record -/
  substFeatures : List Nat
  featureCount : Nat
  records : Nat
  deriving Repr

/-- GSUB/GPOS FeatureVariations (header minor version ≥ 1, offset at 10); `some none` = not present -/
def parseFeatureVariations (t : Tbl) : Option (Option FeatVars) := do
  let minor ← t.u16 2
  if minor < 1 then pure none
  else
    let off ← t.u32 10
    if off = 0 then pure none
    else
      let featureCount ← t.u16 (← t.u16 6)
      let fv ← t.from? off
      let n ← fv.u32 4
      let recs ← readMany n fun i => do
        let cso ← fv.u32 (8 + 8 * i)
        let fso ← fv.u32 (8 + 8 * i + 4)
        let conds ← if cso = 0 then pure [] else do
          let cs ← fv.from? cso
          let k ← cs.u16 0
          let cl ← readMany k fun j => do
            let c ← cs.from? (← cs.u32 (2 + 4 * j))
            let fmt ← c.u16 0
            if fmt = 1 then
              -- the whole record (format, axisIndex, min, max) must be inside the table
              let _ ← c.u16 6
              some <$> c.u16 2
            else pure none
          pure (cl.filterMap id)
        let subst ← if fso = 0 then pure [] else do
          let fs ← fv.from? fso
          let k ← fs.u16 4
          readMany k fun j => do
            let _ ← fs.u32 (6 + 6 * j + 2)
            fs.u16 (6 + 6 * j)
        pure (conds, subst)
      pure (some ⟨(recs.map (·.1)).flatten, (recs.map (·.2)).flatten, featureCount, n⟩)

/-! ## The whole-font oracle of C05

  `wellFormedFont` returns the list of failed clauses (empty = the font passes) and the numbers it
  extracted (so that the harness can cross-check them against read-fonts' parse of the same bytes). -/

structure FontReport where
  failures : List String := []
  info : List (String × List Nat) := []
  deriving Repr

namespace FontReport
def fail (r : FontReport) (msg : String) : FontReport := { r with failures := r.failures ++ [msg] }
def failIf (r : FontReport) (c : Bool) (msg : String) : FontReport := if c then r.fail msg else r
def note (r : FontReport) (k : String) (v : List Nat) : FontReport := { r with info := r.info ++ [(k, v)] }
def ok (r : FontReport) : Bool := r.failures.isEmpty
end FontReport

def requiredTables : List String := ["cmap", "head", "hhea", "hmtx", "maxp", "name", "OS/2", "post", "glyf", "loca"]

def dedupSorted : List Nat → List Nat
  | a :: b :: rest => if a = b then dedupSorted (b :: rest) else a :: dedupSorted (b :: rest)
  | l => l

def sortNat (l : List Nat) : List Nat := (l.toArray.qsort (· < ·)).toList

/-- parse an optional table: absent → `none` silently; present but unparseable → failure `parse:<tag>` -/
def parseOpt {α} (f : Font) (tag : String) (p : Tbl → Option α) (r : FontReport) : FontReport × Option α :=
  match f.table? tag with
  | none => (r, none)
  | some t =>
    match p t with
    | none => (r.fail s!"parse:{tag}", none)
    | some v => (r, some v)

def checkIvs (r : FontReport) (tag : String) (ivs : Ivs) (fvarAxes : Option Nat) : FontReport :=
  let r := r.note s!"{tag}.axisCount" [ivs.axisCount] |>.note s!"{tag}.regionCount" [ivs.regionCount]
  let r := r.failIf (ivs.regionIndexes.any (· ≥ ivs.regionCount)) s!"region-index:{tag}"
  r.failIf (fvarAxes != some ivs.axisCount) s!"axis-count:{tag}"

def glyphChecks (r : FontReport) (mx : Maxp) (gs : Array Glyph) : FontReport := Id.run do
  let n := gs.size
  let mut r := r
  let mut badGid := false
  let mut cyc := false
  let mut depthBad := false
  let mut totalsBad := false
  let mut maxDepth := 0
  let mut edges : List Nat := []
  for g in [0:n] do
    let gl := gs[g]!
    if gl.components.isEmpty then
      if gl.nPoints > mx.maxPoints ∨ gl.nContours.toNat > mx.maxContours then totalsBad := true
    else
      for c in gl.components do
        edges := c :: g :: edges
      if gl.components.any (· ≥ n) then badGid := true
      else
        match glyphTotals gs (n + 1) g with
        | none => cyc := true
        | some (d, p, k) =>
          if d > maxDepth then maxDepth := d
          if d > mx.maxComponentDepth then depthBad := true
          if p > mx.maxCompositePoints ∨ k > mx.maxCompositeContours ∨
             gl.components.length > mx.maxComponentElements then totalsBad := true
  r := r.note "components" edges.reverse |>.note "componentDepth" [maxDepth]
  r := r.failIf badGid "component-gid-range"
  r := r.failIf cyc "component-cycle"
  r := r.failIf depthBad "component-depth"
  r := r.failIf totalsBad "maxp-totals"
  return r

/-- The table-level clauses, given the directory. -/
def fontChecks (f : Font) (r : FontReport) : FontReport := Id.run do
  let mut r := r
  for t in requiredTables do
    if !f.has t then r := r.fail s!"missing:{t}"
  let (r1, maxp?) := parseOpt f "maxp" parseMaxp r; r := r1
  let (r1, head?) := parseOpt f "head" parseHead r; r := r1
  let some mx := maxp? | return r
  let n := mx.numGlyphs
  r := r.note "numGlyphs" [n]
  r := r.failIf (mx.version != 0x00010000) "maxp-version"
  -- head
  let mut long := false
  if let some h := head? then
    r := r.note "indexToLocFormat" [h.indexToLocFormat] |>.note "checkSumAdjustment" [h.checkSumAdjustment]
    r := r.failIf (h.magicNumber != 0x5F0F3CF5) "head-magic"
    r := r.failIf (h.indexToLocFormat > 1) "loc-format"
    long := h.indexToLocFormat = 1
  -- hhea / hmtx (and vhea / vmtx)
  for (hea, mtx) in [("hhea", "hmtx"), ("vhea", "vmtx")] do
    let (r1, k?) := parseOpt f hea parseHheaNumHMetrics r; r := r1
    if let some k := k? then
      r := r.note s!"{hea}.numLongMetrics" [k]
      match f.table? mtx with
      | none => r := r.failIf (hea == "vhea") "missing:vmtx"
      | some m =>
        r := r.note s!"{mtx}.length" [m.len]
        r := r.failIf (k > n ∨ (n > 0 ∧ k = 0) ∨ m.len != 4 * k + 2 * (n - k)) s!"numGlyphs:{mtx}"
  -- loca / glyf
  if let (some loca, some glyf) := (f.table? "loca", f.table? "glyf") then
    r := r.note "loca.length" [loca.len]
    match parseLoca loca long n with
    | none => r := r.fail "numGlyphs:loca"
    | some offs =>
      r := r.failIf (!(monotone offs)) "loca-not-monotone"
      r := r.failIf (offs.getLast?.getD 0 > glyf.len) "loca-beyond-glyf"
      if monotone offs ∧ offs.getLast?.getD 0 ≤ glyf.len then
        match parseGlyphs glyf offs with
        | none => r := r.fail "parse:glyf"
        | some gs => r := glyphChecks r mx gs.toArray
  -- post
  let (r1, post?) := parseOpt f "post" parsePost r; r := r1
  if let some p := post? then
    r := r.note "post.version" [p.version]
    if let some pn := p.numGlyphs then
      r := r.note "post.numGlyphs" [pn]
      r := r.failIf (pn != n) "numGlyphs:post"
      r := r.failIf (pn > 0 ∧ p.maxNameIndex ≥ 258 + p.numStrings) "post-name-index"
  -- name
  let (r1, name?) := parseOpt f "name" parseName r; r := r1
  let mut nameIds : List Nat := []
  if let (some (storage, recs), some nt) := (name?, f.table? "name") then
    nameIds := dedupSorted (sortNat (recs.map (·.nameID)))
    r := r.note "name.ids" nameIds
    r := r.failIf (recs.any fun nr => storage + nr.offset + nr.length > nt.len) "name-string-bounds"
  -- fvar and the name ids it references
  let (r1, fvar?) := parseOpt f "fvar" parseFvar r; r := r1
  let axes? := fvar?.map (·.axisCount)
  if let some fv := fvar? then
    r := r.note "fvar.axisCount" [fv.axisCount] |>.note "fvar.nameIds" fv.nameIds
    for id in dedupSorted (sortNat fv.nameIds) do
      if !nameIds.contains id then r := r.fail s!"name-id-missing:fvar:{id}"
    -- the OpenType spec requires STAT in every variable font and gvar in every TrueType-flavoured one
    for t in ["STAT", "gvar"] do
      if !f.has t then r := r.fail s!"missing:{t}"
  let (r1, stat?) := parseOpt f "STAT" parseStatNameIds r; r := r1
  if let some ids := stat? then
    r := r.note "STAT.nameIds" ids
    for id in dedupSorted (sortNat ids) do
      if !nameIds.contains id then r := r.fail s!"name-id-missing:STAT:{id}"
  -- variation tables need fvar, and agree with it on the axis count
  let (r1, avar?) := parseOpt f "avar" parseAvarAxisCount r; r := r1
  if let some a := avar? then
    r := r.note "avar.axisCount" [a]
    r := r.failIf (axes? != some a) "axis-count:avar"
  let (r1, gvar?) := parseOpt f "gvar" parseGvar r; r := r1
  if let some g := gvar? then
    r := r.note "gvar.axisCount" [g.axisCount] |>.note "gvar.glyphCount" [g.glyphCount]
    r := r.failIf (axes? != some g.axisCount) "axis-count:gvar"
    r := r.failIf (g.glyphCount != n) "numGlyphs:gvar"
    r := r.failIf (!g.offsetsOk) "gvar-offsets"
  for tag in ["HVAR", "VVAR"] do
    let (r1, hv?) := parseOpt f tag parseHvar r; r := r1
    if let some hv := hv? then
      r := checkIvs r tag hv.ivs axes?
      match hv.advMap with
      | none =>
        r := r.note s!"{tag}.mapCount" []
        -- implicit mapping: glyph id is the inner index into subtable 0
        r := r.failIf (hv.ivs.itemCounts.head? != some n) s!"numGlyphs:{tag}"
      | some m =>
        r := r.note s!"{tag}.mapCount" [m.length]
        r := r.failIf (m.length > n ∨ (n > 0 ∧ m.length = 0)) s!"numGlyphs:{tag}"
        r := r.failIf (m.any fun oi => !hv.ivs.indexOk oi) s!"delta-set-index:{tag}"
  let (r1, mv?) := parseOpt f "MVAR" parseMvar r; r := r1
  if let some mv := mv? then
    r := r.note "MVAR.valueRecordCount" [mv.recs.length]
    match mv.ivs with
    | none => r := r.failIf (!mv.recs.isEmpty) "delta-set-index:MVAR"
    | some ivs =>
      r := checkIvs r "MVAR" ivs axes?
      r := r.failIf (mv.recs.any fun oi => !ivs.indexOk oi) "delta-set-index:MVAR"
  -- variation stores of the layout / colour tables agree with fvar on the axis count
  let (r1, gdefIvs?) := parseOpt f "GDEF" parseGdefIvs r; r := r1
  let gdefIvs : Option Ivs := gdefIvs?.join
  if let some ivs := gdefIvs then r := checkIvs r "GDEF" ivs axes?
  let (r1, baseIvs?) := parseOpt f "BASE" parseBaseIvs r; r := r1
  if let some ivs := baseIvs?.join then r := checkIvs r "BASE" ivs axes?
  let (r1, colrIvs?) := parseOpt f "COLR" parseColrIvs r; r := r1
  if let some ivs := colrIvs?.join then r := checkIvs r "COLR" ivs axes?
  -- FeatureVariations: condition axis indices are fvar axis indices; substituted features exist
  for tag in ["GSUB", "GPOS"] do
    let (r1, fv?) := parseOpt f tag parseFeatureVariations r; r := r1
    if let some fv := fv?.join then
      r := r.note s!"{tag}.condAxes" fv.condAxes |>.note s!"{tag}.featureVariationRecords" [fv.records]
      r := r.failIf (fv.condAxes.any (· ≥ axes?.getD 0)) s!"condition-axis:{tag}"
      r := r.failIf (fv.substFeatures.any (· ≥ fv.featureCount)) s!"feature-subst-index:{tag}"
  -- every VariationIndex of GPOS / GDEF resolves inside the GDEF store
  let (r1, gposIdx?) := parseOpt f "GPOS" gposVarIdx r; r := r1
  let (r1, caretIdx?) := parseOpt f "GDEF" gdefCaretVarIdx r; r := r1
  let varIdx := (gposIdx?.getD []) ++ (caretIdx?.getD [])
  if gposIdx?.isSome ∨ caretIdx?.isSome then
    r := r.note "varIdx" (dedupSorted (sortNat (varIdx.map fun oi => oi.1 * 65536 + oi.2)))
  if !varIdx.isEmpty then
    match gdefIvs with
    | none => r := r.fail "variation-index:no-GDEF-store"
    | some ivs => r := r.failIf (varIdx.any fun oi => !ivs.indexOk oi) "variation-index:GDEF-store"
  return r

/-- C05 on raw font bytes: container (`wellFormedSfnt`) + TrueType flavour + table-level clauses. -/
def wellFormedFont (bytes : Bytes) : FontReport := Id.run do
  let mut r : FontReport := {}
  for m in sfntFailures bytes do
    r := r.fail s!"sfnt:{m}"
  -- `sfntFailures` lists exactly the failing conjuncts of `wellFormedSfnt`; keep the verified predicate authoritative
  if !(wellFormedSfnt bytes) ∧ r.failures.isEmpty then r := r.fail "sfnt"
  match parseDir bytes with
  | none => return r
  | some d =>
    r := r.note "numTables" [d.numTables]
    r := r.failIf (d.version != 0x00010000) "not-truetype"
    return fontChecks ⟨ByteArray.mk bytes.toArray, d.recs⟩ r

end Fontc.Bytes
