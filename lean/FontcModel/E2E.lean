/-
  Shared end-to-end data: the abstract source description the harness generated (`design`) and the tables of
  the font the real compiler produced (`font`, read back with read-fonts), parsed from the protocol line.
  Core Lean only.
-/
import FontcModel.Sexp
import FontcModel.Basic

namespace Fontc.E2E
open Fontc

/-! ### Source side -/

inductive PtType where
  | line | off | qcurve | curve
  deriving Repr, DecidableEq, Inhabited

structure SPt where
  x : Rat
  y : Rat
  typ : PtType
  deriving Repr, Inhabited

structure SComp where
  base : String
  /-- xx xy yx yy dx dy (UFO order: x' = xx·x + yx·y + dx, y' = xy·x + yy·y + dy) -/
  t : List Rat
  deriving Repr, Inhabited

structure SGlyph where
  name : String
  advance : Rat
  height : Option Rat
  contours : List (List SPt)
  components : List SComp
  anchors : List (String × Rat × Rat)
  deriving Repr, Inhabited

structure SMaster where
  name : String
  loc : List Rat
  nloc : List Rat
  sparse : Bool
  glyphs : List SGlyph
  kerning : List (String × String × Rat)
  groups : List (String × List String)
  info : List (String × Rat)
  deriving Repr, Inhabited

structure SAxis where
  tag : String
  name : String
  min : Rat
  default : Rat
  max : Rat
  map : List (Rat × Rat)
  deriving Repr, Inhabited

structure SRule where
  name : String
  condsets : List (List (Nat × Option Rat × Option Rat))
  subs : List (String × String)
  deriving Repr, Inhabited

structure Design where
  upem : Nat
  axes : List SAxis
  default : Nat
  masters : List SMaster
  order : Option (List String)
  skip : List String
  cps : List (String × List Nat)
  instances : List (String × String × List Rat)
  rules : List SRule
  deriving Repr, Inhabited

open Sexp in
def parsePt (s : Sexp) : Option SPt :=
  match s with
  | .list [x, y, .atom t] => do
    let typ ← match t with
      | "l" => some PtType.line | "o" => some PtType.off | "q" => some PtType.qcurve | "c" => some PtType.curve
      | _ => none
    some ⟨← x.asRat?, ← y.asRat?, typ⟩
  | _ => none

def parseOptRat (s : Sexp) : Option (Option Rat) :=
  match s with
  | .atom "none" => some none
  | _ => some <$> s.asRat?

def parseGlyph (s : Sexp) : Option SGlyph :=
  match s with
  | .list [n, adv, h, cs, comps, anchors] => do
    let contours ← cs.mapM? (fun c => c.mapM? parsePt)
    let components ← comps.mapM? fun c =>
      match c with
      | .list [b, t] => do some (SComp.mk (← b.asString?) (← t.mapM? Sexp.asRat?))
      | _ => none
    let anchors ← anchors.mapM? fun a =>
      match a with
      | .list [n, x, y] => do some ((← n.asString?), (← x.asRat?), (← y.asRat?))
      | _ => none
    some { name := ← n.asString?, advance := ← adv.asRat?, height := ← parseOptRat h,
           contours, components, anchors }
  | _ => none

def parseMaster (s : Sexp) : Option SMaster := do
  let glyphs ← (← s.field1? "glyphs").mapM? parseGlyph
  let kerning ← (← s.field1? "kerning").mapM? fun k =>
    match k with
    | .list [a, b, v] => do some ((← a.asString?), (← b.asString?), (← v.asRat?))
    | _ => none
  let groups ← (← s.field1? "groups").mapM? fun g =>
    match g with
    | .list [n, ms] => do some ((← n.asString?), (← ms.mapM? Sexp.asString?))
    | _ => none
  let info ← (← s.field1? "info").mapM? fun g =>
    match g with
    | .list [n, v] => do some ((← n.asString?), (← v.asRat?))
    | _ => none
  some { name := ← (← s.field1? "name").asString?,
         loc := ← (← s.field1? "loc").mapM? Sexp.asRat?,
         nloc := ← (← s.field1? "nloc").mapM? Sexp.asRat?,
         sparse := (← s.field1? "sparse") == .atom "true",
         glyphs, kerning, groups, info }

def parseAxis (s : Sexp) : Option SAxis :=
  match s with
  | .list [tag, name, mn, df, mx, map] => do
    let map ← map.mapM? fun m =>
      match m with
      | .list [u, d] => do some ((← u.asRat?), (← d.asRat?))
      | _ => none
    some ⟨← tag.asString?, ← name.asString?, ← mn.asRat?, ← df.asRat?, ← mx.asRat?, map⟩
  | _ => none

def parseRule (s : Sexp) : Option SRule :=
  match s with
  | .list [n, css, subs] => do
    let condsets ← css.mapM? fun cs => cs.mapM? fun c =>
      match c with
      | .list [a, lo, hi] => do some ((← a.asNat?), (← parseOptRat lo), (← parseOptRat hi))
      | _ => none
    let subs ← subs.mapM? fun p =>
      match p with
      | .list [a, b] => do some ((← a.asString?), (← b.asString?))
      | _ => none
    some ⟨← n.asString?, condsets, subs⟩
  | _ => none

/-- `s` is the whole case; the design lives in its `(design …)` field. -/
def parseDesign (c : Sexp) : Option Design := do
  let s := Sexp.list (← c.field? "design")
  let order ← match ← s.field1? "order" with
    | .atom "none" => some none
    | o => some <$> o.mapM? Sexp.asString?
  let cps ← (← s.field1? "cps").mapM? fun p =>
    match p with
    | .list [g, cs] => do some ((← g.asString?), (← cs.mapM? Sexp.asNat?))
    | _ => none
  let instances ← (← s.field1? "instances").mapM? fun p =>
    match p with
    | .list [f, st, l] => do some ((← f.asString?), (← st.asString?), (← l.mapM? Sexp.asRat?))
    | _ => none
  some { upem := ← (← s.field1? "upem").asNat?,
         axes := ← (← s.field1? "axes").mapM? parseAxis,
         default := ← (← s.field1? "default").asNat?,
         masters := ← (← s.field1? "masters").mapM? parseMaster,
         order, skip := ← (← s.field1? "skip").mapM? Sexp.asString?,
         cps, instances, rules := ← (← s.field1? "rules").mapM? parseRule }

def SMaster.glyph? (m : SMaster) (n : String) : Option SGlyph := m.glyphs.find? (·.name == n)

/-! ### Font side -/

structure FComp where
  gid : Nat
  flags : Nat
  isXY : Bool
  dx : Int
  dy : Int
  xx : Rat
  yx : Rat
  xy : Rat
  yy : Rat
  deriving Repr, Inhabited

inductive FGlyph where
  | empty
  | simple (bbox : List Int) (ends : List Nat) (pts : List (Int × Int × Bool))
  | composite (bbox : List Int) (comps : List FComp)
  deriving Repr, Inhabited

structure GTuple where
  peak : List Rat
  inter : Option (List Rat × List Rat)
  all : Bool
  deltas : List (Nat × Int × Int)
  deriving Repr, Inhabited

structure IvsData where
  regionIdx : List Nat
  rows : List (List Int)
  deriving Repr, Inhabited

structure Ivs where
  /-- per region, per axis (start, peak, end) -/
  regions : List (List (Rat × Rat × Rat))
  data : List (Option IvsData)
  deriving Repr, Inhabited

structure VarTable where
  ivs : Ivs
  /-- per glyph (outer, inner); none = implicit identity map into subtable 0 -/
  map : Option (List (Nat × Nat))
  deriving Repr, Inhabited

structure Font where
  names : List String
  maxp : List Nat
  head : List Int
  hhea : List Int
  cmap : List (Nat × Nat)
  glyf : List FGlyph
  gvar : Option (List (List GTuple))
  hmtx : List (Nat × Int)
  vmtx : Option (List (Nat × Int))
  hvar : Option VarTable
  vvar : Option VarTable
  mvar : Option (Ivs × List (String × Nat × Nat))
  fvar : List (String × Rat × Rat × Rat × Nat × Nat)
  instances : List (Nat × Option Nat × List Rat)
  avar : Option (List (List (Rat × Rat)))
  os2 : List (String × Sexp)
  post : List (String × Sexp)
  name : List (Nat × Nat × Nat × Nat × String)
  deriving Inhabited

def parseFGlyph (s : Sexp) : Option FGlyph :=
  match s with
  | .list [.atom "empty"] => some .empty
  | .list [.atom "simple", bb, ends, pts] => do
    let pts ← pts.mapM? fun p =>
      match p with
      | .list [x, y, o] => do some ((← x.asInt?), (← y.asInt?), (← o.asNat?) == 1)
      | _ => none
    some (.simple (← bb.mapM? Sexp.asInt?) (← ends.mapM? Sexp.asNat?) pts)
  | .list [.atom "composite", bb, comps] => do
    let comps ← comps.mapM? fun c =>
      match c with
      | .list [g, fl, xy, dx, dy, a, b, c', d] => do
        some (FComp.mk (← g.asNat?) (← fl.asNat?) (xy == .atom "true") (← dx.asInt?) (← dy.asInt?)
          (← a.asRat?) (← b.asRat?) (← c'.asRat?) (← d.asRat?))
      | _ => none
    some (.composite (← bb.mapM? Sexp.asInt?) comps)
  | _ => none

def parseTuple (s : Sexp) : Option GTuple :=
  match s with
  | .list [peak, inter, all, deltas] => do
    let inter ← match inter with
      | .atom "none" => some none
      | .list [a, b] => do some (some ((← a.mapM? Sexp.asRat?), (← b.mapM? Sexp.asRat?)))
      | _ => none
    let deltas ← deltas.mapM? fun d =>
      match d with
      | .list [p, x, y] => do some ((← p.asNat?), (← x.asInt?), (← y.asInt?))
      | _ => none
    some ⟨← peak.mapM? Sexp.asRat?, inter, all == .atom "true", deltas⟩
  | _ => none

def parseIvs (s : Sexp) : Option Ivs := do
  let regions ← (← s.field1? "regions").mapM? fun r => r.mapM? fun a =>
    match a with
    | .list [x, y, z] => do some ((← x.asRat?), (← y.asRat?), (← z.asRat?))
    | _ => none
  let data ← (← s.field1? "data").mapM? fun d =>
    match d with
    | .atom "none" => some none
    | .list [idx, rows] => do
      some (some ⟨← idx.mapM? Sexp.asNat?, ← rows.mapM? (fun r => r.mapM? Sexp.asInt?)⟩)
    | _ => none
  some ⟨regions, data⟩

def parsePairsNat (s : Sexp) : Option (List (Nat × Nat)) :=
  s.mapM? fun p =>
    match p with
    | .list [a, b] => do some ((← a.asNat?), (← b.asNat?))
    | _ => none

def parseVarTable (vs : List Sexp) : Option VarTable :=
  match vs with
  | [ivs, .list [.atom "map", m]] => do
    let map ← match m with
      | .atom "none" => some none
      | m => some <$> parsePairsNat m
    some ⟨← parseIvs ivs, map⟩
  | _ => none

def parseKV (s : Sexp) : Option (List (String × Sexp)) :=
  s.mapM? fun p =>
    match p with
    | .list [.atom k, v] => some (k, v)
    | _ => none

def parseFont (c : Sexp) : Option Font := do
  let s := Sexp.list (← c.field? "font")
  let pairNI (p : Sexp) : Option (Nat × Int) :=
    match p with
    | .list [a, b] => do some ((← a.asNat?), (← b.asInt?))
    | _ => none
  let gvar ← match s.field1? "gvar" with
    | none => some none
    | some g => some <$> g.mapM? (fun ts => ts.mapM? parseTuple)
  let vmtx ← match s.field1? "vmtx" with
    | none => some none
    | some g => some <$> g.mapM? pairNI
  let hvar ← match s.field? "HVAR" with
    | none => some none
    | some vs => some <$> parseVarTable vs
  let vvar ← match s.field? "VVAR" with
    | none => some none
    | some vs => some <$> parseVarTable vs
  let mvar ← match s.field? "MVAR" with
    | none => some none
    | some [ivs, .list [.atom "records", recs]] => do
      let recs ← recs.mapM? fun r =>
        match r with
        | .list [t, o, i] => do some ((← t.asString?), (← o.asNat?), (← i.asNat?))
        | _ => none
      some (some ((← parseIvs ivs), recs))
    | _ => none
  let fvar ← match s.field1? "fvar" with
    | none => some []
    | some f => f.mapM? fun a =>
      match a with
      | .list [t, mn, d, mx, nid, fl] => do
        some ((← t.asString?), (← mn.asRat?), (← d.asRat?), (← mx.asRat?), (← nid.asNat?), (← fl.asNat?))
      | _ => none
  let instances ← match s.field1? "instances" with
    | none => some []
    | some f => f.mapM? fun a =>
      match a with
      | .list [sid, ps, cs] => do
        let ps ← match ps with
          | .atom "none" => some none
          | p => some <$> p.asNat?
        some ((← sid.asNat?), ps, (← cs.mapM? Sexp.asRat?))
      | _ => none
  let avar ← match s.field1? "avar" with
    | none => some none
    | some a => some <$> a.mapM? (fun m => m.mapM? fun p =>
        match p with
        | .list [x, y] => do some ((← x.asRat?), (← y.asRat?))
        | _ => none)
  let name ← match s.field1? "name" with
    | none => some []
    | some n => n.mapM? fun r =>
      match r with
      | .list [i, p, e, l, st] => do some ((← i.asNat?), (← p.asNat?), (← e.asNat?), (← l.asNat?), (← st.asString?))
      | _ => none
  some { names := ← (← s.field1? "names").mapM? Sexp.asString?,
         maxp := ← (← s.field1? "maxp").mapM? Sexp.asNat?,
         head := ← (← s.field1? "head").mapM? Sexp.asInt?,
         hhea := ← (← s.field1? "hhea").mapM? Sexp.asInt?,
         cmap := ← parsePairsNat (← s.field1? "cmap"),
         glyf := ← (← s.field1? "glyf").mapM? parseFGlyph,
         gvar,
         hmtx := ← (← s.field1? "hmtx").mapM? pairNI,
         vmtx, hvar, vvar, mvar, fvar, instances, avar,
         os2 := (s.field1? "OS2").bind parseKV |>.getD [],
         post := (s.field1? "post").bind parseKV |>.getD [],
         name }

def Font.gidOf? (f : Font) (n : String) : Option Nat := f.names.idxOf? n

end Fontc.E2E
