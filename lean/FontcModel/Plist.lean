/-
  C20 — model of the OpenStep ("ASCII") property-list reader of glyphs-reader
  (`/repo/glyphs-reader/src/plist.rs`), for the untyped value grammar `Plist::parse`:

      value  ::= dict | array | quoted-string | bare-word | <hex data>
      dict   ::= '{' (key '=' value ';')* '}'
      array  ::= '(' ')' | '(' value (',' value)* [','] ')'

  and a printer parameterised by a *style* (whitespace everywhere the reader skips it, quotes where
  they are optional, one of five renderings per character of a quoted string, hex digit case,
  trailing comma).  Dictionary key order is not part of the style: a dictionary value is an
  association list in *written* order, `canon` is what the reader's `BTreeMap` makes of it.

  The Rust code works on the UTF-8 bytes of a `&str`.  Every byte of a multi-byte character is
  ≥ 0x80 and none of the byte tests of the reader is true of such a byte, so reading characters
  (`List Char`) instead of bytes gives the same result; this is exercised by the `c20plist` stream
  with non-ASCII text.  Errors are collapsed to `none`.

  Core Lean only (linked into the native driver).
-/
namespace Fontc.Plist

abbrev Key := List Char

/-- `Plist` (plist.rs:17).  `flt` keeps the *text* of a bare word that the reader turns into an
    `f64` (the decimal → binary conversion itself is not modelled). -/
inductive PVal where
  | dict (kvs : List (Key × PVal))
  | arr (xs : List PVal)
  | str (s : List Char)
  | int (i : Int)
  | flt (text : List Char)
  | data (bs : List UInt8)
  deriving Repr, BEq, Inhabited

/-! ## character classes (plist.rs:88-116) -/

def isDigit (c : Char) : Bool := 48 ≤ c.toNat && c.toNat ≤ 57
def isUpper (c : Char) : Bool := 65 ≤ c.toNat && c.toNat ≤ 90
def isLower (c : Char) : Bool := 97 ≤ c.toNat && c.toNat ≤ 122
/-- plist.rs:88 `is_numeric` -/
def isNumericCh (c : Char) : Bool := isDigit c || c == '.' || c == '-'
/-- plist.rs:92 `is_alnum`: the characters of a bare word -/
def isAlnum (c : Char) : Bool :=
  isNumericCh c || isUpper c || isLower c || c == '_' || c == '$' || c == '/' || c == ':' || c == '.' || c == '-'
/-- plist.rs:110 `is_hex_upper` -/
def isHexUpper (c : Char) : Bool := isDigit c || (65 ≤ c.toNat && c.toNat ≤ 70)
/-- plist.rs:114 `is_ascii_whitespace` -/
def isWs (c : Char) : Bool := c == ' ' || c == '\t' || c == '\r' || c == '\n'

/-- `char::to_digit(16)` / `byte_from_hex` (plist.rs:423) -/
def hexVal (c : Char) : Option Nat :=
  let n := c.toNat
  if 48 ≤ n && n ≤ 57 then some (n - 48)
  else if 97 ≤ n && n ≤ 102 then some (n - 87)
  else if 65 ≤ n && n ≤ 70 then some (n - 55)
  else none

def hexDigitCh (n : Nat) (upper : Bool) : Char :=
  if n < 10 then Char.ofNat (48 + n) else if upper then Char.ofNat (55 + n) else Char.ofNat (87 + n)

def digitCh (n : Nat) : Char := Char.ofNat (48 + n)

/-! ## numbers in bare words (plist.rs:118 `numeric_ok`, :332 `parse_atom`) -/

def asciiLower (c : Char) : Char := if isUpper c then Char.ofNat (c.toNat + 32) else c
def eqIgnoreCase (s lit : List Char) : Bool := s.map asciiLower == lit
def isInfNan (s : List Char) : Bool :=
  eqIgnoreCase s ['i', 'n', 'f'] || eqIgnoreCase s ['i', 'n', 'f', 'i', 'n', 'i', 't', 'y'] ||
  eqIgnoreCase s ['n', 'a', 'n']

/-- plist.rs:118.  (The quote-stripping branch drops only the *leading* quote — `&s[1..s.len()]` —
    exactly as the code does; it cannot fire for a bare word, which has no `"`.) -/
def numericOk (s : List Char) : Bool :=
  if s.isEmpty then false else
  let s := if s.length > 1 && s.head? == some '"' && s.getLast? == some '"' then s.tail else s
  if s.all isHexUpper && !s.all isDigit then false
  else if s.length > 1 && s.head? == some '0' then !s.all isDigit
  else if isInfNan s then false
  else true

def digitsVal (ds : List Char) : Nat := ds.foldl (fun a c => a * 10 + (c.toNat - 48)) 0

def stripSign : List Char → List Char
  | '-' :: t => t
  | '+' :: t => t
  | s => s

/-- `str::parse::<i64>`: optional sign, at least one digit, nothing else, value in range. -/
def parseI64 (s : List Char) : Option Int :=
  let ds := stripSign s
  if ds.isEmpty || !ds.all isDigit then none else
  let v : Int := if s.head? == some '-' then -(digitsVal ds : Int) else (digitsVal ds : Int)
  if -9223372036854775808 ≤ v && v ≤ 9223372036854775807 then some v else none

/-- unsigned part of Rust's float grammar: `Digit* ['.' Digit*] [('e'|'E') [sign] Digit+]`, at least
    one digit in the mantissa (core::num::dec2flt::parse) -/
def decimalShape (b : List Char) : Bool :=
  let ip := b.takeWhile isDigit
  let r1 := b.dropWhile isDigit
  let fr : List Char × List Char :=
    match r1 with
    | '.' :: t => (t.takeWhile isDigit, t.dropWhile isDigit)
    | _ => ([], r1)
  if ip.length + fr.1.length == 0 then false else
  match fr.2 with
  | [] => true
  | e :: t =>
    if e == 'e' || e == 'E' then
      let d := stripSign t
      !d.isEmpty && d.all isDigit
    else false

/-- does `str::parse::<f64>` accept the text? -/
def f64Shape (s : List Char) : Bool :=
  let b := stripSign s
  if s.isEmpty || b.isEmpty then false else decimalShape b || isInfNan b

/-- plist.rs:332 -/
def parseAtom (s : List Char) : PVal :=
  if numericOk s then
    match parseI64 s with
    | some i => .int i
    | none => if f64Shape s then .flt s else .str s
  else .str s

/-! ## tokens (plist.rs:437 `Token::lex`) -/

inductive Tok where
  | eof | openBrace | openParen
  | data (bs : List UInt8)
  | str (s : List Char)
  | atom (s : List Char)
  deriving Repr, BEq, DecidableEq

/-- plist.rs:146 -/
def skipWs (s : List Char) : List Char := s.dropWhile isWs

/-- plist.rs:533 `Token::expect` -/
def expect (s : List Char) (d : Char) : Option (List Char) :=
  match skipWs s with
  | c :: r => if c == d then some r else none
  | [] => none

def isSurrogate (v : Nat) : Bool := 0xD800 ≤ v && v ≤ 0xDFFF

/-- up to `k` hex digits, accumulating (plist.rs:613, the `take(4).map_while(..).fold(..)` part) -/
def hexRun : Nat → List Char → Nat → Nat × List Char
  | 0, s, acc => (acc, s)
  | _ + 1, [], acc => (acc, [])
  | k + 1, c :: s, acc =>
    match hexVal c with
    | some d => hexRun k s (acc * 16 + d)
    | none => (acc, c :: s)

/-- plist.rs:613 `parse_hex_digit`: error unless the first character is a hex digit -/
def hex4 (s : List Char) : Option (Nat × List Char) :=
  match s with
  | [] => none
  | c :: _ => if (hexVal c).isSome then some (hexRun 4 s 0) else none

def scalar? (v : Nat) : Option Char :=
  if v < 0xD800 || (0xE000 ≤ v && v < 0x110000) then some (Char.ofNat v) else none

/-- `char::decode_utf16([hi, lo])` -/
def decodePair (hi lo : Nat) : Option Char :=
  if 0xD800 ≤ hi && hi ≤ 0xDBFF && 0xDC00 ≤ lo && lo ≤ 0xDFFF then
    scalar? (0x10000 + (hi - 0xD800) * 1024 + (lo - 0xDC00))
  else none

def isOct (c : Char) : Bool := 48 ≤ c.toNat && c.toNat ≤ 55

/-- plist.rs:556 `parse_escape`; the argument is the text *after* the backslash, the result the
    character and the text after the escape. -/
def parseEscape (r : List Char) : Option (Char × List Char) :=
  match r with
  | [] => none
  | b :: t =>
    if b == '"' || b == '\\' then some (b, t)
    else if b == 'n' then some ('\n', t)
    else if b == 'r' then some ('\r', t)
    else if b == 't' then some ('\t', t)
    else if b == 'U' && !t.isEmpty then
      match hex4 t with
      | none => none
      | some (v, t1) =>
        if !isSurrogate v || !(t1.take 2 == ['\\', 'U']) then (scalar? v).map (·, t1)
        else
          match hex4 (t1.drop 2) with
          | none => none
          | some (v2, t3) => (decodePair v v2).map (·, t3)
    else if 48 ≤ b.toNat && b.toNat ≤ 51 && t.length ≥ 2 then
      match t with
      | b1 :: b2 :: t' =>
        if isOct b1 && isOct b2 then
          some (Char.ofNat ((b.toNat - 48) * 64 + (b1.toNat - 48) * 8 + (b2.toNat - 48)), t')
        else none
      | _ => none
    else none

/-- the loop of the `b'"'` arm of `Token::lex` (plist.rs:463); `fuel` bounds the iterations -/
def lexQuoted : Nat → List Char → List Char → Option (List Char × List Char)
  | 0, _, _ => none
  | _ + 1, _, [] => none
  | f + 1, acc, c :: r =>
    if c == '"' then some (acc.reverse, r)
    else if c == '\\' then
      match parseEscape r with
      | none => none
      | some (e, r') => lexQuoted f (e :: acc) r'
    else lexQuoted f (c :: acc) r

def hexPairs : List Char → Option (List UInt8)
  | [] => some []
  | [_] => none
  | a :: b :: rest =>
    match hexVal a, hexVal b, hexPairs rest with
    | some x, some y, some tl => some (UInt8.ofNat (x * 16 + y) :: tl)
    | _, _, _ => none

/-- the `b'<'` arm (plist.rs:447) -/
def lexData (r : List Char) : Option (List UInt8 × List Char) :=
  match r.dropWhile (· != '>') with
  | [] => none
  | _ :: rest => (hexPairs (r.takeWhile (· != '>'))).map (·, rest)

/-- plist.rs:438 -/
def lex (s : List Char) : Option (Tok × List Char) :=
  match skipWs s with
  | [] => some (.eof, [])
  | c :: r =>
    if c == '{' then some (.openBrace, r)
    else if c == '(' then some (.openParen, r)
    else if c == '<' then (lexData r).map fun (bs, r') => (.data bs, r')
    else if c == '"' then (lexQuoted r.length [] r).map fun (t, r') => (.str t, r')
    else if isAlnum c then some (.atom ((c :: r).takeWhile isAlnum), (c :: r).dropWhile isAlnum)
    else none

/-- plist.rs:512 `try_into_smolstr`: a key is the raw text of a bare word or a quoted string -/
def Tok.asKey : Tok → Option Key
  | .atom s => some s
  | .str s => some s
  | _ => none

/-! ## dictionaries: `BTreeMap<SmolStr, Plist>` as a key-sorted association list -/

/-- `str::cmp` (bytewise on UTF-8 = lexicographic by code point) -/
def keyLt : Key → Key → Bool
  | [], [] => false
  | [], _ :: _ => true
  | _ :: _, [] => false
  | a :: as, b :: bs => a.toNat < b.toNat || (a.toNat == b.toNat && keyLt as bs)

/-- `BTreeMap::insert`: replaces the value of an existing key -/
def insertKV (k : Key) (v : PVal) : List (Key × PVal) → List (Key × PVal)
  | [] => [(k, v)]
  | (k', v') :: m =>
    if keyLt k k' then (k, v) :: (k', v') :: m
    else if k == k' then (k, v) :: m
    else (k', v') :: insertKV k v m

/-! ## the reader (plist.rs:280 `parse_rec`).  One unit of fuel per call / loop iteration; every
    call consumes at least one character, so `length + 1` never runs out (`parse`). -/

mutual
def parseRec : Nat → List Char → Option (PVal × List Char)
  | 0, _ => none
  | f + 1, s =>
    match lex s with
    | none => none
    | some (.atom a, r) => some (parseAtom a, r)
    | some (.str t, r) => some (.str t, r)
    | some (.data bs, r) => some (.data bs, r)
    | some (.openBrace, r) => parseDict f [] r
    | some (.openParen, r) => parseArr f [] r
    | some (.eof, _) => none
def parseDict : Nat → List (Key × PVal) → List Char → Option (PVal × List Char)
  | 0, _, _ => none
  | f + 1, m, s =>
    match expect s '}' with
    | some r => some (.dict m, r)
    | none =>
      match lex s with
      | none => none
      | some (k, r1) =>
        match k.asKey with
        | none => none
        | some key =>
          match expect r1 '=' with
          | none => none
          | some r2 =>
            match parseRec f r2 with
            | none => none
            | some (v, r3) =>
              match expect r3 ';' with
              | none => none
              | some r4 => parseDict f (insertKV key v m) r4
/-- `acc` is the list so far, reversed -/
def parseArr : Nat → List PVal → List Char → Option (PVal × List Char)
  | 0, _, _ => none
  | f + 1, acc, s =>
    match expect s ')' with
    | some r => some (.arr acc.reverse, r)
    | none =>
      match parseRec f s with
      | none => none
      | some (v, r1) =>
        match expect r1 ')' with
        | some r => some (.arr (v :: acc).reverse, r)
        | none =>
          match expect r1 ',' with
          | none => none
          | some r2 =>
            match expect r2 ')' with
            | some r => some (.arr (v :: acc).reverse, r)
            | none => parseArr f (v :: acc) r2
end

/-- `Plist::parse` (plist.rs:178): whatever follows the first value is ignored
    ("TODO: check that we're actually at eof"). -/
def parse (s : List Char) : Option PVal := (parseRec (s.length + 1) s).map (·.1)

/-! ## what the reader makes of a written value -/

mutual
/-- dictionaries become key-sorted, a repeated key keeps its last value -/
def canon : PVal → PVal
  | .dict kvs => .dict (canonE kvs [])
  | .arr xs => .arr (canonL xs)
  | .str s => .str s
  | .int i => .int i
  | .flt t => .flt t
  | .data bs => .data bs
def canonL : List PVal → List PVal
  | [] => []
  | x :: xs => canon x :: canonL xs
def canonE : List (Key × PVal) → List (Key × PVal) → List (Key × PVal)
  | [], m => m
  | (k, v) :: kvs, m => canonE kvs (insertKV k (canon v) m)
end

/-- a bare word that reads back as a float and not as an integer or a string -/
def isFloatAtom (t : List Char) : Bool :=
  !t.isEmpty && t.all isAlnum && numericOk t && (parseI64 t).isNone && f64Shape t

mutual
/-- the invariants of the Rust types: integers are `i64`, floats come from float text -/
def valid : PVal → Bool
  | .dict kvs => validE kvs
  | .arr xs => validL xs
  | .int i => -9223372036854775808 ≤ i && i ≤ 9223372036854775807
  | .flt t => isFloatAtom t
  | .str _ => true
  | .data _ => true
def validL : List PVal → Bool
  | [] => true
  | x :: xs => valid x && validL xs
def validE : List (Key × PVal) → Bool
  | [] => true
  | (_, v) :: kvs => valid v && validE kvs
end

/-- strictly ascending keys -/
def sortedKeys : List (Key × PVal) → Bool
  | [] => true
  | [_] => true
  | (k₁, _) :: (k₂, v₂) :: m => keyLt k₁ k₂ && sortedKeys ((k₂, v₂) :: m)

mutual
/-- every dictionary, at every depth, is in the reader's order (hence has distinct keys) -/
def canonical : PVal → Bool
  | .dict kvs => sortedKeys kvs && canonicalE kvs
  | .arr xs => canonicalL xs
  | _ => true
def canonicalL : List PVal → Bool
  | [] => true
  | x :: xs => canonical x && canonicalL xs
def canonicalE : List (Key × PVal) → Bool
  | [] => true
  | (_, v) :: kvs => canonical v && canonicalE kvs
end

/-! ## the printer -/

/-- how one character of a quoted string is written -/
inductive Esc where
  | raw                     -- the character itself (not possible for `"` and `\`)
  | short                   -- `\"` `\\` `\n` `\r` `\t`
  | octal                   -- `\ooo`, code points below 256
  | uni (upper : Bool)      -- `\Uhhhh`, or a surrogate pair `\Uhhhh\Uhhhh` above the BMP
  deriving Repr, BEq, Inhabited

/-- the choices at one node of the value tree.  Whitespace fields may hold anything: only their
    whitespace characters are used. -/
structure NodeStyle where
  pre : List Char := []            -- before the value's first token
  post : List Char := []           -- after the value, before the `,` `;` `)` that follows it
  bare : Bool := true              -- string: leave out the quotes when that is allowed
  esc : List Esc := []             -- quoted string: per character (missing = raw)
  upper : List Bool := []          -- data: case of each hex digit (missing = lower)
  close : List Char := []          -- array/dict: before the closing bracket
  trailingComma : Bool := false    -- array: `,` after the last element
  keyPre : List Char := []         -- when the node is the value of a dict entry: before its key
  keyBare : Bool := true
  keyEsc : List Esc := []
  eqPre : List Char := []          -- between the key and `=`
  deriving Inhabited

/-- a style assigns choices to every node, addressed by its path of child indices from the root:
    every function is a style -/
abbrev Style := List Nat → NodeStyle

def Style.sub (st : Style) (i : Nat) : Style := fun p => st (i :: p)

def ws (l : List Char) : List Char := l.filter isWs

def shortEsc (c : Char) : List Char :=
  if c == '"' then ['\\', '"'] else if c == '\\' then ['\\', '\\']
  else if c == '\n' then ['\\', 'n'] else if c == '\r' then ['\\', 'r']
  else if c == '\t' then ['\\', 't'] else [c]

def rawEsc (c : Char) : List Char := if c == '"' || c == '\\' then shortEsc c else [c]

def hex4Digits (v : Nat) (u : Bool) : List Char :=
  [hexDigitCh (v / 4096 % 16) u, hexDigitCh (v / 256 % 16) u, hexDigitCh (v / 16 % 16) u, hexDigitCh (v % 16) u]

def escChar (c : Char) : Esc → List Char
  | .raw => rawEsc c
  | .short => shortEsc c
  | .octal =>
    if c.toNat < 256 then ['\\', digitCh (c.toNat / 64), digitCh (c.toNat / 8 % 8), digitCh (c.toNat % 8)]
    else rawEsc c
  | .uni u =>
    if c.toNat < 0x10000 then '\\' :: 'U' :: hex4Digits c.toNat u
    else
      let w := c.toNat - 0x10000
      '\\' :: 'U' :: hex4Digits (0xD800 + w / 1024) u ++ '\\' :: 'U' :: hex4Digits (0xDC00 + w % 1024) u

def quotedBody : List Char → List Esc → List Char
  | [], _ => []
  | c :: cs, es => escChar c (es.headD .raw) ++ quotedBody cs es.tail

def printQuoted (s : List Char) (es : List Esc) : List Char := '"' :: quotedBody s es ++ ['"']

/-- would `parse_atom` (plist.rs:332) turn the bare word into a number? -/
def looksNumeric (s : List Char) : Bool := numericOk s && ((parseI64 s).isSome || f64Shape s)

/-- may a *value* string be written without quotes?  Exactly when the tokenizer takes the whole word as
    one bare word (plist.rs:496) and `parse_atom` leaves it a string. -/
def bareOk (s : List Char) : Bool := !s.isEmpty && s.all isAlnum && !looksNumeric s

/-- may a dictionary *key* be written without quotes?  (keys are never read as numbers) -/
def bareKeyOk (s : List Char) : Bool := !s.isEmpty && s.all isAlnum

/-- decimal digits, most significant first (`fuel ≥ n` is plenty) -/
def natDigitsAux : Nat → Nat → List Char
  | 0, n => [digitCh (n % 10)]
  | f + 1, n => if n < 10 then [digitCh n] else natDigitsAux f (n / 10) ++ [digitCh (n % 10)]

def natDigits (n : Nat) : List Char := natDigitsAux n n

def intText (i : Int) : List Char :=
  if i < 0 then '-' :: natDigits i.natAbs else natDigits i.natAbs

def hexBytes : List UInt8 → List Bool → List Char
  | [], _ => []
  | b :: bs, us =>
    hexDigitCh (b.toNat / 16) (us.headD false) :: hexDigitCh (b.toNat % 16) (us.tail.headD false) ::
      hexBytes bs us.tail.tail

def printStr (s : List Char) (n : NodeStyle) : List Char :=
  if n.bare && bareOk s then s else printQuoted s n.esc

def printKey (k : Key) (n : NodeStyle) : List Char :=
  if n.keyBare && bareKeyOk k then k else printQuoted k n.keyEsc

mutual
def printVal : PVal → Style → List Char
  | .str s, st => ws (st []).pre ++ printStr s (st [])
  | .int i, st => ws (st []).pre ++ intText i
  | .flt t, st => ws (st []).pre ++ t
  | .data bs, st => ws (st []).pre ++ '<' :: hexBytes bs (st []).upper ++ ['>']
  | .arr xs, st => ws (st []).pre ++ '(' :: printItems xs st 0 ++ ws (st []).close ++ [')']
  | .dict kvs, st => ws (st []).pre ++ '{' :: printEntries kvs st 0 ++ ws (st []).close ++ ['}']
def printItems : List PVal → Style → Nat → List Char
  | [], _, _ => []
  | x :: xs, st, i =>
    printVal x (st.sub i) ++ ws (st [i]).post ++
      (match xs with
       | [] => if (st []).trailingComma then [','] else []
       | _ :: _ => ',' :: printItems xs st (i + 1))
def printEntries : List (Key × PVal) → Style → Nat → List Char
  | [], _, _ => []
  | (k, v) :: kvs, st, i =>
    ws (st [i]).keyPre ++ printKey k (st [i]) ++ ws (st [i]).eqPre ++ '=' :: printVal v (st.sub i) ++
      ws (st [i]).post ++ ';' :: printEntries kvs st (i + 1)
end

/-- the text of `v` in style `st` (trailing whitespace from the root's `post`) -/
def print (v : PVal) (st : Style) : List Char := printVal v st ++ ws (st []).post

/-! ## `.glyphspackage` at the value level (glyphs-reader/src/font.rs:2254 `load_package`) -/

def lookupKV (k : Key) : List (Key × PVal) → Option PVal
  | [] => none
  | (k', v) :: m => if k == k' then some v else lookupKV k m

def eraseKV (k : Key) : List (Key × PVal) → List (Key × PVal)
  | [] => []
  | (k', v) :: m => if k == k' then eraseKV k m else (k', v) :: eraseKV k m

def kGlyphs : Key := "glyphs".toList
def kGlyphname : Key := "glyphname".toList

/-- `RawGlyph.glyphname`, required non-empty (font.rs:2276) -/
def glyphName? : PVal → Option Key
  | .dict kvs =>
    match lookupKV kGlyphname kvs with
    | some (.str s) => if s.isEmpty then none else some s
    | _ => none
  | _ => none

structure Package where
  /-- `fontinfo.plist`: the top-level dictionary without `glyphs` -/
  fontinfo : PVal
  /-- `order.plist`: array of glyph names (optional) -/
  order : Option PVal
  /-- the `glyphs/*.glyph` files, in directory (= arbitrary) order -/
  glyphFiles : List PVal

def namesOf : List PVal → Option (List Key)
  | [] => some []
  | g :: gs =>
    match glyphName? g, namesOf gs with
    | some n, some ns => some (n :: ns)
    | _, _ => none

/-- split a single-file value the way Glyphs.app writes a package -/
def split (v : PVal) : Option Package :=
  match v with
  | .dict kvs =>
    match lookupKV kGlyphs kvs with
    | some (.arr gs) =>
      match namesOf gs with
      | some names => some ⟨.dict (eraseKV kGlyphs kvs), some (.arr (names.map .str)), gs⟩
      | none => none
    | _ => none
  | _ => none

/-- `HashMap::insert` per file: a later file with the same `glyphname` replaces the earlier one -/
def collectGlyphs : List PVal → List (Key × PVal) → Option (List (Key × PVal))
  | [], m => some m
  | g :: gs, m =>
    match glyphName? g with
    | none => none
    | some n => collectGlyphs gs (insertKV n g m)

/-- font.rs:2297: for each name in `order.plist` that names a glyph file, take that glyph -/
def takeOrdered : List PVal → List (Key × PVal) → Option (List PVal × List (Key × PVal))
  | [], m => some ([], m)
  | .str n :: ns, m =>
    match lookupKV n m with
    | some g =>
      match takeOrdered ns (eraseKV n m) with
      | some (gs, m') => some (g :: gs, m')
      | none => none
    | none => takeOrdered ns m
  | _ :: _, _ => none   -- `expect_string` fails

/-- font.rs:2254-2319 at the value level: glyphs in `order.plist` order, the rest by name
    (`collectGlyphs` keeps its map key-sorted, so "the rest" is already in name order). -/
def reassemble (p : Package) : Option PVal :=
  match p.fontinfo, collectGlyphs p.glyphFiles [] with
  | .dict info, some m =>
    let ordered : Option (List PVal × List (Key × PVal)) :=
      match p.order with
      | none => some ([], m)
      | some (.arr names) => takeOrdered names m
      | some _ => none
    match ordered with
    | some (gs, restm) => some (.dict (insertKV kGlyphs (.arr (gs ++ restm.map (·.2))) info))
    | none => none
  | _, _ => none

/-! ## the `unicode` entry of a glyph, as the *typed* reader sees it
    (glyphs-reader/src/font.rs:3798 `preprocess_unparsed_plist`, :1522 `unicode: Option<String>`, :2693) -/

/-- regex `\s` on ASCII -/
def reWs (c : Char) : Bool := c == ' ' || c == '\t' || c == '\n' || c == '\r' || c.toNat == 11 || c.toNat == 12
/-- regex `[0-9a-zA-Z,]` -/
def isValCh (c : Char) : Bool := isDigit c || isUpper c || isLower c || c == ','

def dropLit : List Char → List Char → Option (List Char)
  | [], s => some s
  | _ :: _, [] => none
  | a :: lit, c :: s => if a == c then dropLit lit s else none

/-- one line against `^\s*unicode\s*=\s*[(]?[0-9a-zA-Z,]+[)]?;\s*$`: the text up to and including the
    whitespace after `=` (`$prefix`), and `$value`.  (The classes are disjoint from what follows them, so
    greedy matching is exact.) -/
def matchUnicodeLine (line : List Char) : Option (List Char × List Char) :=
  match dropLit "unicode".toList (line.dropWhile reWs) with
  | none => none
  | some s1 =>
    match s1.dropWhile reWs with
    | '=' :: s3 =>
      let s4 := s3.dropWhile reWs
      let s5 := match s4 with
        | '(' :: t => t
        | t => t
      let value := s5.takeWhile isValCh
      let s6 := s5.dropWhile isValCh
      if value.isEmpty then none else
      let s7 := match s6 with
        | ')' :: t => t
        | t => t
      match s7 with
      | ';' :: s8 => if (s8.dropWhile reWs).isEmpty then some (line.take (line.length - s4.length), value) else none
      | _ => none
    | _ => none

def splitLinesAux : List Char → List Char → List (List Char)
  | [], cur => [cur.reverse]
  | c :: s, cur => if c == '\n' then cur.reverse :: splitLinesAux s [] else splitLinesAux s (c :: cur)

def splitLines (s : List Char) : List (List Char) := splitLinesAux s []

def joinLines : List (List Char) → List Char
  | [] => []
  | [l] => l
  | l :: ls => l ++ '\n' :: joinLines ls

/-- `preprocess_unparsed_plist`: matching lines become `$prefix"$value";` -/
def preprocessUnicode (text : List Char) : List Char :=
  joinLines ((splitLines text).map fun line =>
    match matchUnicodeLine line with
    | some (pre, value) => pre ++ '"' :: value ++ ['"', ';']
    | none => line)

/-- `String::parse` (plist.rs:894): a bare word or a quoted string, anything else is an error -/
def readStringTok (s : List Char) : Option (List Char × List Char) :=
  match lex s with
  | some (.atom a, r) => some (a, r)
  | some (.str t, r) => some (t, r)
  | _ => none

/-- the raw `unicode` string of a glyph whose dictionary contains the entry text `entry`
    (`key = value;`); `none` = the source does not load -/
def typedUnicodeRaw (entry : List Char) : Option (List Char) :=
  match lex (preprocessUnicode entry) with
  | some (k, r1) =>
    match k.asKey with
    | some key =>
      if key == "unicode".toList then
        match expect r1 '=' with
        | some r2 =>
          match readStringTok r2 with
          | some (v, r3) => (expect r3 ';').map fun _ => v
          | none => none
        | none => none
      else none
    | none => none
  | none => none

def radixVal (radix : Nat) (c : Char) : Option Nat :=
  match hexVal c with
  | some d => if d < radix then some d else none
  | none => none

/-- `u32::from_str_radix` (an optional `+`, at least one digit, below 2^32) -/
def parseRadix (radix : Nat) (s : List Char) : Option Nat :=
  let ds := match s with
    | '+' :: t => t
    | t => t
  if ds.isEmpty then none else
  match ds.mapM (radixVal radix) with
  | some vs =>
    let n := vs.foldl (fun a d => a * radix + d) 0
    if n < 4294967296 then some n else none
  | none => none

def splitOn (sep : Char) (s : List Char) : List (List Char) :=
  let step (c : Char) (acc : List (List Char)) : List (List Char) :=
    if c == sep then [] :: acc
    else match acc with
      | [] => [[c]]
      | w :: ws => (c :: w) :: ws
  s.foldr step [[]]

/-- `parse_codepoint_str` (font.rs:2693): `none` = one of the `unwrap`s panics -/
def codepoints (radix : Nat) (raw : List Char) : Option (List Nat) :=
  (splitOn ',' raw).mapM (parseRadix radix)

end Fontc.Plist
