/-
  Confluence of a task graph (Mazurkiewicz trace equivalence), the missing step between C02 and C01.

  fontc's build context (`fontir::orchestration::Context` / `fontbe::orchestration::Context`) is a store of items
  (context entries, keyed by `WorkId`); a job (`Work::exec`) reads the entries its read access allows, computes, and
  sets the entries its write access allows (`Context::set`, checked against `Access` in fontdrasil/src/orchestration.rs).
  The scheduler (workload.rs, modelled in FontcModel/Sched.lean) decides only the ORDER in which jobs run.

  This file is the abstract setting: a store, jobs with declared read / write sets, sequential execution of a schedule
  (a list of jobs).  A parallel run of the real scheduler is represented by a sequential run of one of its
  linearisations; that is adequate when conflicting jobs never overlap in time, which is what the c02 stream checks on
  the recorded accesses (Driver/C02 clause (c)) — it is not proved here.  The theorems (FontcProofs/Confluence.lean,
  FontcProps/C01.lean) say: two schedules of the same jobs that order every conflicting pair the same way end in the
  same store.

  Definitions only.  Core Lean only.
-/

namespace Fontc.Confluence

/-- a context entry key (`WorkId`, numbered) -/
abbrev Item := Nat

/-- the build context: which entries are set, and to what -/
abbrev Store (Val : Type) := Item → Option Val

/-- One unit of work: an identity, the declared read and write access (as finite item lists), and what it computes:
    from the store, the list of `Context::set` calls it makes, in order. -/
structure Job (Val : Type) where
  id : Nat
  reads : List Item
  writes : List Item
  run : Store Val → List (Item × Val)

/-- Well-formedness = what the `Access` checks of the context enforce (reads outside the read access and writes outside
    the write access panic): the writes a job makes are a function of the entries in its read set only, and it only
    sets entries of its write set. -/
structure WF {Val : Type} (j : Job Val) : Prop where
  reads_only : ∀ s s' : Store Val, (∀ i ∈ j.reads, s i = s' i) → j.run s = j.run s'
  writes_only : ∀ (s : Store Val) (p : Item × Val), p ∈ j.run s → p.1 ∈ j.writes

/-- the value the LAST write to `x` in `ws` sets, if `ws` writes `x` at all -/
def lastWrite {Val : Type} : List (Item × Val) → Item → Option Val
  | [], _ => none
  | (i, v) :: ws, x =>
    match lastWrite ws x with
    | some w => some w
    | none => if i = x then some v else none

/-- perform a list of writes (later writes win) -/
def Store.write {Val : Type} (s : Store Val) (ws : List (Item × Val)) : Store Val :=
  fun x => match lastWrite ws x with
    | some v => some v
    | none => s x

/-- run one job on a store -/
def exec {Val : Type} (j : Job Val) (s : Store Val) : Store Val := s.write (j.run s)

/-- run a schedule (a list of jobs, first job first) -/
def execAll {Val : Type} (js : List (Job Val)) (s : Store Val) : Store Val :=
  js.foldl (fun s j => exec j s) s

/-- `l₁` and `l₂` share an item -/
def meets (l₁ l₂ : List Item) : Bool := l₁.any (fun i => l₂.contains i)

/-- two jobs conflict: one may write an item the other may read or write -/
def conflict {Val : Type} (j k : Job Val) : Bool :=
  meets j.writes (k.reads ++ k.writes) || meets k.writes (j.reads ++ j.writes)

/-- independent = not conflicting -/
def indep {Val : Type} (j k : Job Val) : Prop := conflict j k = false

instance {Val : Type} (j k : Job Val) : Decidable (indep j k) := by unfold indep; infer_instance

/-- the ids of a schedule, in order -/
def ids {Val : Type} (l : List (Job Val)) : List Nat := l.map (·.id)

/-- `j` runs before `k` in schedule `l` (jobs are identified by their ids, which are pairwise distinct in a schedule) -/
def Before {Val : Type} (l : List (Job Val)) (j k : Job Val) : Prop := [j.id, k.id].Sublist (ids l)

instance {Val : Type} (l : List (Job Val)) (j k : Job Val) : Decidable (Before l j k) := by
  unfold Before; infer_instance

/-- schedule `l` is a linearisation of the order `mustPrecede`: whenever `j` must precede `k` (both in `l`), it does -/
def Respects {Val : Type} (mustPrecede : Job Val → Job Val → Prop) (l : List (Job Val)) : Prop :=
  ∀ j ∈ l, ∀ k ∈ l, mustPrecede j k → Before l j k

/-- `l₁` and `l₂` order every conflicting pair of (distinct) jobs the same way -/
def SameConflictOrder {Val : Type} (l₁ l₂ : List (Job Val)) : Prop :=
  ∀ j ∈ l₁, ∀ k ∈ l₁, conflict j k = true → (Before l₁ j k ↔ Before l₂ j k)

end Fontc.Confluence
