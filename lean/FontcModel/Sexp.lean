/-
  S-expression wire format shared by the Rust harness and the Lean driver.

  One case per line:   (stream id (key value…) …)
  Atoms:  decimal integers  `-12`
          exact binary floats `m:e`  meaning m·2^e (m, e decimal integers)
          rationals `n/d`
          hex strings `x48656c6c6f` (UTF-8 bytes; empty string = `x`)
          bare words `ok`, `err`, `none` …
  No Mathlib / Batteries imports here: this file is linked into the native driver.
-/

namespace Fontc

inductive Sexp where
  | atom (s : String)
  | list (xs : List Sexp)
  deriving Repr, Inhabited, BEq

namespace Sexp

/-- Tokeniser: parentheses are their own tokens, everything else is split on whitespace. -/
def tokens (s : String) : List String :=
  let rec go (cs : List Char) (cur : List Char) (acc : List String) : List String :=
    let flush (cur : List Char) (acc : List String) : List String :=
      if cur.isEmpty then acc else String.ofList cur.reverse :: acc
    match cs with
    | [] => (flush cur acc).reverse
    | c :: rest =>
      if c == '(' || c == ')' then go rest [] (String.singleton c :: flush cur acc)
      else if c == ' ' || c == '\t' || c == '\n' || c == '\r' then go rest [] (flush cur acc)
      else go rest (c :: cur) acc
  go s.toList [] []

/-- Parse a token list with an explicit stack (no recursion on nesting depth). -/
def parseTokens (ts : List String) : Option Sexp :=
  let rec go (ts : List String) (stack : List (List Sexp)) : Option Sexp :=
    match ts with
    | [] =>
      match stack with
      | [[x]] => some x
      | _ => none
    | t :: rest =>
      if t == "(" then go rest ([] :: stack)
      else if t == ")" then
        match stack with
        | top :: parent :: more => go rest ((Sexp.list top.reverse :: parent) :: more)
        | _ => none
      else
        match stack with
        | top :: more => go rest ((Sexp.atom t :: top) :: more)
        | [] => none
  go ts [[]]

def parse (s : String) : Option Sexp := parseTokens (tokens s)

partial def toStr : Sexp → String
  | atom s => s
  | list xs => "(" ++ " ".intercalate (xs.map toStr) ++ ")"

instance : ToString Sexp := ⟨toStr⟩

def asAtom? : Sexp → Option String
  | atom s => some s
  | _ => none

def asList? : Sexp → Option (List Sexp)
  | list xs => some xs
  | _ => none

def asInt? (s : Sexp) : Option Int := do
  let a ← s.asAtom?
  a.toInt?

def asNat? (s : Sexp) : Option Nat := do
  let a ← s.asAtom?
  a.toNat?

/-- `m:e` ↦ m·2^e, `n/d` ↦ n/d, `k` ↦ k. Exact. -/
def asRat? (s : Sexp) : Option Rat := do
  let a ← s.asAtom?
  match a.splitOn ":" with
  | [m, e] =>
    let m ← m.toInt?
    let e ← e.toInt?
    if e ≥ 0 then some ((m * (2 : Int) ^ e.toNat : Int) : Rat)
    else some ((m : Rat) / (((2 : Int) ^ (-e).toNat : Int) : Rat))
  | _ =>
    match a.splitOn "/" with
    | [n, d] =>
      let n ← n.toInt?
      let d ← d.toNat?
      if d == 0 then none else some ((n : Rat) / (d : Rat))
    | [n] => (fun (k : Int) => (k : Rat)) <$> n.toInt?
    | _ => none

def hexVal (c : Char) : Option Nat :=
  if '0' ≤ c && c ≤ '9' then some (c.toNat - '0'.toNat)
  else if 'a' ≤ c && c ≤ 'f' then some (c.toNat - 'a'.toNat + 10)
  else if 'A' ≤ c && c ≤ 'F' then some (c.toNat - 'A'.toNat + 10)
  else none

def hexBytes : List Char → Option (List UInt8)
  | [] => some []
  | [_] => none
  | a :: b :: rest => do
    let x ← hexVal a
    let y ← hexVal b
    let tl ← hexBytes rest
    some (UInt8.ofNat (x * 16 + y) :: tl)

/-- `x…` hex atom ↦ bytes. -/
def asBytes? (s : Sexp) : Option (List UInt8) := do
  let a ← s.asAtom?
  match a.toList with
  | 'x' :: rest => hexBytes rest
  | _ => none

def asString? (s : Sexp) : Option String := do
  let bs ← s.asBytes?
  String.fromUTF8? (ByteArray.mk bs.toArray)

def mapM? {α} (f : Sexp → Option α) (s : Sexp) : Option (List α) := do
  let xs ← s.asList?
  xs.mapM f

/-- Look up `(key v…)` inside a list of tagged sub-lists; returns the tail `v…`. -/
def field? (key : String) : Sexp → Option (List Sexp)
  | list xs =>
    xs.findSome? fun
      | list (atom k :: vs) => if k == key then some vs else none
      | _ => none
  | _ => none

/-- `(key v)` with a single value. -/
def field1? (key : String) (s : Sexp) : Option Sexp :=
  match s.field? key with
  | some [v] => some v
  | _ => none

def ofInt (i : Int) : Sexp := atom (toString i)
def ofNat (n : Nat) : Sexp := atom (toString n)
def ofRat (r : Rat) : Sexp :=
  if r.den == 1 then atom (toString r.num) else atom (toString r.num ++ "/" ++ toString r.den)
def ofBool (b : Bool) : Sexp := atom (if b then "true" else "false")

def hexDigit (n : Nat) : Char :=
  if n < 10 then Char.ofNat ('0'.toNat + n) else Char.ofNat ('a'.toNat + (n - 10))

def ofBytes (bs : List UInt8) : Sexp :=
  atom (String.ofList ('x' :: bs.flatMap fun b => [hexDigit (b.toNat / 16), hexDigit (b.toNat % 16)]))

def ofString (s : String) : Sexp := ofBytes s.toUTF8.toList

end Sexp
end Fontc
