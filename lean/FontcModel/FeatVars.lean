/-
  Model of fontir/src/feature_variations.rs (the box-overlay algorithm behind GSUB FeatureVariations).
  Core Lean only (linked into the native driver).

  Representation.  `NBox` in the code is a `BTreeMap<Tag,(min,max)>`.  Over a fixed, finite, ordered set of
  `n` axes (index order = `Tag` order = BTreeMap iteration order) such a map is the same thing as a vector of
  `n` optional ranges: entry `i` is `none` when the axis is omitted (= full range).  Map equality / hashing
  (the `IndexMap<NBox,_>` key) is equality of these vectors.  Everything else follows the Rust text.
-/
namespace Fontc.FeatVars

/-- closed range `(min,max)` on one axis -/
abbrev Range := Rat × Rat
/-- `NBox`: one optional range per axis (feature_variations.rs:24) -/
abbrev NBox := List (Option Range)
/-- `Region`: union of boxes (feature_variations.rs:30) -/
abbrev Region := List NBox
/-- a point of the designspace: one coordinate per axis -/
abbrev Point := List Rat

def ratMax (a b : Rat) : Rat := if a ≤ b then b else a
def ratMin (a b : Rat) : Rat := if a ≤ b then a else b

/-- the value stored by `NBox::insert(axis, Some(min), Some(max))` (:33-46): min clamped from below to
    `NormalizedCoord::MIN = -1`, max clamped from above to `NormalizedCoord::MAX = 1`. -/
def clampIns (lo hi : Rat) : Range := (ratMax lo (-1), ratMin hi 1)

/-- `NBox::insert` with optional bounds (`None` = open end) -/
def insertRaw (b : NBox) (axis : Nat) (lo hi : Option Rat) : NBox :=
  b.set axis (some (clampIns (lo.getD (-1)) (hi.getD 1)))

/-- the empty box `NBox::default()` over `n` axes -/
def emptyBox (n : Nat) : NBox := List.replicate n none

/-- build a box the way fontbe does (features/feature_variations.rs:40-51): default + one insert per condition -/
def boxOfRaw (n : Nat) (raw : List (Nat × Option Rat × Option Rat)) : NBox :=
  raw.foldl (fun b (a, lo, hi) => insertRaw b a lo hi) (emptyBox n)

/-- does the closed box contain the point? (omitted axis = no constraint) -/
def contains : NBox → Point → Bool
  | [], _ => true
  | _ :: _, [] => false
  | none :: b, _ :: p => contains b p
  | some (lo, hi) :: b, x :: p => decide (lo ≤ x) && decide (x ≤ hi) && contains b p

def regionContains (r : Region) (p : Point) : Bool := r.any (contains · p)

/-! ### `overlay_onto` (:98-174) -/

/-- entry of `intersection` on one axis after the first loop (:99-117): union of the two maps, common
    axes replaced by `insert(max of mins, min of maxes)` (which clamps). -/
def interAxis : Option Range → Option Range → Option Range
  | none, o => o
  | s, none => s
  | some (a, b), some (c, d) => some (clampIns (ratMax a c) (ratMin b d))

/-- `min >= max` on a common axis (:112): "no intersection" -/
def commonEmpty : Option Range → Option Range → Bool
  | some (a, b), some (c, d) => decide (ratMin b d ≤ ratMax a c)
  | _, _ => false

/-- an axis constrained by `self` and not by `other` (:126) -/
def selfOnly : Option Range → Option Range → Bool
  | some _, none => true
  | _, _ => false

/-- The remainder loop (:131-167) over the axes in key order.  Argument: the (self, other) entries still to
    visit and the `extruding` flag.  `none` = one of the two "give up" exits (the caller returns
    `other.clone()`); `some (entries, extruding)` = the loop ran to the end. -/
def remLoop : List (Option Range × Option Range) → Bool → Option (NBox × Bool)
  | [], ex => some ([], ex)
  | (some (a, b), some (min2, max2)) :: rest, ex =>
    -- (min1,max1) = intersection.get(axis)
    let (min1, max1) := clampIns (ratMax a min2) (ratMin b max2)
    if min1 ≤ min2 ∧ max2 ≤ max1 then
      (remLoop rest ex).map fun (r, e) => (some (min2, max2) :: r, e)
    else if ex then none
    else if min1 ≤ min2 then
      (remLoop rest true).map fun (r, e) => (some (clampIns (ratMax max1 min2) max2) :: r, e)
    else if max2 ≤ max1 then
      (remLoop rest true).map fun (r, e) => (some (clampIns min2 (ratMin min1 max2)) :: r, e)
    else none
  | (_, o) :: rest, ex =>
    -- axis not in `other`, or not in `self`: the remainder keeps `other`'s entry
    (remLoop rest ex).map fun (r, e) => (o :: r, e)

/-- `self.overlay_onto(other)` = (intersection, remainder) -/
def overlayOnto (self other : NBox) : Option NBox × Option NBox :=
  let z := self.zip other
  if z.any (fun (s, o) => commonEmpty s o) then (none, some other)
  else
    let inter := z.map fun (s, o) => interAxis s o
    let ex0 := z.any fun (s, o) => selfOnly s o
    match remLoop z ex0 with
    | none => (some inter, some other)
    | some (r, ex) => if ex then (some inter, some r) else (some inter, none)

/-! ### Region clean-up (:74-77, :183-188) -/

/-- `NBox::cleanup`: drop axes whose range is exactly (-1, 1) -/
def cleanupBox (b : NBox) : NBox :=
  b.map fun e => match e with
    | some (lo, hi) => if lo = -1 ∧ hi = 1 then none else some (lo, hi)
    | none => none

/-- the BTreeMap's (key, value) sequence -/
def entries (b : NBox) : List (Nat × Rat × Rat) :=
  b.zipIdx.filterMap fun (e, i) => e.map fun (lo, hi) => (i, lo, hi)

/-- derived `Ord` of `BTreeMap<Tag,(NormalizedCoord,NormalizedCoord)>`: lexicographic on the entry
    sequences, a proper prefix is smaller. `true` = `a ≤ b`. -/
def entriesLe : List (Nat × Rat × Rat) → List (Nat × Rat × Rat) → Bool
  | [], _ => true
  | _ :: _, [] => false
  | (i, lo, hi) :: as, (j, lo', hi') :: bs =>
    if i < j then true else if j < i then false
    else if lo < lo' then true else if lo' < lo then false
    else if hi < hi' then true else if hi' < hi then false
    else entriesLe as bs

def boxLe (a b : NBox) : Bool := entriesLe (entries a) (entries b)

/-- stable insertion sort (structural, so it evaluates in the kernel); equal to `Vec::sort` (stable) for
    any total preorder -/
def insSorted {α} (le : α → α → Bool) (x : α) : List α → List α
  | [] => [x]
  | y :: ys => if le x y then x :: y :: ys else y :: insSorted le x ys

def insSort {α} (le : α → α → Bool) : List α → List α
  | [] => []
  | x :: xs => insSorted le x (insSort le xs)

/-- `Region::cleanup_and_normalize` -/
def normalizeRegion (r : Region) : Region := insSort boxLe (r.map cleanupBox)

/-! ### Substitution maps `BTreeMap<GlyphName,GlyphName>` : key-sorted association lists; glyphs are numbered
    in name order -/

abbrev Subs := List (Nat × Nat)

def subsInsert (k v : Nat) : Subs → Subs
  | [] => [(k, v)]
  | (k', v') :: m => if k < k' then (k, v) :: (k', v') :: m else if k = k' then (k, v) :: m else (k', v') :: subsInsert k v m

/-- `BTreeMap::extend`: later insertions overwrite -/
def subsExtend (m new : Subs) : Subs := new.foldl (fun m (k, v) => subsInsert k v m) m

def subsOfRaw (raw : List (Nat × Nat)) : Subs := subsExtend [] raw

abbrev Rule := Region × Subs

/-- IndexMap `entry(k)`: modify in place when present, else append -/
def imUpsert {κ ν} [BEq κ] (k : κ) (ins : ν) (upd : ν → ν) : List (κ × ν) → List (κ × ν)
  | [] => [(k, ins)]
  | (k', v) :: m => if k' == k then (k', upd v) :: m else (k', v) :: imUpsert k ins upd m

/-- `merge_same_sub_rules` (:328-343) -/
def mergeSameSubRules (rules : List Rule) : List Rule :=
  let merged : List (Subs × Region) :=
    rules.foldl (fun m (region, subs) => imUpsert subs region (fun r => r ++ region) m) []
  merged.map fun (k, v) => (v, k)

/-- `merge_same_region_rules` (:345-364) -/
def mergeSameRegionRules (rules : List Rule) : List Rule :=
  let merged : List (Region × Subs) :=
    rules.reverse.foldl (fun m (region, subs) =>
      imUpsert (normalizeRegion region) subs (fun old => subsExtend old subs) m) []
  merged.reverse

/-! ### `Rank` (:191-272), abstractly: the operations the overlay loop uses -/

structure RankOps (ρ : Type) where
  /-- `Rank::default()` -/
  zero : ρ
  /-- `Rank::new(i)` -/
  single : Nat → ρ
  /-- `&a | &b` -/
  or : ρ → ρ → ρ
  /-- `a |= &b` -/
  orAssign : ρ → ρ → ρ
  /-- `a` sorts no later than `b` in `sort_by_key(count_zeros)` (:307) / Python `key=-bit_count` -/
  le : ρ → ρ → Bool
  isZero : ρ → Bool
  firstBit : ρ → Bool
  shift : ρ → ρ
  /-- a number of `shift`s after which the rank is certainly zero (fuel of the extraction loop) -/
  bound : ρ → Nat

/-! #### Rank as a natural number: the Python int of fontTools that `Rank` emulates -/

/-- number of set bits (`int.bit_count`), by structural recursion on a fuel so that it evaluates in the
    kernel; `n` itself is always enough fuel -/
def popcountAux : Nat → Nat → Nat
  | 0, _ => 0
  | f + 1, n => if n = 0 then 0 else n % 2 + popcountAux f (n / 2)

def popcount (n : Nat) : Nat := popcountAux n n

def natOps : RankOps Nat where
  zero := 0
  single i := 1 <<< i
  or a b := a ||| b
  orAssign a b := a ||| b
  le a b := decide (popcount b ≤ popcount a)
  isZero a := a == 0
  firstBit a := a % 2 == 1
  shift a := a / 2
  bound a := a

/-! #### Rank as the code has it: big-endian `SmallVec<[u64; 4]>` -/

abbrev WRank := List UInt64

/-- `Rank::new` (:212-219) -/
def WRank.new (v : Nat) : WRank := ((1 : UInt64) <<< (v % 64).toUInt64) :: List.replicate (v / 64) 0

/-- `base[k] |= other[k]` for the common prefix of indices; `base` keeps its length -/
def orFront : WRank → WRank → WRank
  | [], _ => []
  | b :: bs, [] => b :: bs
  | b :: bs, o :: os => (b ||| o) :: orFront bs os

/-- `impl BitOr for &Rank` (:245-261): OR the shorter onto a copy of the longer, aligned at the low end -/
def WRank.bitor (a b : WRank) : WRank :=
  if a.length > b.length then (orFront a.reverse b.reverse).reverse
  else (orFront b.reverse a.reverse).reverse

/-- `impl BitOrAssign<&Rank> for Rank` (:263-272): prepend the `missing` leading words of `rhs`, then OR
    word by word **from the front** -/
def WRank.bitorAssign (a b : WRank) : WRank :=
  let missing := b.length - a.length
  orFront (b.take missing ++ a) b

/-- `u64::count_zeros` -/
def countZeros64 (w : UInt64) : Nat := 64 - popcount w.toNat

/-- `Rank::count_zeros` (:221-223) -/
def WRank.countZeros (a : WRank) : Nat := (a.map countZeros64).sum

def WRank.isAllZeros (a : WRank) : Bool := a.all (· == 0)

def WRank.firstBitIsSet (a : WRank) : Bool := ((a.getLast?.getD 0) &&& 1) != 0

/-- `Rank::right_shift_one` (:234-242), carry passed along -/
def shiftAux : WRank → UInt64 → WRank
  | [], _ => []
  | v :: vs, carry => ((v >>> 1) ||| (carry <<< 63)) :: shiftAux vs (v &&& 1)

def WRank.rightShiftOne (a : WRank) : WRank := shiftAux a 0

def wordOps : RankOps WRank where
  zero := []
  single := WRank.new
  or := WRank.bitor
  orAssign := WRank.bitorAssign
  le a b := decide (a.countZeros ≤ b.countZeros)
  isZero := WRank.isAllZeros
  firstBit := WRank.firstBitIsSet
  shift := WRank.rightShiftOne
  bound a := 64 * a.length

/-- the value of a word vector as a natural number -/
def WRank.val : WRank → Nat := fun a => a.foldl (fun acc w => acc * 2 ^ 64 + w.toNat) 0

/-! ### `overlay_feature_variations` (:275-325) -/

section overlay
variable {ρ : Type} (ops : RankOps ρ)

abbrev BoxMap (ρ : Type) := List (NBox × ρ)

/-- `*boxmap.entry(b).or_default() |= r` -/
def boxmapAdd (m : BoxMap ρ) (b : NBox) (r : ρ) : BoxMap ρ :=
  imUpsert b (ops.orAssign ops.zero r) (fun old => ops.orAssign old r) m

/-- the body of the innermost loop (:294-300) -/
def stepBox (curRank : ρ) (box : NBox) (rank : ρ) (acc : BoxMap ρ) (curBox : NBox) : BoxMap ρ :=
  let (i, r) := overlayOnto curBox box
  let acc := match i with
    | some i => boxmapAdd ops acc i (ops.or rank curRank)
    | none => acc
  match r with
  | some r => boxmapAdd ops acc r rank
  | none => acc

/-- `init_map()` -/
def initMap (n : Nat) : BoxMap ρ := [(emptyBox n, ops.zero)]

/-- one iteration of the outer loop (:290-303) -/
def stepRule (n : Nat) (boxmap : BoxMap ρ) (i : Nat) (region : Region) : BoxMap ρ :=
  boxmap.foldl (fun acc (box, rank) => region.foldl (stepBox ops (ops.single i) box rank) acc) (initMap ops n)

def overlayLoop (n : Nat) : List Region → Nat → BoxMap ρ → BoxMap ρ
  | [], _, m => m
  | r :: rs, i, m => overlayLoop n rs (i + 1) (stepRule ops n m i r)

/-- the `while !rank.is_all_zeros()` loop (:315-321). `none` = `conditional_subs[i]` out of bounds (a panic
    in the code) or fuel exhausted (impossible for `fuel ≥ bound`). -/
def extract (subs : List Subs) : Nat → ρ → Nat → Option (List Subs)
  | 0, r, _ => if ops.isZero r then some [] else none
  | f + 1, r, i =>
    if ops.isZero r then some []
    else
      let rest := extract subs f (ops.shift r) (i + 1)
      if ops.firstBit r then
        match subs[i]? with
        | none => none
        | some s => rest.map (s :: ·)
      else rest

/-- the sorted box list (:306-307) -/
def sortedBoxes (m : BoxMap ρ) : BoxMap ρ := insSort (fun a b => ops.le a.2 b.2) m

/-- the overlay proper, on already merged rules; `n` = number of axes -/
def overlayCore (n : Nat) (cs : List Rule) : Option (List (NBox × List Subs)) :=
  let boxmap := overlayLoop ops n (cs.map (·.1)) 0 (initMap ops n)
  let subs := cs.map (·.2)
  ((sortedBoxes ops boxmap).filter (fun e => !ops.isZero e.2)).mapM fun (b, r) =>
    (extract ops subs (ops.bound r) r 0).map fun l => (b, l)

/-- `overlay_feature_variations` -/
def overlayFeatureVariations (n : Nat) (rules : List Rule) : Option (List (NBox × List Subs)) :=
  overlayCore ops n (mergeSameRegionRules (mergeSameSubRules rules))

end overlay

/-! ### Reading the result: what a font built from the boxes does at a point -/

/-- first box (= first FeatureVariationRecord) whose conditions hold at `p` -/
def firstMatch (out : List (NBox × List Subs)) (p : Point) : Option (List Subs) :=
  (out.find? fun e => contains e.1 p).map (·.2)

/-- the specification: substitution maps of the rules whose region contains `p`, in rule order -/
def activeSubs (rules : List Rule) (p : Point) : List Subs :=
  (rules.filter fun r => regionContains r.1 p).map (·.2)

/-- lookup of a glyph in a key-sorted association list -/
def subsGet (m : Subs) (g : Nat) : Option Nat := (m.find? fun e => e.1 == g).map (·.2)

/-- combine maps in list order, earlier maps taking precedence -/
def effective (ms : List Subs) (g : Nat) : Option Nat := ms.findSome? fun m => subsGet m g

end Fontc.FeatVars
