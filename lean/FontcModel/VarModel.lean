/-
  Model of fontdrasil/src/variations.rs (VariationModel) over exact rationals.

  A location is its coordinate list in `axis_order` (the Rust code expands every location to
  exactly the axes of `axis_order`, `VariationModel::new` lines 145-158).  Axis `i` of the model
  is `axis_order[i]`.
-/
import FontcModel.Basic

namespace Fontc.VarModel
open Fontc

abbrev Loc := List Rat

structure Tent where
  min : Rat
  peak : Rat
  max : Rat
  deriving Repr, DecidableEq, Inhabited

/-- `Tent::new` (variations.rs:728). -/
def Tent.new (min peak max : Rat) : Tent :=
  if 0 < peak then ⟨0, peak, max⟩ else ⟨min, peak, 0⟩

/-- `Tent::validate` (variations.rs:748). -/
def Tent.validate (t : Tent) : Bool :=
  if t.peak < t.min || t.max < t.peak then false
  else if t.min < 0 && 0 < t.max then false
  else true

/-- `Tent::has_non_zero`. -/
def Tent.hasNonZero (t : Tent) : Bool := !(t.min == 0 && t.peak == 0 && t.max == 0)

abbrev Region := List Tent

/-- One axis' contribution in `scalar_at_with_args` (no extrapolation ranges):
    the closure returns `scalar` (factor 1), `ZERO` (factor 0) or `scalar * (v - s) / (peak - s)`. -/
def tentFactor (t : Tent) (v : Rat) : Rat :=
  if !t.validate then 1
  else if v = t.peak then 1
  else if t.min = 0 ∧ t.peak = 0 ∧ t.max = 0 then 1
  else if v ≤ t.min ∨ t.max ≤ v then 0
  else if v < t.peak then (v - t.min) / (t.peak - t.min)
  else (v - t.max) / (t.peak - t.max)

/-- `VariationRegion::scalar_at`: product of the per-axis factors. -/
def scalarAt : Region → Loc → Rat
  | [], _ => 1
  | t :: ts, [] => tentFactor t 0 * scalarAt ts []
  | t :: ts, v :: vs => tentFactor t v * scalarAt ts vs

/-! ### Sorting (LocationSortingHat) -/

def isZero (x : Rat) : Bool := x == 0

def rank (l : Loc) : Nat := (l.filter (fun x => !isZero x)).length

/-- If the location has exactly one non-zero coordinate: its (axis index, value). -/
def onAxis? (l : Loc) : Option (Nat × Rat) :=
  let nz := (l.zipIdx).filter (fun p => !isZero p.1)
  match nz with
  | [(v, i)] => some (i, v)
  | _ => none

def onAxisPoints (locs : List Loc) : List (Nat × Rat) := locs.filterMap onAxis?

structure SortKey where
  rank : Nat
  onAxis : Int
  knownAxes : List Nat
  signs : List Int
  abs : List Rat
  deriving Repr, DecidableEq

def sign (x : Rat) : Int := if 0 < x then 1 else if x < 0 then -1 else 0

def keyFor (pts : List (Nat × Rat)) (l : Loc) : SortKey :=
  let idx := l.zipIdx
  let nz := idx.filter (fun p => !isZero p.1)
  { rank := nz.length
    onAxis := -((idx.filter (fun p => pts.contains (p.2, p.1))).length : Int)
    knownAxes := nz.map (·.2)
    signs := nz.map (fun p => sign p.1)
    abs := nz.map (fun p => ratAbs p.1) }

/-- Lexicographic `≤` on lists (Rust `Vec: Ord`). -/
def lexLe {α} (lt : α → α → Bool) : List α → List α → Bool
  | [], _ => true
  | _ :: _, [] => false
  | a :: as, b :: bs => if lt a b then true else if lt b a then false else lexLe lt as bs

def lexEq {α} (lt : α → α → Bool) : List α → List α → Bool
  | [], [] => true
  | a :: as, b :: bs => !lt a b && !lt b a && lexEq lt as bs
  | _, _ => false

/-- Derived `Ord` of `LocationSortKey` (field order as declared, variations.rs:571). -/
def SortKey.le (a b : SortKey) : Bool :=
  if a.rank < b.rank then true else if b.rank < a.rank then false
  else if a.onAxis < b.onAxis then true else if b.onAxis < a.onAxis then false
  else if !lexEq (fun (x y : Nat) => decide (x < y)) a.knownAxes b.knownAxes then
    lexLe (fun (x y : Nat) => decide (x < y)) a.knownAxes b.knownAxes
  else if !lexEq (fun (x y : Int) => decide (x < y)) a.signs b.signs then
    lexLe (fun (x y : Int) => decide (x < y)) a.signs b.signs
  else lexLe (fun (x y : Rat) => decide (x < y)) a.abs b.abs

def sortLocs (locs : List Loc) : List Loc :=
  let pts := onAxisPoints locs
  locs.mergeSort (fun a b => (keyFor pts a).le (keyFor pts b))

/-! ### regions_for -/

def colMin (locs : List Loc) (i : Nat) : Rat :=
  locs.foldl (fun m l => let v := l.getD i 0; if v < m then v else m) 0
def colMax (locs : List Loc) (i : Nat) : Rat :=
  locs.foldl (fun m l => let v := l.getD i 0; if m < v then v else m) 0

def regionFor (locs : List Loc) (l : Loc) : Region :=
  l.zipIdx.map fun (v, i) =>
    if v = 0 then Tent.new 0 0 0 else Tent.new (colMin locs i) v (colMax locs i)

def regionsFor (locs : List Loc) : List Region := locs.map (regionFor locs)

/-! ### master_influence -/

def activeAxes (r : Region) : List Bool := r.map Tent.hasNonZero

/-- `overlap` test of master_influence (variations.rs:881). -/
def overlaps : Region → Region → Bool
  | [], _ => true
  | _ :: _, [] => true
  | t :: ts, p :: ps =>
    (p.peak = t.peak ∨ (t.min < p.peak ∧ p.peak < t.max)) && overlaps ts ps

/-- State of the best-ratio search: current best ratio and the cut tents (axis index, tent). -/
structure Cuts where
  best : Rat
  cuts : List (Nat × Tent)

/-- One axis of the inner loop (variations.rs:897-926). -/
def cutAxis (st : Cuts) (i : Nat) (t p : Tent) : Cuts :=
  if !t.hasNonZero then st
  else if p.peak = t.peak then st
  else
    let (ratio, t') :=
      if p.peak < t.peak then ((p.peak - t.peak) / (t.min - t.peak), { t with min := p.peak })
      else ((p.peak - t.peak) / (t.max - t.peak), { t with max := p.peak })
    let st := if st.best < ratio then { best := ratio, cuts := [] } else st
    if ratio = st.best then { st with cuts := st.cuts ++ [(i, t')] } else st

def cutAll (st : Cuts) : Nat → Region → Region → Cuts
  | _, [], _ => st
  | _, _ :: _, [] => st
  | i, t :: ts, p :: ps => cutAll (cutAxis st i t p) (i + 1) ts ps

def applyCuts (r : Region) (cuts : List (Nat × Tent)) : Region :=
  r.zipIdx.map fun (t, i) =>
    match cuts.find? (fun c => c.1 == i) with
    | some c => c.2
    | none => t

/-- Processing one previous influence region against the current one. -/
def influenceStep (region prev : Region) : Region :=
  if activeAxes region ≠ activeAxes prev then region
  else if !overlaps region prev then region
  else applyCuts region (cutAll ⟨-1, []⟩ 0 region prev).cuts

/-- `master_influence`: each region is cut against all earlier *influence* regions, in order. -/
def masterInfluenceAux : List Region → List Region → List Region
  | acc, [] => acc
  | acc, r :: rs => masterInfluenceAux (acc ++ [acc.foldl influenceStep r]) rs

def masterInfluence (regions : List Region) : List Region := masterInfluenceAux [] regions

/-! ### The model object -/

structure Model where
  locations : List Loc
  influence : List Region
  deriving Repr

/-- Expand/trim a location to `n` axes (`VariationModel::new` lines 146-156; the harness always
    passes exactly `n` coordinates so this is the identity there). -/
def fit (n : Nat) (l : Loc) : Loc := (l ++ List.replicate n 0).take n

def Model.new (n : Nat) (locs : List Loc) : Model :=
  let sorted := sortLocs ((locs.map (fit n)).eraseDups)
  { locations := sorted, influence := masterInfluence (regionsFor sorted) }

/-- `delta_weights[j]`: (index, scalar) of the earlier influences that are non-zero at `loc[j]`. -/
def deltaWeights (m : Model) : List (List (Nat × Rat)) :=
  m.locations.zipIdx.map fun (loc, j) =>
    ((m.influence.take j).zipIdx.map fun (inf, k) => (k, scalarAt inf loc)).filter (fun p => p.2 ≠ 0)

/-- Master values: for each model location (in model order), `some v` if a value is defined there. -/
abbrev Values := List (Option Rat)

/-- `deltas_with_rounding` for one scalar value per master. Walks the model in order; `done` holds the
    deltas of earlier masters (`none` where no value was supplied).
    delta_j = round (v_j - Σ_{k<j, defined} scalar(influence k, loc j) · delta_k). -/
def deltasAux (round : Rat → Rat) (infl : List Region) :
    List (Loc × Option Rat) → List (Option Rat) → List (Option Rat)
  | [], done => done
  | (_, none) :: rest, done => deltasAux round infl rest (done ++ [none])
  | (loc, some v) :: rest, done =>
    let contrib : List Rat := (done.zip infl).map fun (d, inf) =>
      match d with
      | some dk => scalarAt inf loc * dk
      | none => 0
    let d := round (contrib.foldl (fun acc c => acc - c) v)
    deltasAux round infl rest (done ++ [some d])

def Model.deltas (m : Model) (round : Rat → Rat) (vals : Values) : List (Option Rat) :=
  deltasAux round m.influence (m.locations.zip vals) []

/-- `interpolate_from_deltas` at an arbitrary location. -/
def interpolate (infl : List Region) (deltas : List (Option Rat)) (at_ : Loc) : Rat :=
  ((infl.zip deltas).map fun (r, d) =>
    match d with
    | some dk => scalarAt r at_ * dk
    | none => 0).foldl (· + ·) 0

/-- Region validity as property C07 states it. -/
def Tent.wellFormed (t : Tent) : Bool :=
  t.min ≤ t.peak && t.peak ≤ t.max && -1 ≤ t.min && t.max ≤ 1 && !(t.min < 0 && 0 < t.max)

end Fontc.VarModel
