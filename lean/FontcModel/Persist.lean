/-
  C14 — the keyed stores behind `fontir::orchestration::Context` and `fontbe::orchestration::Context`
  (`ContextItem` / `ContextMap`, fontir/src/orchestration.rs:55-272) with their optional on-disk copy
  (`PersistentStorage`, orchestration.rs:287-392; fontbe/src/orchestration.rs:822-854).

  One `Store` stands for one context field family: memory is `Id → Option V`
  (`RwLock<Option<Arc<T>>>` per item / `RwLock<HashMap<I, Arc<T>>>` per map), the build directory is
  `Path → Option Bytes`. Access-control assertions are not modelled (they panic on scheduling
  mistakes, see C02). Core Lean only.
-/

namespace Fontc.Persist

structure Store (Id V Path Bytes : Type) where
  mem : Id → Option V
  disk : Path → Option Bytes

/-- `map.insert(k, w)` / `File::create(p)` + write -/
def upd {K W : Type} [DecidableEq K] (f : K → Option W) (k : K) (w : W) : K → Option W :=
  fun x => if x = k then some w else f x

structure Cfg (Id V Path Bytes : Type) where
  /-- `persistent_storage.active()` ⇔ `ir_dir.is_some()` ⇔ `--emit-ir` -/
  active : Bool
  /-- `Paths::target_file(ir_dir, id)` -/
  path : Id → Path
  /-- `Persistable::write` -/
  enc : V → Bytes
  /-- `Persistable::read` -/
  dec : Bytes → V

inductive Op (Id V : Type) where
  /-- `ContextItem::set` / `ContextMap::set` (orchestration.rs:128, 255) -/
  | set (id : Id) (v : V)
  /-- `ContextMap::set_unconditionally` (orchestration.rs:236) -/
  | setUnconditionally (id : Id) (v : V)
  /-- `get` (orchestration.rs:94, 211) -/
  | get (id : Id)
  /-- `try_get` (orchestration.rs:113, 189) -/
  | tryGet (id : Id)

/-- what the caller sees -/
inductive Res (V : Type) where
  | done                -- a `set` returned
  | value (v : V)       -- `get` / `try_get` found a value
  | absent              -- `try_get` returned `None`
  | panic               -- `get`: "… is not available"
  deriving DecidableEq, Repr

variable {Id V Path Bytes : Type} [DecidableEq Id] [DecidableEq V] [DecidableEq Path]

def write (c : Cfg Id V Path Bytes) (s : Store Id V Path Bytes) (id : Id) (v : V) : Store Id V Path Bytes :=
  { mem := upd s.mem id v,
    disk := if c.active then upd s.disk (c.path id) (c.enc v) else s.disk }

def step (c : Cfg Id V Path Bytes) (s : Store Id V Path Bytes) : Op Id V → Store Id V Path Bytes × Res V
  | .set id v =>
    -- "nop?": the value is already there
    if s.mem id = some v then (s, .done) else (write c s id v, .done)
  | .setUnconditionally id v => (write c s id v, .done)
  | .tryGet id =>
    match s.mem id with
    | some v => (s, .value v)
    | none => (s, .absent)
  | .get id =>
    match s.mem id with
    | some v => (s, .value v)
    | none =>
      -- "it's *not* in memory but perhaps it's written down?"
      if c.active then
        match s.disk (c.path id) with
        | some b => ({ s with mem := upd s.mem id (c.dec b) }, .value (c.dec b))
        | none => (s, .panic)
      else (s, .panic)

def run (c : Cfg Id V Path Bytes) (s : Store Id V Path Bytes) : List (Op Id V) → Store Id V Path Bytes × List (Res V)
  | [] => (s, [])
  | op :: rest =>
    let (s', r) := step c s op
    let (s'', rs) := run c s' rest
    (s'', r :: rs)

/-- a fresh process with a fresh build directory -/
def empty : Store Id V Path Bytes := { mem := fun _ => none, disk := fun _ => none }

end Fontc.Persist
