/-
  C10 — model of mark attachment in fontc.

  * anchor name → kind:              fontir/src/ir.rs:1185-1263   (`AnchorKind::new`)
  * pruning / mark glyphs:           fontbe/src/features/marks.rs:199-282, 828-846 (`MarkLookupBuilder::new`, `find_mark_glyphs`)
  * mark-to-base / mark-to-mark / mark-to-ligature groups and lookups:
                                     fontbe/src/features/marks.rs:357-572
  * anchor values:                   fontbe/src/features/marks.rs:867-904 (`resolve_anchor_once`) →
                                     fontbe/src/features.rs:181-247 (`resolve_variable_metric`)
  * GDEF categories:                 fontir/src/glyph.rs:962-1019 (`recompute_gdef_categories`),
                                     fontbe/src/features.rs:612-629 (categories → GDEF GlyphClassDef)
  * positioning semantics (`attach`): OpenType GPOS lookup types 4/5/6 (written from the spec).

  Not modelled: anchor propagation through composites (fontir/src/propagate_anchors.rs; exercised end-to-end only),
  the abvm/blwm split by Unicode script (marks.rs:676-754; the streams use no Indic/USE code points), cursive
  attachment, ligature carets.

  Core Lean only (linked into the native driver).  Names are `List Char` (Unicode scalar values), which is what
  Rust `&str` iterates as `chars()`; the only byte-level operations fontc performs on anchor names are prefix/suffix
  tests on ASCII characters, which agree on both views.
-/
import FontcModel.Basic
import FontcModel.VarModel

namespace Fontc.Marks
open Fontc Fontc.VarModel

/-! ## 1. Anchor names (ir.rs:1185) -/

abbrev Name := List Char

/-- `BadAnchorReason` values `AnchorKind::new` can return. -/
inductive BadAnchor where
  | zeroIndex | nilMarkGroup | numberedMarkAnchor
  deriving Repr, DecidableEq, Inhabited

/-- `AnchorKind` (ir.rs:1158). -/
inductive Kind where
  | base (group : Name)
  | mark (group : Name)
  | ligature (group : Name) (index : Nat)
  | componentMarker (index : Nat)
  | caret (index : Nat)
  | vcaret (index : Nat)
  | cursiveEntry
  | cursiveExit
  deriving Repr, DecidableEq, Inhabited

def usizeMax : Nat := 18446744073709551615

/-- value of a string of ASCII digits -/
def digitsVal (ds : List Char) : Nat := ds.foldl (fun acc c => 10 * acc + (c.toNat - 48)) 0

/-- the digits of `s` after one optional leading `+` -/
def unsignedBody : List Char → List Char
  | [] => []
  | c :: r => if c = '+' then r else c :: r

/-- Rust `str::parse::<usize>()` (64-bit): an optional `+`, then at least one ASCII digit, value ≤ 2^64-1. -/
def parseUsize (s : List Char) : Option Nat :=
  let ds := unsignedBody s
  if ds.isEmpty then none
  else if !ds.all Char.isDigit then none
  else if digitsVal ds ≤ usizeMax then some (digitsVal ds) else none

/-- `str::strip_prefix`. -/
def stripPrefix : List Char → List Char → Option (List Char)
  | [], s => some s
  | _ :: _, [] => none
  | p :: ps, c :: cs => if p = c then stripPrefix ps cs else none

/-- `str::rsplit_once(c)`: split at the last occurrence of `c`. -/
def rsplitOnce (c : Char) : List Char → Option (List Char × List Char)
  | [] => none
  | x :: xs =>
    match rsplitOnce c xs with
    | some (h, t) => some (x :: h, t)
    | none => if x = c then some ([], xs) else none

def sEntry : Name := ['e', 'n', 't', 'r', 'y']
def sExit : Name := ['e', 'x', 'i', 't']
def sCaret : Name := ['c', 'a', 'r', 'e', 't', '_']
def sVCaret : Name := ['v', 'c', 'a', 'r', 'e', 't', '_']

/-- the suffix after `caret_` / `vcaret_`, and whether the name starts with `v` -/
def caretSuffix (name : Name) : Option (List Char × Bool) :=
  match stripPrefix sCaret name with
  | some s => some (s, false)
  | none =>
    match stripPrefix sVCaret name with
    | some s => some (s, true)
    | none => none

/-- `AnchorKind::new` (ir.rs:1185-1263), branch by branch. -/
def anchorKind (name : Name) : Except BadAnchor Kind :=
  if name = sEntry then .ok .cursiveEntry
  else if name = sExit then .ok .cursiveExit
  else
    match caretSuffix name with
    | some (suffix, v) =>
      match parseUsize suffix with
      | some 0 => .error .zeroIndex
      | some (i + 1) => .ok (if v then .vcaret (i + 1) else .caret (i + 1))
      | none => .ok (if v then .vcaret 1 else .caret 1)
    | none =>
      match name with
      | '_' :: suffix =>
        match parseUsize suffix with
        | some 0 => .error .zeroIndex
        | some (i + 1) => .ok (.componentMarker (i + 1))
        | none =>
          if suffix.isEmpty then .error .nilMarkGroup
          else
            match rsplitOnce '_' suffix with
            | some (_, t) => if (parseUsize t).isSome then .error .numberedMarkAnchor else .ok (.mark suffix)
            | none => .ok (.mark suffix)
      | _ =>
        match rsplitOnce '_' name with
        | some (h, t) =>
          match parseUsize t with
          | some 0 => .error .zeroIndex
          | some (i + 1) => .ok (.ligature h (i + 1))
          | none => .ok (.base name)
        | none => .ok (.base name)

def Kind.isMark : Kind → Bool
  | .mark _ => true
  | _ => false

/-- `Anchor::mark_group_name`. -/
def Kind.groupName? : Kind → Option Name
  | .base g | .mark g | .ligature g _ => some g
  | _ => none

/-- `Anchor::ligature_index`. -/
def Kind.ligatureIndex? : Kind → Option Nat
  | .ligature _ i | .componentMarker i => some i
  | _ => none

/-! ## 2. Glyphs, pruning, mark glyphs (marks.rs:199-282, 828-846) -/

/-- GDEF glyph classes (`GlyphClassDef`, numeric values 1-4). -/
inductive GClass where
  | base | ligature | mark | component
  deriving Repr, DecidableEq, Inhabited

def GClass.toNat : GClass → Nat
  | .base => 1 | .ligature => 2 | .mark => 3 | .component => 4

def GClass.ofNat? : Nat → Option GClass
  | 1 => some .base | 2 => some .ligature | 3 => some .mark | 4 => some .component | _ => none

/-- an anchor: its parsed kind and a payload (the positions; abstract in the combinatorial part) -/
structure Anchor (α : Type) where
  kind : Kind
  val : α
  deriving Repr

/-- a glyph of the final glyph order: glyph id, GDEF category of the source (if any), anchors in source order -/
structure Glyph (α : Type) where
  gid : Nat
  cls : Option GClass
  anchors : List (Anchor α)
  deriving Repr

variable {α : Type}

/-- `gdef_classes.is_empty()` -/
def classesEmpty (gs : List (Glyph α)) : Bool := gs.all (·.cls.isNone)

def isBML : Option GClass → Bool
  | some .base | some .mark | some .ligature => true
  | _ => false

/-- `include.is_empty()` where `include` = glyphs whose class is base, mark or ligature (marks.rs:214-223) -/
def includeEmpty (gs : List (Glyph α)) : Bool := gs.all (fun g => !isBML g.cls)

/-- marks.rs:230-233 -/
def included (gs : List (Glyph α)) (g : Glyph α) : Bool := includeEmpty gs || isBML g.cls

def baseGroupOf : Kind → Option Name
  | .base g | .ligature g _ => some g
  | _ => none

def markGroupOf : Kind → Option Name
  | .mark g => some g
  | _ => none

def allAnchors (gs : List (Glyph α)) : List (Anchor α) := gs.flatMap (·.anchors)

/-- `used_groups` (marks.rs:255-257): names that occur both on a base/ligature anchor and on a mark anchor of
    included glyphs. -/
def usedGroup (gs : List (Glyph α)) (n : Name) : Bool :=
  let inc := gs.filter (included gs)
  (allAnchors inc).any (fun a => baseGroupOf a.kind == some n) &&
  (allAnchors inc).any (fun a => markGroupOf a.kind == some n)

/-- the `retain` predicate of marks.rs:260-269 -/
def keepAnchor (gs : List (Glyph α)) (k : Kind) : Bool :=
  match k with
  | .cursiveEntry | .cursiveExit => true
  | .base g | .mark g | .ligature g _ => usedGroup gs g
  | .componentMarker _ => true
  | .caret _ | .vcaret _ => false

/-- `anchor_lists` (pruned): included glyphs with their retained anchors; glyphs left without anchors are dropped. -/
def pruned (gs : List (Glyph α)) : List (Glyph α) :=
  ((gs.filter (included gs)).map fun g => { g with anchors := g.anchors.filter (fun a => keepAnchor gs a.kind) }).filter
    (fun g => !g.anchors.isEmpty)

/-- `find_mark_glyphs` (marks.rs:828), on a pruned glyph -/
def isMarkGlyph (gs : List (Glyph α)) (g : Glyph α) : Bool :=
  (classesEmpty gs || g.cls == some .mark) && g.anchors.any (·.kind.isMark)

/-- `treat_as_base` (marks.rs:434-439) -/
def treatAsBase (gs : List (Glyph α)) (g : Glyph α) : Bool :=
  !(isMarkGlyph gs g || (!classesEmpty gs && g.cls != some .base))

/-- `might_be_liga` (marks.rs:522) -/
def mightBeLiga (gs : List (Glyph α)) (g : Glyph α) : Bool :=
  classesEmpty gs || g.cls == some .ligature

/-! ## 3. Groups and lookups (marks.rs:357-572) -/

inductive LKind where
  | base | lig | mkmk
  deriving Repr, DecidableEq, Inhabited

/-- What one emitted lookup (= one builder, one mark class) is given:
    `marks`: the `add_mark` calls in order, `bases`: the `add_base` calls in order
    (mark-to-base / mark-to-mark: one anchor; mark-to-ligature: one optional anchor per component). -/
structure Lookup (α : Type) where
  kind : LKind
  name : Name
  marks : List (Nat × α)
  bases : List (Nat × List (Option α))
  /-- `Some(set)` = USE_MARK_FILTERING_SET with this (unordered) set -/
  filter : Option (List Nat)
  deriving Repr

def anchorsOfKind (g : Glyph α) (k : Kind) : List α :=
  (g.anchors.filter (fun a => a.kind == k)).map (·.val)

/-- mark anchors `_n` on the mark glyphs -/
def marksFor (gs : List (Glyph α)) (n : Name) : List (Nat × α) :=
  (pruned gs).flatMap fun g =>
    if isMarkGlyph gs g then (anchorsOfKind g (.mark n)).map fun v => (g.gid, v) else []

/-- mark-to-base: base anchors `n` on the glyphs treated as bases (marks.rs:431-457) -/
def mbBases (gs : List (Glyph α)) (n : Name) : List (Nat × List (Option α)) :=
  (pruned gs).flatMap fun g =>
    if treatAsBase gs g then (anchorsOfKind g (.base n)).map fun v => (g.gid, [some v]) else []

/-- group names of the mark anchors of mark glyphs (`mark_anchors`, marks.rs:461-474) -/
def markAnchorNames (gs : List (Glyph α)) : List Name :=
  ((pruned gs).filter (isMarkGlyph gs)).flatMap fun g => g.anchors.filterMap fun a => markGroupOf a.kind

/-- mark-to-mark: base anchors `n` on mark glyphs, if some mark glyph has `_n` (marks.rs:479-494) -/
def mkBases (gs : List (Glyph α)) (n : Name) : List (Nat × List (Option α)) :=
  if (markAnchorNames gs).contains n then
    (pruned gs).flatMap fun g =>
      if isMarkGlyph gs g then (anchorsOfKind g (.base n)).map fun v => (g.gid, [some v]) else []
  else []

/-- marks of a mark-to-mark group: only if the group has a base (marks.rs:497-507) -/
def mkMarks (gs : List (Glyph α)) (n : Name) : List (Nat × α) :=
  if (mkBases gs n).isEmpty then [] else marksFor gs n

/-- `max_index` (marks.rs:530) -/
def maxLigIndex (g : Glyph α) : Option Nat :=
  (g.anchors.filterMap (·.kind.ligatureIndex?)).foldl (fun m i => some (match m with | none => i | some j => max i j)) none

/-- the component anchors of a ligature glyph for group `n`: slot `i-1` holds the *last* anchor `n_i`
    (marks.rs:534-543: later anchors overwrite earlier ones) -/
def ligComponents (g : Glyph α) (n : Name) (maxIdx : Nat) : List (Option α) :=
  (List.range maxIdx).map fun k => (anchorsOfKind g (.ligature n (k + 1))).getLast?

def hasLigAnchor (g : Glyph α) (n : Name) : Bool :=
  g.anchors.any fun a => match a.kind with | .ligature m _ => m == n | _ => false

/-- mark-to-ligature bases (marks.rs:520-552) -/
def ligBases (gs : List (Glyph α)) (n : Name) : List (Nat × List (Option α)) :=
  (pruned gs).flatMap fun g =>
    if mightBeLiga gs g && hasLigAnchor g n then
      match maxLigIndex g with
      | some mx => [(g.gid, ligComponents g n mx)]
      | none => []
    else []

/-- marks of a mark-to-ligature group (marks.rs:555-570) -/
def ligMarks (gs : List (Glyph α)) (n : Name) : List (Nat × α) :=
  if (ligBases gs n).isEmpty then [] else marksFor gs n

def charLt (a b : Char) : Bool := a.toNat < b.toNat

/-- `BTreeMap<SmolStr, _>` key order -/
def nameLe (a b : Name) : Bool := lexLe charLt a b

/-- candidate group names, sorted and without duplicates -/
def groupNames (gs : List (Glyph α)) : List Name :=
  (((allAnchors (pruned gs)).filterMap (·.kind.groupName?)).eraseDups).mergeSort nameLe

def insertNat (x : Nat) : List Nat → List Nat
  | [] => [x]
  | y :: ys => if x < y then x :: y :: ys else if x = y then y :: ys else y :: insertNat x ys

def sortDedupNat (xs : List Nat) : List Nat := xs.foldr insertNat []

/-- `make_filter_glyph_set` for a mark-to-mark group (marks.rs:95-112), as a sorted set -/
def mkFilter (marks : List (Nat × α)) (bases : List (Nat × List (Option α))) : List Nat :=
  let ms := marks.map (·.1)
  sortDedupNat (ms ++ (bases.map (·.1)).filter (fun g => !ms.contains g))

/-- `make_lookups_type` (marks.rs:388-429) for the non-abvm glyph set: one lookup per group that has both a base
    and a mark, in name order. -/
def lookupsOf (gs : List (Glyph α)) (k : LKind) : List (Lookup α) :=
  (groupNames gs).filterMap fun n =>
    let (ms, bs) := match k with
      | .base => (marksFor gs n, mbBases gs n)
      | .lig => (ligMarks gs n, ligBases gs n)
      | .mkmk => (mkMarks gs n, mkBases gs n)
    if bs.isEmpty || ms.isEmpty then none
    else some { kind := k, name := n, marks := ms, bases := bs,
                filter := if k == .mkmk then some (mkFilter ms bs) else none }

/-- everything `MarkLookupBuilder::build` puts into `mark_mkmk`, in the order fea-rs receives it
    (mark-to-base, mark-to-ligature, mark-to-mark; marks.rs:1008-1019) -/
def allLookups (gs : List (Glyph α)) : List (Lookup α) :=
  lookupsOf gs .base ++ lookupsOf gs .lig ++ lookupsOf gs .mkmk

/-! ### What a built lookup does (write-fonts `MarkToBaseBuilder` / `MarkToLigBuilder` / `MarkToMarkBuilder`):
    the mark array and the base array are maps keyed by glyph id; a later insertion for the same key replaces an
    earlier one. -/

def lastFor {β : Type} (xs : List (Nat × β)) (g : Nat) : Option β :=
  ((xs.filter (fun p => p.1 == g)).getLast?).map (·.2)

/-- the mark anchor the lookup applies to mark glyph `m` -/
def Lookup.markAnchor (l : Lookup α) (m : Nat) : Option α := lastFor l.marks m

/-- the anchor of base glyph `g`, component `comp` (0 for mark-to-base / mark-to-mark) -/
def Lookup.baseAnchor (l : Lookup α) (g comp : Nat) : Option α :=
  match l.kind with
  | .lig => ((lastFor l.bases g).bind fun cs => cs[comp]?).join
  | _ => (((l.bases.filter (fun p => p.1 == g)).getLast?).bind fun p => p.2.head?).join

/-! ## 4. The source-level notion of an attachment pair (the quantifier of property C10)

  A *source pair* is: an attaching glyph `g` with an anchor `n` (or `n_i` on a ligature), a mark glyph `m` with the
  anchor `_n`, both retained by pruning, where
  - `m` is a mark glyph (GDEF mark if the source has categories, and it has a `_x` anchor of a used group),
  - `g` is a base (not a mark glyph; GDEF base if the source has categories)  → mark-to-base,
    or a mark glyph → mark-to-mark,
    or a ligature (GDEF ligature if the source has categories) with `n_i` → mark-to-ligature, component `i`. -/

structure Pair (α : Type) where
  kind : LKind
  name : Name
  base : Nat
  /-- ligature component (1-based as in the anchor name; 1 for base / mkmk) -/
  comp : Nat
  baseVal : α
  mark : Nat
  markVal : α
  deriving Repr, DecidableEq

def sourcePairs (gs : List (Glyph α)) : List (Pair α) :=
  let P := pruned gs
  P.flatMap fun m =>
    if !isMarkGlyph gs m then [] else
    m.anchors.flatMap fun am =>
      match am.kind with
      | .mark n =>
        P.flatMap fun g =>
          g.anchors.filterMap fun ag =>
            match ag.kind with
            | .base n' =>
              if n' != n then none
              else if isMarkGlyph gs g then some ⟨.mkmk, n, g.gid, 1, ag.val, m.gid, am.val⟩
              else if treatAsBase gs g then some ⟨.base, n, g.gid, 1, ag.val, m.gid, am.val⟩
              else none
            | .ligature n' i =>
              if n' == n && mightBeLiga gs g then some ⟨.lig, n, g.gid, i, ag.val, m.gid, am.val⟩ else none
            | _ => none
      | _ => []

/-- `l` is a rule for pair `p` carrying exactly its two anchors -/
def Lookup.carries [DecidableEq α] (l : Lookup α) (p : Pair α) : Bool :=
  l.kind == p.kind && l.name == p.name &&
  l.markAnchor p.mark == some p.markVal && l.baseAnchor p.base (p.comp - 1) == some p.baseVal

/-! ## 5. Anchor values (marks.rs:867-904, features.rs:181-247) -/

/-- `VariationRegion::is_default`: no axis has a non-zero tent -/
def isDefaultRegion (r : Region) : Bool := r.all (fun t => !t.hasNonZero)

/-- the `(default, deltas)` pair `resolve_variable_metric` returns -/
structure Metric where
  default : Int
  deltas : List (Region × Int)
  deriving Repr

/-- values in model order for `Model.deltas` -/
def masterValues (M : Model) (vals : List (Loc × Rat)) : Values :=
  M.locations.map fun l => (vals.find? (fun p => p.1 == l)).map fun p => ((otRound p.2 : Int) : Rat)

/-- the tail of `resolve_variable_metric` (features.rs:211-246): from the model's regions and the deltas computed
    on them, default = `ot_round` of the sum over the regions that are non-zero at the default location,
    deltas = `ot_round`ed deltas of the non-default regions. -/
def metricOf (infl : List Region) (ds : List (Option Rat)) (dflt : Loc) : Metric :=
  let raw : List (Region × Rat) := (infl.zip ds).filterMap fun (r, d) => d.map fun d => (r, d)
  let default := otRound (ratSum (raw.filterMap fun (r, d) =>
    let s := scalarAt r dflt
    if s ≠ 0 then some (d * s) else none))
  { default, deltas := (raw.filter fun (r, _) => !isDefaultRegion r).map fun (r, d) => (r, otRound d) }

/-- `resolve_variable_metric`: round each master value (`ot_round`), build the (sub-)model on the locations that
    have a value, compute deltas (ties-even at each step), then `metricOf`. -/
def resolveMetric (nAxes : Nat) (vals : List (Loc × Rat)) : Metric :=
  let M := Model.new nAxes (vals.map (·.1))
  metricOf M.influence (M.deltas Rounding.tiesEven.apply (masterValues M vals)) (List.replicate nAxes 0)

/-- OpenType evaluation of a variable value: default + Σ region scalar · delta -/
def Metric.eval (m : Metric) (at_ : Loc) : Rat :=
  (m.default : Rat) + ratSum (m.deltas.map fun (r, d) => scalarAt r at_ * (d : Rat))

/-- a source anchor: its position at each location where it is defined -/
abbrev Positions := List (Loc × Rat × Rat)

/-- `resolve_anchor_once`: x and y resolved separately; a device table only when some delta is non-zero -/
structure AnchorOut where
  x : Metric
  y : Metric
  deriving Repr

def resolveAnchor (nAxes : Nat) (p : Positions) : AnchorOut :=
  { x := resolveMetric nAxes (p.map fun (l, x, _) => (l, x))
    y := resolveMetric nAxes (p.map fun (l, _, y) => (l, y)) }

/-- deltas as they are handed to the builder: dropped when all are zero (marks.rs:896-901) -/
def Metric.device (m : Metric) : Option (List (Region × Int)) :=
  if m.deltas.any (fun p => p.2 != 0) then some m.deltas else none

def AnchorOut.at (a : AnchorOut) (loc : Loc) : Rat × Rat := (a.x.eval loc, a.y.eval loc)

/-! ## 6. Positioning semantics (OpenType GPOS, MarkBasePos/MarkLigPos/MarkMarkPos)

  "The mark glyph is positioned so that its anchor point coincides with the anchor point of the base":
  the offset applied to the mark's origin, relative to the base's origin, is base anchor − mark anchor. -/

def attach (baseAnchor markAnchor : Rat × Rat) : Rat × Rat :=
  (baseAnchor.1 - markAnchor.1, baseAnchor.2 - markAnchor.2)

/-- where a point `q` of the mark glyph ends up, in the base glyph's coordinate system -/
def placed (offset q : Rat × Rat) : Rat × Rat := (offset.1 + q.1, offset.2 + q.2)

/-! ## 7. GDEF classes (glyph.rs:962-1019; features.rs:612-629) -/

/-- `recompute_gdef_categories` for one glyph. `inferFromAnchors` is false for UFO sources with explicit
    `public.openTypeCategories` (categories used as they are) and true where they come from GlyphData. -/
def finalCategory (inferFromAnchors : Bool) (prelim : Option GClass) (kinds : List Kind) : Option GClass :=
  if !inferFromAnchors then prelim
  else
    let hasAttaching := kinds.any (fun k => !k.isMark)
    match prelim with
    | some .mark => some .mark
    | some .ligature => if hasAttaching then some .ligature else none
    | some .base => some .base
    | some .component => some .component
    | none => if hasAttaching then some .base else none

/-- the GDEF GlyphClassDef value written for a glyph (0 = no class) -/
def gdefClassValue (c : Option GClass) : Nat :=
  match c with
  | some c => c.toNat
  | none => 0

end Fontc.Marks
