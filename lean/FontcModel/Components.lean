/-
  C12 — component handling (fontir/src/glyph.rs `GlyphOrderWork::exec` and helpers; fontbe/src/glyphs.rs
  `create_component_ref_gid`; line numbers are those of /repo at f65ff23).  Exact model over ℚ of ONE location of the designspace: an environment maps a glyph
  name to that glyph's instance at the location (the master drawn there, or the unrounded interpolation the code
  computes with `get_or_instantiate_instance`, glyph.rs:532).

  * `Affine`            kurbo::Affine ([a b c d e f], x' = a·x + c·y + e, y' = b·x + d·y + f; `comp` = kurbo `A * B`)
  * `resolveWith tr`    the full outline of a glyph through its components; `resolve` (= TrueType composite
                        semantics: transform the points) and `resolveO` (orientation-corrected: a contour whose
                        accumulated transform has a negative determinant is reversed, ufo2ft/fontc convention)
  * `flattenInst`       flatten_glyph (glyph.rs:619)
  * `decomposeInst`     convert_components_to_contours (glyph.rs:445), breadth first exactly like the VecDeque
  * `inlineInst`        flatten_non_export_components_for_glyph (glyph.rs:312)
  * `splitInst`         split_glyph / move_contours_to_new_component (glyph.rs:52, 592)
  * `process`           the gating of GlyphOrderWork::exec (glyph.rs:845) + apply_optional_transformations (660)
  * `storeComp`         fontbe/src/glyphs.rs:86 create_component_ref_gid (otRound offsets, F2Dot14 2×2)

  Recursion through components is by fuel; `Fits G rk` (a rank that strictly decreases along component edges) is
  the explicit acyclicity hypothesis of the theorems (FontcProps/C12.lean).  Core Lean only.

  Not modelled (checked by the e2e oracle only): the `visited` set of convert_components_to_contours (glyph.rs:454),
  which suppresses a second visit with identical (location, base, accumulated transform, enumeration index) — such a
  visit would emit an exact duplicate of contours already emitted; which *locations* an operation adds to or keeps
  on a glyph (ensure_composite_defined_at_component_locations, glyph.rs:383).
-/
import FontcModel.Basic

namespace Fontc.Components
open Fontc

/-! ### Affine maps -/

structure Affine where
  a : Rat
  b : Rat
  c : Rat
  d : Rat
  e : Rat
  f : Rat
  deriving DecidableEq, Repr, Inhabited

namespace Affine

def id : Affine := ⟨1, 0, 0, 1, 0, 0⟩

/-- kurbo `impl Mul for Affine`: `s.comp t` = `s * t` (apply `t` first). -/
def comp (s t : Affine) : Affine :=
  ⟨s.a * t.a + s.c * t.b, s.b * t.a + s.d * t.b, s.a * t.c + s.c * t.d, s.b * t.c + s.d * t.d,
   s.a * t.e + s.c * t.f + s.e, s.b * t.e + s.d * t.f + s.f⟩

def det (t : Affine) : Rat := t.a * t.d - t.b * t.c

/-- UFO / designspace order `xx xy yx yy dx dy` is the kurbo order. -/
def ofList : List Rat → Affine
  | [a, b, c, d, e, f] => ⟨a, b, c, d, e, f⟩
  | _ => id

/-- `Component::has_nonidentity_2x2` (ir.rs:2063). -/
def nonIdentity2x2 (t : Affine) : Bool := !(t.a == 1 && t.b == 0 && t.c == 0 && t.d == 1)

/-- `has_overflowing_2x2_transforms` (ir.rs:1463): a 2×2 entry outside [-2, 2]. -/
def overflows (t : Affine) : Bool := [t.a, t.b, t.c, t.d].any fun v => v < -2 || 2 < v

end Affine

structure Pt where
  x : Rat
  y : Rat
  on : Bool
  deriving DecidableEq, Repr, Inhabited

abbrev Contour := List Pt

def Affine.apply (t : Affine) (p : Pt) : Pt := ⟨t.a * p.x + t.c * p.y + t.e, t.b * p.x + t.d * p.y + t.f, p.on⟩

/-- `BezPath::apply_affine`. -/
def applyC (t : Affine) (c : Contour) : Contour := c.map t.apply

/-- apply_affine followed by `reverse_subpaths` when the determinant is negative (glyph.rs:349-357, 491-500).
    Reversal is modelled as reversal of the point list (the start point kurbo keeps is immaterial: every
    comparison of drawings is modulo the start point). -/
def orient (t : Affine) (c : Contour) : Contour := if t.det < 0 then (applyC t c).reverse else applyC t c

/-! ### Glyph instances and environments -/

structure Comp where
  base : String
  t : Affine
  deriving DecidableEq, Repr, Inhabited

structure Inst where
  advance : Rat
  contours : List Contour
  comps : List Comp
  deriving Repr, Inhabited

abbrev Env := String → Option Inst

def Env.set (G : Env) (n : String) (i : Inst) : Env := fun m => if m = n then some i else G m

def Env.ofList (l : List (String × Inst)) : Env := fun n => l.lookup n

/-- Acyclicity, explicit: a rank that strictly decreases along every component edge. -/
def Fits (G : Env) (rk : String → Nat) : Prop :=
  ∀ n i, G n = some i → ∀ c ∈ i.comps, rk c.base < rk n

/-- `Reach G n m`: `m` is `n` or a glyph reachable from `n` through components. -/
inductive Reach (G : Env) : String → String → Prop
  | refl (n : String) : Reach G n n
  | step {n m : String} {i : Inst} {c : Comp} : G n = some i → c ∈ i.comps → Reach G c.base m → Reach G n m

/-! ### Resolving a glyph through its components -/

/-- Outline of glyph `n`: own contours, then for every component (in order) the base's outline under `tr c.t`.
    A missing base contributes nothing (prune_missing_components, glyph.rs:229). -/
def resolveWith (tr : Affine → Contour → Contour) (G : Env) : Nat → String → List Contour
  | 0, _ => []
  | fuel + 1, n =>
    match G n with
    | none => []
    | some i => i.contours ++ i.comps.flatMap fun c => (resolveWith tr G fuel c.base).map (tr c.t)

/-- What a TrueType rasteriser draws: component points are transformed, point order kept. -/
def resolve := resolveWith applyC

/-- The same walk with the accumulated transform carried down (the form convert_components_to_contours uses:
    `component_affine` is the product of the transforms on the path, glyph.rs:142, 474). -/
def resolveAcc (tr : Affine → Contour → Contour) (G : Env) : Nat → Affine → String → List Contour
  | 0, _, _ => []
  | fuel + 1, T, n =>
    match G n with
    | none => []
    | some i => i.contours.map (tr T) ++ i.comps.flatMap fun c => resolveAcc tr G fuel (T.comp c.t) c.base

/-- Orientation-corrected outline: every contour under its accumulated transform, reversed iff that transform's
    determinant is negative. This is exactly what full decomposition produces (`decompose_oriented`). -/
def resolveO (G : Env) (fuel : Nat) (n : String) : List Contour := resolveAcc orient G fuel Affine.id n

/-- Advance of a glyph: its own, never a component's. -/
def advanceOf (G : Env) (n : String) : Option Rat := (G n).map (·.advance)

/-- Same contours up to the direction of each one. -/
inductive RevEq : List Contour → List Contour → Prop
  | nil : RevEq [] []
  | cons {a b : Contour} {as bs : List Contour} : (a = b ∨ a = b.reverse) → RevEq as bs → RevEq (a :: as) (b :: bs)

/-- The relation C12 is about: the same multiset of contours, each up to direction.  (Start points are kept by
    every operation of the model; the e2e oracle additionally allows a rotation of the start point, which the
    backend's own `reverse_subpaths` / glyf point emission may introduce.) -/
def SameDrawing (xs ys : List Contour) : Prop := ∃ zs, List.Perm xs zs ∧ RevEq zs ys

/-! ### The operations, one instance at a time -/

/-- flatten_glyph's frontier loop for one component (glyph.rs:634-648): a component whose base has components
    is replaced, in place and depth first, by the base's components with composed transforms. -/
def flattenComp (G : Env) : Nat → Comp → List Comp
  | 0, c => [c]
  | fuel + 1, c =>
    match G c.base with
    | none => [c]
    | some r =>
      if r.comps.isEmpty then [c]
      else r.comps.flatMap fun rc => flattenComp G fuel ⟨rc.base, c.t.comp rc.t⟩

def flattenInst (G : Env) (fuel : Nat) (i : Inst) : Inst :=
  { i with comps := i.comps.flatMap (flattenComp G fuel) }

def childContours (G : Env) (c : Comp) : List Contour :=
  match G c.base with
  | none => []
  | some r => r.contours.map (orient c.t)

def childComps (G : Env) (c : Comp) : List Comp :=
  match G c.base with
  | none => []
  | some r => r.comps.map fun rc => ⟨rc.base, c.t.comp rc.t⟩

/-- convert_components_to_contours' queue (glyph.rs:455-502), one breadth-first level per step: the frontier
    holds (base, accumulated transform); every entry emits the base's contours under the accumulated transform
    (reversed when its determinant is negative) and enqueues the base's components behind the current level. -/
def decomposeLevels (G : Env) : Nat → List Comp → List Contour
  | 0, _ => []
  | fuel + 1, frontier =>
    frontier.flatMap (childContours G) ++ decomposeLevels G fuel (frontier.flatMap (childComps G))

def decomposeInst (G : Env) (fuel : Nat) (i : Inst) : Inst :=
  { i with contours := i.contours ++ decomposeLevels G fuel i.comps, comps := [] }

/-- flatten_non_export_components_for_glyph (glyph.rs:330-358): an exported component is kept; a non-exported
    one is replaced by its components (composed) and its contours (transformed, reversed when det < 0) are
    appended to the glyph's contours. One level: the pass runs in depth order. -/
def inlineContours (G : Env) (exported : String → Bool) (c : Comp) : List Contour :=
  if exported c.base then [] else childContours G c

def inlineComps (G : Env) (exported : String → Bool) (c : Comp) : List Comp :=
  match G c.base with
  | none => [c]
  | some _ => if exported c.base then [c] else childComps G c

def inlineInst (G : Env) (exported : String → Bool) (i : Inst) : Inst :=
  { i with contours := i.contours ++ i.comps.flatMap (inlineContours G exported),
           comps := i.comps.flatMap (inlineComps G exported) }

/-- split_glyph (glyph.rs:52): (simple glyph with the contours, composite with the components + the new glyph). -/
def splitInst (i : Inst) (newName : String) : Inst × Inst :=
  ({ i with comps := [] }, { i with contours := [], comps := i.comps ++ [⟨newName, Affine.id⟩] })

/-! ### fontbe: how a component is stored (fontbe/src/glyphs.rs:86) -/

/-- F2Dot14::from_f64: nearest 1/16384, saturating (2.0 is stored as 32767/16384). -/
def f2dot14 (x : Rat) : Rat := (f2dot14Bits x : Rat) / 16384

def storeAffine (t : Affine) : Affine :=
  ⟨f2dot14 t.a, f2dot14 t.b, f2dot14 t.c, f2dot14 t.d, (otRound t.e : Rat), (otRound t.f : Rat)⟩

def storeComp (c : Comp) : Comp := ⟨c.base, storeAffine c.t⟩

/-- Only the offsets rounded (the part of `storeAffine` `rounding_per_level` is about). -/
def roundOffset (t : Affine) : Affine := { t with e := (otRound t.e : Rat), f := (otRound t.f : Rat) }

def roundOffsets (G : Env) : Env := fun n =>
  (G n).map fun i => { i with comps := i.comps.map fun c => ⟨c.base, roundOffset c.t⟩ }

def TranslateOnly (G : Env) : Prop :=
  ∀ n i, G n = some i → ∀ c ∈ i.comps, c.t.a = 1 ∧ c.t.b = 0 ∧ c.t.c = 0 ∧ c.t.d = 1

/-- Pointwise distance (max norm) between two drawings of the same shape. -/
def closePt (ε : Rat) (p q : Pt) : Prop := ratAbs (p.x - q.x) ≤ ε ∧ ratAbs (p.y - q.y) ≤ ε ∧ p.on = q.on

inductive CloseC (ε : Rat) : Contour → Contour → Prop
  | nil : CloseC ε [] []
  | cons {p q : Pt} {ps qs : Contour} : closePt ε p q → CloseC ε ps qs → CloseC ε (p :: ps) (q :: qs)

inductive CloseCs (ε : Rat) : List Contour → List Contour → Prop
  | nil : CloseCs ε [] []
  | cons {c d : Contour} {cs ds : List Contour} : CloseC ε c d → CloseCs ε cs ds → CloseCs ε (c :: cs) (d :: ds)

/-- Row-sum norm of the 2×2 part: `‖A p‖∞ ≤ norm2x2 A · ‖p‖∞`. -/
def Affine.norm2x2 (t : Affine) : Rat :=
  let r1 := ratAbs t.a + ratAbs t.c
  let r2 := ratAbs t.b + ratAbs t.d
  if r1 < r2 then r2 else r1

/-- A chain of component transforms, outermost first, applied to a point of the innermost glyph. -/
def applyChain : List Affine → Pt → Pt
  | [], p => p
  | t :: ts, p => t.apply (applyChain ts p)

/-- The amplification of a unit offset error along a chain: Σ_k Π_{j<k} ‖A_j‖. -/
def chainBound : List Affine → Rat
  | [] => 0
  | t :: ts => 1 + t.norm2x2 * chainBound ts

/-! ### Option gating: GlyphOrderWork::exec -/

structure Flags where
  preferSimple : Bool
  flatten : Bool
  decomposeTransformed : Bool
  decomposeAll : Bool
  deriving Repr, DecidableEq, Inhabited

/-- fontir/src/orchestration.rs: PREFER_SIMPLE_GLYPHS = 1<<2, FLATTEN_COMPONENTS = 1<<3,
    DECOMPOSE_TRANSFORMED_COMPONENTS = 1<<4, DECOMPOSE_COMPONENTS = 1<<8. -/
def Flags.ofBits (n : Nat) : Flags := ⟨n.testBit 2, n.testBit 3, n.testBit 4, n.testBit 8⟩

/-- The executable state keeps the glyphs as an association list (latest binding first); `State.env` is the
    environment it denotes (`Env.ofList ((n, i) :: l) = (Env.ofList l).set n i`). -/
abbrev Glyphs := List (String × Inst)

structure State where
  /-- every glyph name in the context -/
  names : List String
  glyphs : Glyphs
  /-- new_glyph_order: the exported glyphs, then glyphs added by splitting -/
  order : List String

def State.env (st : State) : Env := Env.ofList st.glyphs

def Inst.mixed (i : Inst) : Bool := !i.comps.isEmpty && !i.contours.isEmpty

/-- Component depth (fontdrasil/src/util.rs:18 depth_sorted_composite_glyphs). -/
def depth (G : Env) : Nat → String → Nat
  | 0, _ => 0
  | fuel + 1, n =>
    match G n with
    | none => 0
    | some i => if i.comps.isEmpty then 0 else 1 + (i.comps.map fun c => depth G fuel c.base).foldl max 0

def strLe (a b : String) : Bool := a < b || a == b

def depthOrder (G : Env) (names : List String) : List String :=
  let keyed := names.map fun n => (depth G names.length n, n)
  (keyed.mergeSort fun x y => x.1 < y.1 || (x.1 == y.1 && strLe x.2 y.2)).map (·.2)

/-- flatten_all_non_export_components (glyph.rs:290). -/
def inlineAll (exported : String → Bool) (names : List String) (gl : Glyphs) : Glyphs :=
  (depthOrder (Env.ofList gl) names).foldl (fun gl n =>
    let G := Env.ofList gl
    match G n with
    | none => gl
    | some i => if i.comps.any (fun c => !exported c.base) then (n, inlineInst G exported i) :: gl else gl) gl

/-- name_for_derivative (glyph.rs:37). -/
def derivativeName (base : String) (order : List String) : Nat → Nat → String
  | 0, k => s!"{base}.{k}"
  | fuel + 1, k => if order.contains s!"{base}.{k}" then derivativeName base order fuel (k + 1) else s!"{base}.{k}"

inductive GlyphOp where
  | toContour
  | moveContours
  deriving Repr, DecidableEq

/-- Names of the glyphs reachable through the components of `cs` (resolve_inconsistencies' inner walk). -/
def reachable (G : Env) : Nat → List String → List String
  | 0, _ => []
  | fuel + 1, ns => ns ++ reachable G fuel (ns.flatMap fun n => match G n with | none => [] | some i => i.comps.map (·.base))

def applyFix (fuel : Nat) (st : State) (op : GlyphOp) (n : String) (orig : Inst) : State :=
  match op with
  | .toContour => { st with glyphs := (n, decomposeInst st.env fuel orig) :: st.glyphs }
  | .moveContours =>
    let nn := derivativeName n st.order (st.order.length + 1) 0
    let (simple, composite) := splitInst orig nn
    { st with glyphs := (n, composite) :: (nn, simple) :: st.glyphs, order := st.order ++ [nn], names := st.names ++ [nn] }

/-- resolve_inconsistencies (glyph.rs:172): a fix is applied only when no glyph reachable from it is still pending;
    otherwise it goes to the back of the queue. -/
def resolveInconsistencies (dfuel : Nat) : Nat → State → List (GlyphOp × String × Inst) → State
  | 0, st, _ => st
  | _ + 1, st, [] => st
  | fuel + 1, st, (op, n, orig) :: rest =>
    let pending := ((op, n, orig) :: rest).map (·.2.1)
    let below := reachable st.env dfuel (orig.comps.map (·.base))
    if below.any pending.contains then resolveInconsistencies dfuel fuel st (rest ++ [(op, n, orig)])
    else resolveInconsistencies dfuel fuel (applyFix dfuel st op n orig) rest

/-- apply_optional_transformations (glyph.rs:660). -/
def applyOptional (fl : Flags) (fuel : Nat) (st : State) : State :=
  let upd (st : State) (n : String) (f : Env → Inst → Option Inst) : State :=
    match st.env n with
    | none => st
    | some i => match f st.env i with
      | none => st
      | some i' => { st with glyphs := (n, i') :: st.glyphs }
  if fl.decomposeAll then
    st.order.foldl (fun st n => upd st n fun G i => if i.comps.isEmpty then none else some (decomposeInst G fuel i)) st
  else
    let st := if fl.decomposeTransformed then
        st.order.foldl (fun st n => upd st n fun G i =>
          if i.comps.any (·.t.nonIdentity2x2) then some (decomposeInst G fuel i) else none) st
      else st
    if fl.flatten then
      st.order.foldl (fun st n => upd st n fun G i => if i.comps.isEmpty then none else some (flattenInst G fuel i)) st
    else st

/-- GlyphOrderWork::exec (glyph.rs:845-971) at one location. `inconsistent n`: the glyph's component 2×2s vary
    over the designspace (`has_consistent_components`, not visible at a single location). -/
def process (fl : Flags) (exported : String → Bool) (inconsistent : String → Bool) (names : List String) (gl : Glyphs) : State :=
  let fuel := names.length + 2
  -- flatten_all_non_export_components
  let gl1 := inlineAll exported names gl
  let G1 := Env.ofList gl1
  let order := names.filter exported
  -- glyph.rs:893: components that are not retained force decomposition
  let gl2 := order.foldl (fun gl n =>
    let G := Env.ofList gl
    match G n with
    | none => gl
    | some i => if i.comps.any (fun c => !order.contains c.base) then (n, decomposeInst G fuel i) :: gl else gl) gl1
  -- glyph.rs:909: the todo list is computed on the glyphs as they were after inlining (`original_glyphs`)
  let todo : List (GlyphOp × String × Inst) := order.filterMap fun n =>
    match G1 n with
    | none => none
    | some i =>
      if inconsistent n then some (.toContour, n, i)
      else if i.comps.any (·.t.overflows) then some (.toContour, n, i)
      else if i.mixed then some (if fl.preferSimple then .toContour else .moveContours, n, i)
      else none
  let st := resolveInconsistencies fuel ((todo.length + 1) * (todo.length + 1)) ⟨names, gl2, order⟩ todo
  applyOptional fl fuel st

end Fontc.Components
