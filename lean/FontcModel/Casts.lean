/-
  C19 model: every narrowing on the path  source value → binary field, with its ACTUAL Rust semantics.

  Rust semantics modelled (the language reference, "Numeric cast" / arithmetic overflow):
    * float → integer `as`            truncates toward zero, then SATURATES            (`asI16`, `asU16`)
    * wider int → narrower int `as`   keeps the low bits, i.e. WRAPS                   (`wrapU16`, `wrapI16`)
    * `a + b`, `a - b` on u16 / i16   dev profile (overflow-checks on): PANIC on overflow;
                                      release profile: WRAP                             (`addU16`, `subU16`, `subI16`)
    * `try_into()` / `try_from`       checked; `.unwrap()` → panic, `.map_err(..)?` → error
    * `assert!`                       panics in both profiles

  Two pipelines: `fieldPipelineOld` = fontc 61b7940 (before the fixes), `fieldPipeline` = the current tree with the range
  checks of d8817db / 944e88e / f8fa190 in front of the narrowing sites below (section 3b).

  Where each field is narrowed (line numbers of fontc 61b7940, write-fonts 0.49.2, font-types 0.12.5):
    outline x / y           write-fonts tables/glyf/simple.rs:403-407  `pt.point.ot_round()` : (i16,i16); round.rs:17 `(x+0.5).floor() as i16`
    glyf point delta        write-fonts tables/glyf/simple.rs:113-114  `point.x - last_x` on i16 (unchecked `-`)
    contour end point       write-fonts tables/glyf/simple.rs:281      `(cur as u16 - 1)` (wrapping cast, then unchecked `-`)
    number of contours      write-fonts tables/glyf/simple.rs:268      `assert!(self.contours.len() < i16::MAX as usize)`
    component offset        fontbe/src/glyphs.rs:106-109               `e.ot_round()` : i16
    component 2x2 entry     fontir/src/ir.rs:1463-1490 (decompose when outside [-2,2]), fontbe/src/glyphs.rs:110-115
                            `F2Dot14::from_f64`, font-types fixed.rs:316-321 `(x*16384 + ±0.5) as i16`
    advance width / height  fontbe/src/metrics_and_limits.rs:332-337 `width.ot_round()` : u16; fontir/src/ir.rs:1827-1835 (height)
    lsb                     metrics_and_limits.rs:341 (= bbox.x_min, an i16 from `Bbox::from(Rect)`, write-fonts glyf.rs:81-90)
    tsb                     fontbe/src/vertical_metrics.rs:86-87       `vertical_origin - bbox.y_max` on i16 (unchecked `-`)
    min rsb / max extent    metrics_and_limits.rs:125-141              explicit clamp to i16
    kerning / anchor value  fontbe/src/features.rs:224-231             `.sum::<f64>().ot_round()` : i16
    kerning / anchor delta  fontbe/src/features.rs:244-247             `value.ot_round()` : i16
    gvar delta              write-fonts tables/gvar/iup.rs:439,566, fontbe/src/glyphs.rs:320 `delta.to_point().ot_round()` : (i16,i16)
    HVAR / VVAR delta       fontbe/src/metric_variations.rs:163-166    `values[0].ot_round()` : i16
    fontinfo metric         fontbe/src/os2.rs:259-279, metrics_and_limits.rs:355-364, post.rs:86-87 `ot_round()` : i16 / u16
    glyph count             metrics_and_limits.rs:405                  `glyph_order.len().try_into().unwrap()`
    long metric count       metrics_and_limits.rs:365-370              `try_into().map_err(OutOfBounds)?`
    maxp point / contour / component counts   metrics_and_limits.rs:198,199,212   `usize as u16`
    maxp composite totals   metrics_and_limits.rs:257-264              `acc.max_points + e.max_points` on u16 (unchecked `+`)

  Core Lean only: linked into the native driver.
-/
import FontcModel.Basic

namespace Fontc.Casts
open Fontc

/-! ## 0. Profiles and outcomes -/

/-- cargo's `dev` profile (overflow-checks = true) vs `release` (overflow-checks = false). -/
inductive Profile where
  | debug | release
  deriving DecidableEq, Repr, Inhabited

/-- How a pipeline ends. `ok v`: a font is emitted and a reader of the format decodes `v` from the field.
    `panic`: an arithmetic-overflow trap, `assert!` or `unwrap()` fires; fontc's worker catches it and the
    build FAILS ("A task panicked"). `err`: a checked conversion returns an `Error`; the build fails.
    `fallback`: the value is not stored at all — the glyph is decomposed to a plain outline (shape preserved). -/
inductive Outcome where
  | ok (v : Rat)
  | panic
  | err
  | fallback
  deriving DecidableEq, Repr, Inhabited

def Outcome.isOk : Outcome → Bool
  | .ok _ => true
  | _ => false

/-- A build that stops (panic or error) — both are "the build fails" to the user. -/
def Outcome.fails : Outcome → Bool
  | .panic => true
  | .err => true
  | _ => false

/-! ## 1. The primitive conversions -/

/-- truncation toward zero (the first step of a float → int `as`) -/
def truncI (x : Rat) : Int := if x < 0 then -((-x).floor) else x.floor

/-- Rust `x as i16` for a float `x` -/
def asI16 (x : Rat) : Int := satI16 (truncI x)
/-- Rust `x as u16` for a float `x` -/
def asU16 (x : Rat) : Int := satU16 (truncI x)

/-- `OtRound<i16> for f64`: `(x + 0.5).floor() as i16` -/
def otRoundI16 (x : Rat) : Int := satI16 (otRound x)
/-- `OtRound<u16> for f64`: `(x + 0.5).floor() as u16` -/
def otRoundU16 (x : Rat) : Int := satU16 (otRound x)

/-- `F2Dot14::from_f64(x)`: `(x * 16384.0 + (±0.5)) as i16`; the stored bits. -/
def f2dot14FromF64 (x : Rat) : Int :=
  asI16 (x * 16384 + (if 0 ≤ x then 1/2 else -1/2))

/-- what a reader decodes from 2.14 bits -/
def f2dot14ToRat (bits : Int) : Rat := (bits : Rat) / 16384

/-- round half away from zero (the un-saturated `F2Dot14::from_f64`) -/
def roundHalfAway (x : Rat) : Int := truncI (x + (if 0 ≤ x then 1/2 else -1/2))

def inI16 (v : Int) : Prop := -32768 ≤ v ∧ v ≤ 32767
def inU16 (v : Int) : Prop := 0 ≤ v ∧ v ≤ 65535
instance (v : Int) : Decidable (inI16 v) := by unfold inI16; infer_instance
instance (v : Int) : Decidable (inU16 v) := by unfold inU16; infer_instance

/-- `a + b` on u16 -/
def addU16 (p : Profile) (a b : Int) : Outcome :=
  if a + b ≤ 65535 then .ok ((a + b : Int) : Rat)
  else match p with
    | .debug => .panic
    | .release => .ok ((wrapU16 (a + b) : Int) : Rat)

/-- `a - b` on u16 -/
def subU16 (p : Profile) (a b : Int) : Outcome :=
  if 0 ≤ a - b then .ok ((a - b : Int) : Rat)
  else match p with
    | .debug => .panic
    | .release => .ok ((wrapU16 (a - b) : Int) : Rat)

/-- `a - b` on i16 -/
def subI16 (p : Profile) (a b : Int) : Outcome :=
  if inI16 (a - b) then .ok ((a - b : Int) : Rat)
  else match p with
    | .debug => .panic
    | .release => .ok ((wrapI16 (a - b) : Int) : Rat)

/-! ## 2. Multi-value stages (the parts of the path that are not a function of one number) -/

/-- `SimpleGlyph::compute_point_deltas` on one axis: the stored deltas of a coordinate sequence
    (`last` starts at 0). `none` = the i16 subtraction trapped (dev profile). -/
def encodeDeltas (p : Profile) : Int → List Int → Option (List Int)
  | _, [] => some []
  | last, x :: xs =>
    let d := x - last
    if inI16 d then (encodeDeltas p x xs).map (d :: ·)
    else match p with
      | .debug => none
      | .release => (encodeDeltas p x xs).map (wrapI16 d :: ·)

/-- what the OpenType spec (and FreeType / skrifa's `read_points_fast`) decode: the running sum of the
    stored deltas in a wide accumulator -/
def decodeDeltas : Int → List Int → List Int
  | _, [] => []
  | acc, d :: ds => (acc + d) :: decodeDeltas (acc + d) ds

/-- fold of `acc.max_points + e.max_points` over the components of one composite glyph -/
def foldAddU16 (p : Profile) : Int → List Int → Outcome
  | acc, [] => .ok (acc : Rat)
  | acc, e :: es =>
    if acc + e ≤ 65535 then foldAddU16 p (acc + e) es
    else match p with
      | .debug => .panic
      | .release => foldAddU16 p (wrapU16 (acc + e)) es

/-! ## 3. The table of fields -/

inductive Field where
  /-- x or y of an outline point (glyf simple glyph; also the glyph bbox → head xMin…, and lsb) -/
  | outlineCoord
  /-- stored difference of two successive point coordinates (input: the mathematical difference) -/
  | pointDelta
  /-- component x / y offset -/
  | compOffset
  /-- component 2×2 entry (2.14) -/
  | comp2x2
  /-- advance width (hmtx) / advance height (vmtx) -/
  | advance
  /-- left side bearing = xMin -/
  | lsb
  /-- top side bearing = vertical origin − yMax (input: the mathematical difference) -/
  | tsb
  /-- hhea minRightSideBearing / xMaxExtent (derived; input: the mathematical value) -/
  | rsbExtent
  /-- kerning value (default location) -/
  | kernValue
  /-- anchor x / y (default location) -/
  | anchorCoord
  /-- kerning / anchor delta in the GDEF variation store (input: the mathematical delta) -/
  | valueDelta
  /-- gvar point / component-offset delta -/
  | gvarDelta
  /-- HVAR / VVAR advance delta -/
  | hvarDelta
  /-- fontinfo number with a signed 16-bit field (ascender, typoAscender, underlinePosition …) -/
  | metricI16
  /-- fontinfo number with an unsigned 16-bit field (winAscent, winDescent) -/
  | metricU16
  /-- maxp.numGlyphs -/
  | glyphCount
  /-- hhea.numberOfHMetrics -/
  | longMetricCount
  /-- maxp.maxPoints / maxContours / maxComponentElements (per-glyph counts) -/
  | countU16
  /-- endPtsOfContours entry (input: the cumulative number of points, ≥ 1) -/
  | endPt
  /-- numberOfContours of a simple glyph -/
  | numContours
  /-- maxp.maxCompositePoints / maxCompositeContours of a composite (input: the true total over its components) -/
  | compositeTotal
  /-- bounding box entry of a COMPOSITE glyph (glyph header, head xMin…, and its lsb): computed from the transformed
      component outlines, `Bbox::from(Rect)` = `ot_round()` : i16 (fontbe/src/glyphs.rs compute_composite_bboxes) -/
  | compositeBbox
  deriving DecidableEq, Repr, Inhabited

def Field.all : List Field :=
  [.outlineCoord, .pointDelta, .compOffset, .comp2x2, .advance, .lsb, .tsb, .rsbExtent, .kernValue, .anchorCoord,
   .valueDelta, .gvarDelta, .hvarDelta, .metricI16, .metricU16, .glyphCount, .longMetricCount, .countU16, .endPt,
   .numContours, .compositeTotal, .compositeBbox]

/-- a count as the code sees it: a `usize` -/
def cnt (v : Rat) : Int := (v.floor.toNat : Int)

/-- `fieldPipelineOld f v p`: what the code did BEFORE the fixes d8817db / 944e88e / f8fa190 (fontc 61b7940) with source value `v`
    destined for field `f` under profile `p`. Kept for history: its counterexamples are the defects F7 / F8. -/
def fieldPipelineOld : Field → Rat → Profile → Outcome
  | .outlineCoord, v, _ => .ok (otRoundI16 v : Int)
  | .pointDelta, v, p => subI16 p v.floor 0
  | .compOffset, v, _ => .ok (otRoundI16 v : Int)
  | .comp2x2, v, _ => if -2 ≤ v ∧ v ≤ 2 then .ok (f2dot14ToRat (f2dot14FromF64 v)) else .fallback
  | .advance, v, _ => .ok (otRoundU16 v : Int)
  | .lsb, v, _ => .ok (otRoundI16 v : Int)
  | .tsb, v, p => subI16 p v.floor 0
  | .rsbExtent, v, _ => .ok (satI16 v.floor : Int)
  | .kernValue, v, _ => .ok (otRoundI16 v : Int)
  | .anchorCoord, v, _ => .ok (otRoundI16 v : Int)
  | .valueDelta, v, _ => .ok (otRoundI16 v : Int)
  | .gvarDelta, v, _ => .ok (otRoundI16 v : Int)
  | .hvarDelta, v, _ => .ok (otRoundI16 v : Int)
  | .metricI16, v, _ => .ok (otRoundI16 v : Int)
  | .metricU16, v, _ => .ok (otRoundU16 v : Int)
  | .glyphCount, v, _ => if cnt v ≤ 65535 then .ok (cnt v : Int) else .panic
  | .longMetricCount, v, _ => if cnt v ≤ 65535 then .ok (cnt v : Int) else .err
  | .countU16, v, _ => .ok (wrapU16 (cnt v) : Int)
  | .endPt, v, p => subU16 p (wrapU16 (cnt v)) 1
  | .numContours, v, _ => if cnt v ≤ 32766 then .ok (cnt v : Int) else .panic   -- `len < i16::MAX`
  | .compositeTotal, v, p => addU16 p 0 (cnt v)
  | .compositeBbox, v, _ => .ok (otRoundI16 v : Int)

/-- The value the field is MEANT to carry: the format's own rounding rule applied to the source value, in
    unbounded integers (no saturation, no wrap). -/
def ideal : Field → Rat → Rat
  | .outlineCoord, v | .compOffset, v | .advance, v | .lsb, v | .kernValue, v | .anchorCoord, v
  | .valueDelta, v | .gvarDelta, v | .hvarDelta, v | .metricI16, v | .metricU16, v | .compositeBbox, v => (otRound v : Int)
  | .comp2x2, v => ((roundHalfAway (v * 16384) : Int) : Rat) / 16384
  | .endPt, v => (cnt v - 1 : Int)
  | .pointDelta, v | .tsb, v | .rsbExtent, v => (v.floor : Int)
  | .glyphCount, v | .longMetricCount, v | .countU16, v | .numContours, v | .compositeTotal, v => (cnt v : Int)

/-- The explicit, decidable range predicate: the ideal value fits the field (and, for the three fields with a
    code-imposed limit tighter than the format's — 2×2 entries, contour count, end points — the code accepts it). -/
def Representable : Field → Rat → Prop
  | .outlineCoord, v | .compOffset, v | .lsb, v | .kernValue, v | .anchorCoord, v
  | .valueDelta, v | .gvarDelta, v | .hvarDelta, v | .metricI16, v | .compositeBbox, v => inI16 (otRound v)
  | .advance, v | .metricU16, v => inU16 (otRound v)
  | .pointDelta, v | .tsb, v | .rsbExtent, v => inI16 v.floor
  | .comp2x2, v => -2 ≤ v ∧ roundHalfAway (v * 16384) ≤ 32767
  | .glyphCount, v | .longMetricCount, v | .countU16, v | .compositeTotal, v => cnt v ≤ 65535
  | .endPt, v => 1 ≤ cnt v ∧ cnt v ≤ 65535
  | .numContours, v => cnt v ≤ 32766

instance (f : Field) (v : Rat) : Decidable (Representable f v) := by
  cases f <;> unfold Representable <;> infer_instance

/-- Fields whose pipeline contains an unchecked fixed-width `+` / `-`: the only ones on which the two build
    profiles can differ. -/
def profileSensitiveOld : Field → Bool
  | .pointDelta | .tsb | .endPt | .compositeTotal => true
  | _ => false

/-- The property, per field: the build fails, falls back, or the emitted value is the ideal one. -/
def RejectsOrExactOld (f : Field) (v : Rat) (p : Profile) : Prop :=
  match fieldPipelineOld f v p with
  | .ok w => w = ideal f v
  | _ => True

instance (f : Field) (v : Rat) (p : Profile) : Decidable (RejectsOrExactOld f v p) := by
  unfold RejectsOrExactOld; split <;> infer_instance

/-! ## 3b. The pipeline of the CURRENT code (after the fixes)

  d8817db  fontbe/src/glyphs.rs: `check_path_bounds` (outline coordinates of every master), `check_encodable` (successive
           point differences of the default outline, more than 65535 points), component offsets at the default
           location, every non-default gvar delta — `Error::OutOfBounds` instead of clamping / panicking / wrapping;
  944e88e  fontbe/src/metrics_and_limits.rs, vertical_metrics.rs, metric_variations.rs: advance width / height, HVAR / VVAR
           deltas, `u16::try_from` for the maxp counts, `checked_add` for the composite totals;
  f8fa190  fontbe/src/features.rs `round_to_i16` (+ `DeltaError::OutOfRange`): kerning / anchor values and deltas.
  NOT changed: top side bearing (unchecked i16 `-`), hhea/vhea min second side bearing and max extent (explicit clamp),
  composite bounding boxes (saturating), fontinfo metrics (saturating `ot_round()`), 2.14 saturation on [2-2^-15, 2]. -/

/-- a range check added by the fixes: the value or `Error::OutOfBounds` -/
def checkedI16 (r : Int) : Outcome := if inI16 r then .ok (r : Int) else .err
def checkedU16 (r : Int) : Outcome := if inU16 r then .ok (r : Int) else .err

/-- `fieldPipeline f v p`: what the code does NOW with source value `v` destined for field `f` under profile `p`. -/
def fieldPipeline : Field → Rat → Profile → Outcome
  | .outlineCoord, v, _ => checkedI16 (otRound v)
  | .pointDelta, v, _ => checkedI16 v.floor
  | .compOffset, v, _ => checkedI16 (otRound v)
  | .comp2x2, v, _ => if -2 ≤ v ∧ v ≤ 2 then .ok (f2dot14ToRat (f2dot14FromF64 v)) else .fallback
  | .advance, v, _ => checkedU16 (otRound v)
  -- xMin of a simple glyph: the minimum of coordinates that all passed `check_path_bounds`
  | .lsb, v, _ => checkedI16 (otRound v)
  | .tsb, v, p => subI16 p v.floor 0
  | .rsbExtent, v, _ => .ok (satI16 v.floor : Int)
  | .kernValue, v, _ => checkedI16 (otRound v)
  | .anchorCoord, v, _ => checkedI16 (otRound v)
  | .valueDelta, v, _ => checkedI16 (otRound v)
  | .gvarDelta, v, _ => checkedI16 (otRound v)
  | .hvarDelta, v, _ => checkedI16 (otRound v)
  | .metricI16, v, _ => .ok (otRoundI16 v : Int)
  | .metricU16, v, _ => .ok (otRoundU16 v : Int)
  | .glyphCount, v, _ => if cnt v ≤ 65535 then .ok (cnt v : Int) else .panic
  | .longMetricCount, v, _ => if cnt v ≤ 65535 then .ok (cnt v : Int) else .err
  | .countU16, v, _ => checkedU16 (cnt v)
  -- `assert!(!contour.is_empty())` (glyphs.rs) for 0 points; more than 65535 points rejected by `check_encodable`
  | .endPt, v, _ => if cnt v = 0 then .panic else if cnt v ≤ 65535 then .ok ((cnt v - 1 : Int) : Rat) else .err
  | .numContours, v, _ => if cnt v ≤ 32766 then .ok (cnt v : Int) else .panic   -- `len < i16::MAX`
  | .compositeTotal, v, _ => checkedU16 (cnt v)
  | .compositeBbox, v, _ => .ok (otRoundI16 v : Int)

/-- The fields the fixes did not touch and on which a differing value can still be emitted. -/
def isOpen : Field → Bool
  | .tsb | .rsbExtent | .compositeBbox | .metricI16 | .metricU16 | .comp2x2 => true
  | _ => false

/-- The only field that still contains an unchecked fixed-width subtraction. -/
def profileSensitive : Field → Bool
  | .tsb => true
  | _ => false

def Overflows : Field → Rat → Prop
  | .tsb, v => ¬ inI16 v.floor
  | _, _ => False

instance (f : Field) (v : Rat) : Decidable (Overflows f v) := by
  cases f <;> unfold Overflows <;> infer_instance

/-- The property, per field, of the current code: the build fails, falls back, or the emitted value is the ideal one. -/
def RejectsOrExact (f : Field) (v : Rat) (p : Profile) : Prop :=
  match fieldPipeline f v p with
  | .ok w => w = ideal f v
  | _ => True

instance (f : Field) (v : Rat) (p : Profile) : Decidable (RejectsOrExact f v p) := by
  unfold RejectsOrExact; split <;> infer_instance

/-- `checked_add` fold of the composite totals (saturate, remember the overflow, report it at the end). -/
def foldCheckedAdd : Int → Bool → List Int → Outcome
  | acc, ovf, [] => if ovf then .err else .ok (acc : Rat)
  | acc, ovf, e :: es => if acc + e ≤ 65535 then foldCheckedAdd (acc + e) ovf es else foldCheckedAdd 65535 true es

/-! ## 4. End-to-end predictions used by the driver (compositions of the stages above) -/

/-- Value a reader finds at a NON-default master for a field stored as default + delta·1:
    `store`/`delta` are the narrowing of the default value and of the delta, `mv` the (rounded) master values. -/
def atMasterI16Old (v0 v1 : Rat) : Int :=
  let d := otRoundI16 v0
  d + otRoundI16 ((otRound v1 - d : Int) : Rat)

/-- hmtx + HVAR at the second master: hmtx stores `otRoundU16 v0`; the HVAR delta is computed between the
    UNSATURATED rounded advances (`OtRound<f64>`, metric_variations.rs:106) and then narrowed to i16. -/
def advanceAtMasterOld (v0 v1 : Rat) : Int :=
  otRoundU16 v0 + otRoundI16 ((otRound v1 - otRound v0 : Int) : Rat)

/-! ## 5. Predicates used in the statements of FontcProps/C19.lean -/

/-- where an unchecked fixed-width `+`/`-` overflows (the only source of profile dependence) -/
def OverflowsOld : Field → Rat → Prop
  | .pointDelta, v | .tsb, v => ¬ inI16 v.floor
  | .endPt, v => wrapU16 (cnt v) = 0
  | .compositeTotal, v => 65535 < cnt v
  | _, _ => False

instance (f : Field) (v : Rat) : Decidable (OverflowsOld f v) := by
  cases f <;> unfold OverflowsOld <;> infer_instance


/-- the ten fields narrowed by `ot_round()` into an i16 (before the fixes) -/
def isI16Round : Field → Bool
  | .outlineCoord | .compOffset | .lsb | .kernValue | .anchorCoord | .valueDelta | .gvarDelta | .hvarDelta | .metricI16
  | .compositeBbox => true
  | _ => false

def isU16Round : Field → Bool
  | .advance | .metricU16 => true
  | _ => false


/-- all successive differences (starting from `last`) fit an i16 -/
def DiffsFit : Int → List Int → Prop
  | _, [] => True
  | last, x :: xs => inI16 (x - last) ∧ DiffsFit x xs

instance : (last : Int) → (xs : List Int) → Decidable (DiffsFit last xs)
  | _, [] => isTrue trivial
  | last, x :: xs => by
    unfold DiffsFit
    have := instDecidableDiffsFit x xs
    infer_instance


/-- the glyf encoder behind `check_encodable` (current code): rejected unless every successive difference fits -/
def encodeDeltasChecked (p : Profile) (xs : List Int) : Option (List Int) :=
  if DiffsFit 0 xs then encodeDeltas p 0 xs else none

/-- sum of a list of counts -/
def listSum : List Int → Int
  | [] => 0
  | x :: xs => x + listSum xs


end Fontc.Casts
