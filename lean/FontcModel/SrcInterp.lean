/-
  The source's own meaning of "glyph g at location L": the master drawn at L if there is one, otherwise the
  designspace interpolation of the masters that draw g (unrounded variation model) — used by the end-to-end
  oracles wherever a component's base glyph has no master at a composite's (sparse) master location.
-/
import FontcModel.E2E
import FontcModel.VarModel

namespace Fontc.E2E
open Fontc Fontc.VarModel

/-- Interpolate value vectors given at sample locations (must include the default) at `at_`. -/
def interpValues (nAxes : Nat) (samples : List (Loc × List Rat)) (at_ : Loc) : List Rat :=
  match samples.find? (·.1 == at_) with
  | some (_, v) => v
  | none =>
    let m := Model.new nAxes (samples.map (·.1))
    let nvals := (samples.head?.map (·.2.length)).getD 0
    (List.range nvals).map fun k =>
      let vals : Values := m.locations.map fun l =>
        match samples.find? (·.1 == l) with
        | some (_, v) => v[k]?
        | none => none
      interpolate m.influence (m.deltas Rounding.none.apply vals) at_

def SGlyph.toVector (g : SGlyph) : List Rat :=
  [g.advance, g.height.getD 0] ++ g.contours.flatMap (fun c => c.flatMap fun p => [p.x, p.y]) ++
    g.components.flatMap (·.t) ++ g.anchors.flatMap fun (_, x, y) => [x, y]

/-- Rebuild a glyph with the structure of `g` from a value vector. -/
def SGlyph.ofVector (g : SGlyph) (v : List Rat) : SGlyph :=
  let adv := v.getD 0 0
  let h := g.height.map fun _ => v.getD 1 0
  let rec fillContours (cs : List (List SPt)) (v : List Rat) : List (List SPt) × List Rat :=
    match cs with
    | [] => ([], v)
    | c :: rest =>
      let pts := c.zipIdx.map fun (p, i) => { p with x := v.getD (2 * i) 0, y := v.getD (2 * i + 1) 0 }
      let (more, v') := fillContours rest (v.drop (2 * c.length))
      (pts :: more, v')
  let (contours, v1) := fillContours g.contours (v.drop 2)
  let comps := g.components.zipIdx.map fun (c, i) => { c with t := (v1.drop (6 * i)).take 6 }
  let v2 := v1.drop (6 * g.components.length)
  let anchors := g.anchors.zipIdx.map fun ((n, _, _), i) => (n, v2.getD (2 * i) 0, v2.getD (2 * i + 1) 0)
  { g with advance := adv, height := h, contours, components := comps, anchors }

/-- The source glyph at normalized location `at_`. -/
def Design.glyphAt (d : Design) (name : String) (at_ : Loc) : Option SGlyph :=
  let ms := d.masters.filter fun m => (m.glyph? name).isSome
  let dm : SMaster := d.masters.getD (Design.default d) Inhabited.default
  match dm.glyph? name with
  | none => none
  | some g0 =>
    match ms.find? (·.nloc == at_) with
    | some m => m.glyph? name
    | none =>
      let samples := ms.filterMap fun m => (m.glyph? name).map fun g => (m.nloc, g.toVector)
      some (g0.ofVector (interpValues d.axes.length samples at_))

end Fontc.E2E
