/-
  Model of fontdrasil/src/piecewise_linear_map.rs (`PiecewiseLinearMap`) and of
  fontdrasil/src/coords.rs (`CoordConverter`), over exact rationals.
  Core Lean only (linked into the native driver).

  f64 is modelled as `Rat`; `OrderedFloat` ordering is the order of `Rat` (no NaN crosses the protocol).
-/

namespace Fontc.Plm

/-- One mapping example `(from, to)`. -/
abbrev Pt := Rat × Rat

/-- `Ord` of `(OrderedFloat<f64>, OrderedFloat<f64>)`: lexicographic (piecewise_linear_map.rs:20 `mappings.sort()`). -/
def ptLe (a b : Pt) : Bool := a.1 < b.1 || (a.1 == b.1 && a.2 ≤ b.2)

/-- `PiecewiseLinearMap`: the two parallel vectors `from`/`to` kept zipped. -/
structure Plm where
  pts : List Pt
  deriving Repr, BEq, Inhabited

/-- insertion into a sorted list (structural recursion, so that concrete instances reduce by `decide`) -/
def insertPt (x : Pt) : List Pt → List Pt
  | [] => [x]
  | y :: t => if ptLe x y then x :: y :: t else y :: insertPt x t

/-- `Vec::sort` on `(from, to)` pairs. `ptLe` is a total order in which ties are identical pairs, so the sorted
    vector is unique and any sorting algorithm models it; insertion sort is used because it is structurally recursive. -/
def sortPts (l : List Pt) : List Pt := l.foldr insertPt []

/-- piecewise_linear_map.rs:19-23 `PiecewiseLinearMap::new`: sort the pairs, unzip. -/
def Plm.new (mappings : List Pt) : Plm := ⟨sortPts mappings⟩

/-- piecewise_linear_map.rs:33-41 `reverse`: swap every pair and re-sort. -/
def Plm.reverse (p : Plm) : Plm := Plm.new (p.pts.map fun q => (q.2, q.1))

/-- piecewise_linear_map.rs:99-102 `lerp` (the `assert!` on `t` cannot fire for exact arithmetic
    with `lhs < value < rhs`). -/
def lerp (a b t : Rat) : Rat := a + t * (b - a)

/--
  The scan below is `map` (piecewise_linear_map.rs:52-96) on the *sorted* vector that `new` guarantees.
  `prev` is the last entry with `from < value`.
  * an entry with `from == value` exists ⇒ `binary_search` is `Ok(_)` and the code returns
    `to[partition_point(|x| x < value)]`, the **first** such entry (l.58-64): that is the first entry the scan
    meets whose `from` is not `< value`;
  * otherwise `Err(idx)` with `idx` = number of entries `< value`: lerp between `idx-1` and `idx` (l.85-93),
    or, past the last entry, `value + to[len-1] - from[len-1]` (l.77-82).
-/
def mapGo (v : Rat) : Pt → List Pt → Rat
  | prev, [] => v + prev.2 - prev.1
  | prev, q :: rest =>
    if q.1 < v then mapGo v q rest
    else if q.1 == v then q.2
    else lerp prev.2 q.2 ((v - prev.1) / (q.1 - prev.1))

/-- `PiecewiseLinearMap::map` (piecewise_linear_map.rs:52). Empty map: identity (l.53-55).
    Below the first entry: `value + to[0] - from[0]` (l.72-75). -/
def Plm.map (p : Plm) (v : Rat) : Rat :=
  match p.pts with
  | [] => v
  | q :: rest =>
    if q.1 < v then mapGo v q rest
    else if q.1 == v then q.2
    else v + q.2 - q.1

/-- Error of `CoordConverter::new` (coords.rs:203 `Error::DefaultOutOfBounds`). -/
inductive ConvError where
  | defaultOutOfBounds
  deriving Repr, DecidableEq, Inhabited

/-- `CoordConverter` (coords.rs:177-183). -/
structure Conv where
  defaultIdx : Nat
  userToDesign : Plm
  designToUser : Plm
  designToNormalized : Plm
  normalizedToDesign : Plm
  deriving Repr, BEq, Inhabited

def ratMin (a b : Rat) : Rat := if b < a then b else a
def ratMax (a b : Rat) : Rat := if a < b then b else a

/-- `Iterator::min` over a non-empty list (`d0` is the first element). -/
def listMin (d0 : Rat) (ds : List Rat) : Rat := ds.foldl ratMin d0
def listMax (d0 : Rat) (ds : List Rat) : Rat := ds.foldl ratMax d0

/-- The `examples` vector of `CoordConverter::new` (coords.rs:205-213). -/
def normExamples (dmin ddef dmax : Rat) : List Pt :=
  (if dmin < ddef then [(dmin, (-1 : Rat))] else []) ++ [(ddef, 0)] ++
  (if ddef < dmax then [(dmax, (1 : Rat))] else [])

/-- `CoordConverter::new` (coords.rs:187-226). Note: the design default is looked up in the list
    **as passed** (before sorting), while `user_to_design` is sorted. -/
def Conv.new (mappings : List Pt) (defaultIdx : Nat) : Except ConvError Conv :=
  let mappings := if mappings.isEmpty then [((0 : Rat), (0 : Rat))] else mappings
  let u2d := Plm.new mappings
  let designs := mappings.map (·.2)
  match designs with
  | [] => .error .defaultOutOfBounds   -- unreachable (list made non-empty above)
  | d0 :: ds =>
    let dmin := listMin d0 ds
    let dmax := listMax d0 ds
    match designs[defaultIdx]? with
    | none => .error .defaultOutOfBounds
    | some ddef =>
      let d2n := Plm.new (normExamples dmin ddef dmax)
      .ok { defaultIdx, userToDesign := u2d, designToUser := u2d.reverse,
            designToNormalized := d2n, normalizedToDesign := d2n.reverse }

/-- `CoordConverter::default_normalization` (coords.rs:232-249). -/
def Conv.defaultNormalization (mn df mx : Rat) : Conv :=
  let left : List Pt := if mn < df then [(mn, -1)] else []
  let idx := if mn < df then 1 else 0
  let right : List Pt := if df < mx then [(mx, 1)] else []
  match Conv.new (left ++ [(df, 0)] ++ right) idx with
  | .ok c => c
  | .error _ => default   -- unreachable: idx is in bounds

/-- `Vec::dedup` (consecutive equal elements). -/
def dedup : List Pt → List Pt
  | [] => []
  | [a] => [a]
  | a :: b :: rest => if a == b then dedup (b :: rest) else a :: dedup (b :: rest)

/-- `CoordConverter::unmapped` (coords.rs:252-263). -/
def Conv.unmapped (mn df mx : Rat) : Conv :=
  let ms := dedup [(mn, mn), (df, df), (mx, mx)]
  let idx := (ms.findIdx? (fun p => p.1 == df)).getD 0
  match Conv.new ms idx with
  | .ok c => c
  | .error _ => default

/-- user → design (coords.rs:470-474) -/
def Conv.toDesign (c : Conv) (u : Rat) : Rat := c.userToDesign.map u
/-- design → normalized (coords.rs:464-468) -/
def Conv.designToNorm (c : Conv) (d : Rat) : Rat := c.designToNormalized.map d
/-- user → normalized = user → design → normalized (coords.rs:476-481) -/
def Conv.toNormalized (c : Conv) (u : Rat) : Rat := c.designToNorm (c.toDesign u)
/-- design → user (coords.rs:458-462) -/
def Conv.designToUserMap (c : Conv) (d : Rat) : Rat := c.designToUser.map d
/-- normalized → design (coords.rs:483-487) -/
def Conv.normToDesign (c : Conv) (n : Rat) : Rat := c.normalizedToDesign.map n
/-- normalized → user (coords.rs:489-494) -/
def Conv.normToUser (c : Conv) (n : Rat) : Rat := c.designToUserMap (c.normToDesign n)

/-- `CoordConverter::iter` (coords.rs:266-273): the vertices of the *sorted* user→design map with
    their normalized value. -/
def Conv.iter (c : Conv) : List (Rat × Rat × Rat) :=
  c.userToDesign.pts.map fun p => (p.1, p.2, c.toNormalized p.1)

/-- `fontdrasil::types::Axis` (types.rs:112-127), the numeric part. -/
structure Axis where
  min : Rat
  default : Rat
  max : Rat
  conv : Conv
  deriving Repr, Inhabited

/-- `Axis::default_converter` (types.rs:135-137). -/
def Axis.defaultConverter (ax : Axis) : Conv := Conv.defaultNormalization ax.min ax.default ax.max

end Fontc.Plm
