/-
  The word-vector rank operations as they read after /verif/fixes/C16-rank.patch
  (`count_ones` sort key, `|=` aligned at the low end).  Core Lean only.
-/
import FontcModel.FeatVars

namespace Fontc.FeatVars

/-- patched `impl BitOrAssign<&Rank> for Rank`: prepend the missing leading words of `rhs`, then OR word by word
    from the **low** end (`iter_mut().rev().zip(rhs.iter().rev())`) -/
def WRank.bitorAssignFixed (a b : WRank) : WRank :=
  let missing := b.length - a.length
  (orFront (b.take missing ++ a).reverse b.reverse).reverse

/-- `u64::count_ones` summed over the words (patched `Rank::count_ones`) -/
def WRank.countOnes (a : WRank) : Nat := (a.map fun w => popcount w.toNat).sum

/-- the patched operations: `sort_by_key(|(_, rank)| Reverse(rank.count_ones()))` -/
def wordOpsFixed : RankOps WRank :=
  { wordOps with
    orAssign := WRank.bitorAssignFixed
    le := fun a b => decide (b.countOnes ≤ a.countOnes) }

end Fontc.FeatVars
