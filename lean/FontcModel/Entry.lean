/-
  C20 — the entry points of fontc (`/repo/fontc/src/lib.rs`, `main.rs`, `args.rs`) as far as they decide
  *what is compiled with which flags*:

    command line --clap--> `Args` --`TryInto<Options>` (args.rs:230)--> `Options`
    `Args::source` = `Input::new(path)` (lib.rs:46): dispatch on the file extension
    `run(input, options, timer)` (lib.rs:159, the CLI) and `generate_font(source, options)` (lib.rs:207, the
    library) both call `generate_font_internal(source, &options, timer)` (lib.rs:225), which merges the flags
    (`merge_compilation_flags`, lib.rs:199) and stamps `version()`.

  Core Lean only.
-/
namespace Fontc.Entry

/-- `fontir::orchestration::Flags` (fontir/src/orchestration.rs:23), one field per bit -/
structure Flags where
  preferSimpleGlyphs : Bool := false              -- 0b100
  flattenComponents : Bool := false               -- 0b1000
  decomposeTransformedComponents : Bool := false  -- 0b1_0000
  keepDirection : Bool := false                   -- 0b100_0000
  productionNames : Bool := false                 -- 0b1000_0000
  decomposeComponents : Bool := false             -- 0b1_0000_0000
  eraseOpenCorners : Bool := false                -- 0b10_0000_0000
  propagateAnchors : Bool := false                -- 0b100_0000_0000
  deriving Repr, BEq, DecidableEq, Inhabited

def Flags.empty : Flags := {}
/-- orchestration.rs:45 `impl Default for Flags` -/
def Flags.default : Flags := { preferSimpleGlyphs := true, productionNames := true }

def Flags.bits (f : Flags) : Nat :=
  (if f.preferSimpleGlyphs then 4 else 0) + (if f.flattenComponents then 8 else 0) +
  (if f.decomposeTransformedComponents then 16 else 0) + (if f.keepDirection then 64 else 0) +
  (if f.productionNames then 128 else 0) + (if f.decomposeComponents then 256 else 0) +
  (if f.eraseOpenCorners then 512 else 0) + (if f.propagateAnchors then 1024 else 0)

def Flags.ofBits (n : Nat) : Flags :=
  { preferSimpleGlyphs := n.testBit 2, flattenComponents := n.testBit 3, decomposeTransformedComponents := n.testBit 4,
    keepDirection := n.testBit 6, productionNames := n.testBit 7, decomposeComponents := n.testBit 8,
    eraseOpenCorners := n.testBit 9, propagateAnchors := n.testBit 10 }

def Flags.union (a b : Flags) : Flags :=
  ⟨a.1 || b.1, a.2 || b.2, a.3 || b.3, a.4 || b.4, a.5 || b.5, a.6 || b.6, a.7 || b.7, a.8 || b.8⟩
/-- `a & !d` -/
def Flags.without (a d : Flags) : Flags :=
  ⟨a.1 && !d.1, a.2 && !d.2, a.3 && !d.3, a.4 && !d.4, a.5 && !d.5, a.6 && !d.6, a.7 && !d.7, a.8 && !d.8⟩

/-- `Option<bool>` command-line switches: absent / `--x` or `--x=true` / `--x=false` -/
inductive Tri where
  | unset | on | off
  deriving Repr, BEq, DecidableEq, Inhabited

/-- `Args` (args.rs:17), the fields that reach `Options` or `Input` -/
structure Args where
  path : List Char
  emitIr : Bool := false
  emitDebug : Bool := false
  emitTiming : Bool := false
  outputFile : Option (List Char) := none
  buildDir : List Char := "build".toList
  preferSimpleGlyphs : Bool := true
  flattenComponents : Tri := .unset
  eraseOpenCorners : Tri := .unset
  propagateAnchors : Tri := .unset
  decomposeTransformedComponents : Bool := false
  decomposeComponents : Bool := false
  skipFeatures : Bool := false
  emitLookupDebugInfo : Bool := false
  keepDirection : Bool := false
  noProductionNames : Bool := false
  deriving Repr, Inhabited

/-- `Options` (lib.rs:139) -/
structure Options where
  flags : Flags := Flags.default
  flagsToDisable : Flags := Flags.empty
  skipFeatures : Bool := false
  compileDebg : Bool := false
  outputFile : Option (List Char) := none
  timingFile : Option (List Char) := none
  irDir : Option (List Char) := none
  debugDir : Option (List Char) := none
  deriving Repr, BEq, DecidableEq, Inhabited

/-- `#[derive(Default)]` on `Options` -/
def Options.default : Options := {}

/-- args.rs:134 `Args::flags`: starts from `Flags::default()` -/
def Args.flags (a : Args) : Flags :=
  { preferSimpleGlyphs := a.preferSimpleGlyphs
    flattenComponents := a.flattenComponents == .on
    eraseOpenCorners := a.eraseOpenCorners == .on
    propagateAnchors := a.propagateAnchors == .on
    decomposeTransformedComponents := a.decomposeTransformedComponents
    decomposeComponents := a.decomposeComponents
    keepDirection := a.keepDirection
    productionNames := !a.noProductionNames }

/-- args.rs:167 `Args::flags_to_disable` -/
def Args.flagsToDisable (a : Args) : Flags :=
  { flattenComponents := a.flattenComponents == .off
    eraseOpenCorners := a.eraseOpenCorners == .off
    propagateAnchors := a.propagateAnchors == .off }

/-- `PathBuf::join` with a relative, non-empty second component (the only use in args.rs) -/
def joinPath (dir name : List Char) : List Char :=
  if dir.isEmpty then name else if dir.getLast? == some '/' then dir ++ name else dir ++ '/' :: name

/-- args.rs:230 `impl TryInto<Options> for Args` (it cannot fail) -/
def Args.toOptions (a : Args) : Options :=
  { flags := a.flags
    flagsToDisable := a.flagsToDisable
    skipFeatures := a.skipFeatures
    compileDebg := a.emitLookupDebugInfo
    outputFile := some (a.outputFile.getD (joinPath a.buildDir "font.ttf".toList))
    timingFile := if a.emitTiming then some (joinPath a.buildDir "threads.svg".toList) else none
    debugDir := if a.emitDebug then some (joinPath a.buildDir "debug/".toList) else none
    irDir := if a.emitIr then some a.buildDir else none }

/-! ### `Input` -/

inductive Input where
  | designSpacePath (p : List Char)
  | glyphsPath (p : List Char)
  | fontraPath (p : List Char)
  | glyphsMemory (text : List Char)
  deriving Repr, BEq, DecidableEq, Inhabited

inductive Err where
  | fileExpected | unrecognizedSource | noOutputFile
  deriving Repr, BEq, DecidableEq, Inhabited

def splitLastDot (name : List Char) : Option (List Char × List Char) :=
  match name.reverse.span (· != '.') with
  | (_, []) => none
  | (extRev, _ :: stemRev) => some (stemRev.reverse, extRev.reverse)

/-- `Path::extension` of a path whose last component is `name`: the text after the last `.`, unless there
    is no `.`, or the only `.` is the first character, or the name is `..` -/
def extension (name : List Char) : Option (List Char) :=
  if name == ['.', '.'] then none else
  match splitLastDot name with
  | none => none
  | some (stem, ext) => if stem.isEmpty then none else some ext

def fileName (path : List Char) : List Char := (path.reverse.takeWhile (· != '/')).reverse

/-- lib.rs:46 `Input::new`; `exists` is `path.exists()` -/
def Input.new (exists_ : Bool) (path : List Char) : Except Err Input :=
  if !exists_ then .error .fileExpected else
  match extension (fileName path) with
  | none => .error .unrecognizedSource
  | some ext =>
    if ext == "designspace".toList then .ok (.designSpacePath path)
    else if ext == "ufo".toList then .ok (.designSpacePath path)
    else if ext == "glyphs".toList then .ok (.glyphsPath path)
    else if ext == "glyphspackage".toList then .ok (.glyphsPath path)
    else if ext == "fontra".toList then .ok (.fontraPath path)
    else .error .unrecognizedSource

/-- lib.rs:65 -/
def Input.fromGlyphs (text : List Char) : Input := .glyphsMemory text

/-- which reader `Input::create_source` (lib.rs:70) constructs, and from what -/
inductive SourceSpec where
  | designspaceOrUfo (p : List Char)    -- `DesignSpaceIrSource::new(path)`
  | glyphsFile (p : List Char)          -- `GlyphsIrSource::new(path)`  (file or package: `Font::load`)
  | fontra (p : List Char)
  | glyphsText (text : List Char)       -- `GlyphsIrSource::new_from_memory(text)`
  deriving Repr, BEq, DecidableEq, Inhabited

def Input.createSource : Input → SourceSpec
  | .designSpacePath p => .designspaceOrUfo p
  | .glyphsPath p => .glyphsFile p
  | .fontraPath p => .fontra p
  | .glyphsMemory t => .glyphsText t

/-- lib.rs:199 `merge_compilation_flags`: `(options.flags | source.compilation_flags()) & !options.flags_to_disable` -/
def mergeFlags (o : Options) (sourceFlags : Flags) : Flags :=
  (o.flags.union sourceFlags).without o.flagsToDisable

/-- the arguments `generate_font_internal` (lib.rs:225) hands to `Workload::new`, `FeContext::new_root` and
    `BeContext::new_root`: everything the compiled bytes can depend on -/
structure InternalCall where
  source : SourceSpec
  flags : Flags
  skipFeatures : Bool
  compileDebg : Bool
  irDir : Option (List Char)
  debugDir : Option (List Char)
  /-- `version()` (lib.rs:130): a constant of the build, the same function in both entry points -/
  versionStamp : List Char
  deriving Repr, BEq, DecidableEq, Inhabited

/-- `sourceFlags` stands for `source.compilation_flags()`, a function of the source -/
def internalCall (version : List Char) (sourceFlags : SourceSpec → Flags) (src : SourceSpec) (o : Options) : InternalCall :=
  { source := src, flags := mergeFlags o (sourceFlags src), skipFeatures := o.skipFeatures, compileDebg := o.compileDebg,
    irDir := o.irDir, debugDir := o.debugDir, versionStamp := version }

/-- lib.rs:207 `generate_font` (library): the bytes are those of the internal call; `output_file` is ignored -/
def generateFont (version : List Char) (sourceFlags : SourceSpec → Flags) (src : SourceSpec) (o : Options) : InternalCall :=
  internalCall version sourceFlags src o

/-- lib.rs:159 `run` (command line): refuses to start without an output file, otherwise makes the same
    internal call and writes its bytes to `output_file` -/
def run (version : List Char) (sourceFlags : SourceSpec → Flags) (input : Input) (o : Options) :
    Except Err (InternalCall × List Char) :=
  match o.outputFile with
  | none => .error .noOutputFile
  | some out => .ok (internalCall version sourceFlags input.createSource o, out)

/-- main.rs:70-72: `args.source()`, `args.try_into()`, `fontc::run` -/
def cliMain (version : List Char) (sourceFlags : SourceSpec → Flags) (exists_ : Bool) (a : Args) :
    Except Err (InternalCall × List Char) :=
  match Input.new exists_ a.path with
  | .error e => .error e
  | .ok input => run version sourceFlags input a.toOptions

/-! ### lone UFO vs designspace: the lib merge (ufo2fontir/src/source.rs:428) -/

def isPublicKey (k : List Char) : Bool := "public.".toList.isPrefixOf k

def lookup {α} (k : List Char) : List (List Char × α) → Option α
  | [] => none
  | (k', v) :: m => if k == k' then some v else lookup k m

/-- `merge_default_master_lib_into_designspace_lib`: values of the default master's lib that the designspace
    lib does not have are added; existing values win; with `skipPublic` (the input was a .designspace) keys
    starting with `public.` are not copied.  (Nested dictionaries are not merged either: "Base values are
    preserved on conflict".) -/
def mergeLib {α} (base child : List (List Char × α)) (skipPublic : Bool) : List (List Char × α) :=
  child.foldl (fun acc kv =>
    if skipPublic && isPublicKey kv.1 then acc
    else match lookup kv.1 acc with
      | some _ => acc
      | none => acc ++ [kv]) base

end Fontc.Entry
