/-
  Model of fontc's job scheduler: `/repo/fontc/src/workload.rs` (struct `Workload`), with the
  access rules of `/repo/fontdrasil/src/orchestration.rs` (`Access`, `AccessType`).

  The model is a labelled transition system.  One `State` mirrors the fields of `Workload`
  that decide scheduling (`jobs_pending`, `also_completes`, `count_pending`, `success`,
  `job_count`) plus the multiset of completion messages that workers have sent and the main
  thread has not handled yet (`inflight`).  The events are

    * `insert j`   – `Workload::insert` / `insert_nop` → `insert_with_bookkeeping`   (workload.rs:250-296)
    * `launch id`  – the main loop marks a launchable job running and spawns it      (workload.rs:505-555, 636-657)
    * `finish id`  – the WORKER decrements `count_pending` for the job's own discriminant and for
                     each also-completes discriminant, before it sends the message  (workload.rs:711-722)
    * `deliver id` – the main thread handles the message: `handle_success`           (workload.rs:372-474):
                     `complete_one`, `mark_also_completed`, then the source-dependent *script*
                     of effects for that id (jobs to add, read-access rewrites, BE-glyph skips, and — only in a
                     scheduler that branches on the state of another job, like the repaired `update_be_glyph_work` —
                     `guard` assertions recording which branch was taken).

  `step … = none` means: the scheduler would not do this (guard false) or the real code panics /
  corrupts its bookkeeping at this point ("completed but isn't pending", "Multiple completions",
  "Repeat signals", missing counter, counter underflow, `expect("… has to be pending")`,
  inserting an id that is already pending, skipping a running job).

  Fields of `State` below the line `-- ghost` are history variables: `step` writes them and never
  reads them.  They exist so that theorems can talk about the past ("k has been delivered").

  Core Lean only (this file is linked into the native driver).
-/

namespace Fontc.Sched

/-- A work / context-item identifier: `Identifier::discriminant()` and the rest (we use the `Debug` string). -/
structure Id where
  disc : String
  key : String
  deriving DecidableEq, Repr, Inhabited

/-- `fontdrasil::orchestration::AccessType` -/
inductive Dep where
  | variant (disc : String)
  | specific (id : Id)
  deriving DecidableEq, Repr, Inhabited

/-- `fontdrasil::orchestration::Access`; the single-element forms `Variant(x)` / `SpecificInstanceOfVariant(x)`
    are the one-element `set`. -/
inductive Access where
  | none
  | unknown
  | all
  | set (deps : List Dep)
  deriving DecidableEq, Repr, Inhabited

/-- `AccessType::check` (orchestration.rs:237-244) -/
def Dep.check (d : Dep) (id : Id) : Bool :=
  match d with
  | .variant disc => disc = id.disc
  | .specific i => i = id

/-- `Access::check` (orchestration.rs:217-229) -/
def Access.check (a : Access) (id : Id) : Bool :=
  match a with
  | .none => false
  | .unknown => false
  | .all => true
  | .set ds => ds.any (·.check id)

/-- which variant of `AnyWork` sits in the pending entry -/
inductive Kind where
  | real          -- `AnyWork::Fe` / `AnyWork::Be`
  | nop           -- `AnyWork::Nop` (skipped feature work): launched and "executed" like any job
  | alsoComplete  -- `AnyWork::AlsoComplete`: placeholder, never launched
  deriving DecidableEq, Repr, Inhabited

/-- what `Workload::add` / `skip` is called with -/
structure Job where
  id : Id
  reads : Access
  writes : Access
  also : List Id
  kind : Kind
  deriving DecidableEq, Repr, Inhabited

/-- one value of `jobs_pending` -/
structure Entry where
  id : Id
  kind : Kind
  /-- current `read_access` (rewritten by `handle_success`) -/
  reads : Access
  writes : Access
  running : Bool
  /-- ghost: the job whose completion completes this entry (itself, or the parent of a placeholder) -/
  owner : Id
  deriving DecidableEq, Repr, Inhabited

/-- what the main thread sees when it looks a job up in `jobs_pending` -/
inductive GuardSt where
  | idle     -- pending, not launched
  | running  -- launched, completion not handled yet
  | gone     -- not pending (completed, or never inserted)
  deriving DecidableEq, Repr, Inhabited

/-- One thing `handle_success(id)` does after `complete_one` / `mark_also_completed`. -/
inductive Effect where
  /-- `self.add(work)` -/
  | add (j : Job)
  /-- `jobs_pending.get_mut(id)….read_access = a`; `must` = the code `expect`s the job to be pending
      (Glyf, Gvar, GatherIrKerning, GatherBeKerning), otherwise it silently returns (`update_be_glyph_work`). -/
  | rewrite (id : Id) (a : Access) (must : Bool)
  /-- `update_be_glyph_work` on a glyph that does not emit to binary: decrement counters, complete without running -/
  | skip (id : Id)
  /-- the code branched on the state of job `id` and found it in state `st` (an assertion: it changes nothing,
      and the model does not admit it in any other state). The unmodified workload.rs has no such branch. -/
  | guard (id : Id) (st : GuardSt)
  deriving DecidableEq, Repr, Inhabited

/-- The source-dependent part: the jobs `Workload::new` creates and what each delivery does. -/
structure Script where
  init : List Job
  onDeliver : List (Id × List Effect)
  deriving Repr, Inhabited

def Script.effects (sc : Script) (id : Id) : List Effect :=
  match sc.onDeliver.find? (fun p => p.1 = id) with
  | some p => p.2
  | none => []

/-! ### counters: `count_pending : HashMap<IdentifierDiscriminant, Arc<AtomicUsize>>` -/

abbrev Counters := List (String × Nat)

/-- `.get(d).map(load).unwrap_or_default()` (workload.rs:486-490) -/
def ctrGet : Counters → String → Nat
  | [], _ => 0
  | (k, n) :: r, d => if k = d then n else ctrGet r d

/-- `.entry(d).or_default().fetch_add(1)` (workload.rs:261-264) -/
def ctrInc : Counters → String → Counters
  | [], d => [(d, 1)]
  | (k, n) :: r, d => if k = d then (k, n + 1) :: r else (k, n) :: ctrInc r d

/-- `fetch_sub(1)`; `none` if there is no counter (`counters()` panics, workload.rs:561-565) or it is 0 (would wrap). -/
def ctrDec : Counters → String → Option Counters
  | [], _ => none
  | (k, n) :: r, d =>
    if k = d then (if n = 0 then none else some ((k, n - 1) :: r))
    else (ctrDec r d).map ((k, n) :: ·)

def ctrDecAll : Counters → List String → Option Counters
  | cs, [] => some cs
  | cs, d :: ds => (ctrDec cs d).bind (ctrDecAll · ds)

/-! ### state -/

structure State where
  pending : List Entry := []
  also : List (Id × List Id) := []
  counters : Counters := []
  success : List Id := []
  /-- finished by the worker (counters decremented, message sent), not yet handled by the main thread -/
  inflight : List Id := []
  jobCount : Nat := 0
  -- ghost
  inserted : List Id := []
  launched : List (Id × Access) := []
  finished : List Id := []
  delivered : List Id := []
  skipped : List Id := []
  deriving Repr, Inhabited

def State.empty : State := {}

def State.isPending (s : State) (id : Id) : Bool := s.pending.any (·.id = id)

def State.entry? (s : State) (id : Id) : Option Entry := s.pending.find? (·.id = id)

/-- `also_completes.get(id)` -/
def State.alsoOf (s : State) (id : Id) : List Id :=
  match s.also.find? (fun p => p.1 = id) with
  | some p => p.2
  | none => []

/-- the discriminants whose counters `Workload::counters(id)` collects (workload.rs:557-578) -/
def State.counterDiscs (s : State) (id : Id) : List String :=
  id.disc :: (s.alsoOf id).map (·.disc)

/-- `insert_with_bookkeeping` (workload.rs:250-266). `HashMap::insert` on an id that is already pending would
    replace the entry while still counting it; the model does not admit that. -/
def State.book (s : State) (e : Entry) : Option State :=
  if s.isPending e.id then none
  else some { s with
    jobCount := s.jobCount + 1
    counters := ctrInc s.counters e.id.disc
    pending := e :: s.pending
    inserted := e.id :: s.inserted }

/-- the placeholder entries of `Workload::insert` (workload.rs:281-290) -/
def State.bookAlso (s : State) (parent : Id) (reads : Access) : List Id → Option State
  | [] => some s
  | a :: as =>
    (s.book { id := a, kind := .alsoComplete, reads := reads, writes := .none, running := false, owner := parent }).bind
      (·.bookAlso parent reads as)

/-- `Workload::insert` (workload.rs:278-296); `insert_nop` is the case `kind = nop`, `also = []`. -/
def State.insertJob (s : State) (j : Job) : Option State :=
  if j.kind = .alsoComplete then none else
  (s.bookAlso j.id j.reads j.also).bind fun s1 =>
    let s2 := if j.also.isEmpty then s1 else { s1 with also := (j.id, j.also) :: s1.also }
    s2.book { id := j.id, kind := j.kind, reads := j.reads, writes := j.writes, running := false, owner := j.id }

/-- `is_dep_fulfilled` (workload.rs:477-493) -/
def State.depFulfilled (s : State) : Dep → Bool
  | .specific id => !s.isPending id
  | .variant d => ctrGet s.counters d = 0

/-- `can_run` (workload.rs:505-537) with `anything_else_pending` (495-503) -/
def State.canRun (s : State) (e : Entry) : Bool :=
  match e.reads with
  | .none => true
  | .unknown => false
  | .all => s.pending.length ≤ 1 && s.pending.all (·.id = e.id)
  | .set ds => ds.all s.depFulfilled

/-- the filter of `update_launchable` (workload.rs:547-550) -/
def State.launchable (s : State) (e : Entry) : Bool :=
  e.kind ≠ .alsoComplete && !e.running && s.canRun e

def setRunning (id : Id) (e : Entry) : Entry := if e.id = id then { e with running := true } else e

def setReads (id : Id) (a : Access) (e : Entry) : Entry := if e.id = id then { e with reads := a } else e

def State.launch (s : State) (id : Id) : Option State :=
  match s.entry? id with
  | none => none
  | some e =>
    if s.launchable e then
      some { s with pending := s.pending.map (setRunning id), launched := (id, e.reads) :: s.launched }
    else none

/-- the worker, after `work.exec` returned `Ok` (workload.rs:715-722) -/
def State.finish (s : State) (id : Id) : Option State :=
  match s.entry? id with
  | none => none
  | some e =>
    if e.running && !(s.inflight.contains id) then
      (ctrDecAll s.counters (s.counterDiscs id)).map fun cs =>
        { s with counters := cs, inflight := id :: s.inflight, finished := id :: s.finished }
    else none

/-- `complete_one` (workload.rs:298-306) -/
def State.completeOne (s : State) (id : Id) : Option State :=
  if s.isPending id then
    if s.success.contains id then none
    else some { s with pending := s.pending.filter (·.id ≠ id), success := id :: s.success }
  else none

def State.completeAll (s : State) : List Id → Option State
  | [] => some s
  | a :: as => (s.completeOne a).bind (·.completeAll as)

/-- `complete_one(id); mark_also_completed(&id)` (workload.rs:383-384, 308-315) -/
def State.complete (s : State) (id : Id) : Option State :=
  (s.completeOne id).bind fun s1 => s1.completeAll (s.alsoOf id)

def State.rewrite (s : State) (id : Id) (a : Access) (must : Bool) : Option State :=
  if s.isPending id then some { s with pending := s.pending.map (setReads id a) }
  else if must then none else some s

/-- `update_be_glyph_work`, `!glyph.emit_to_binary` branch (workload.rs:333-345) -/
def State.skip (s : State) (id : Id) : Option State :=
  match s.entry? id with
  | none => some s
  | some e =>
    if e.running || e.kind = .alsoComplete then none
    else
      (ctrDecAll s.counters (s.counterDiscs id)).bind fun cs =>
        ({ s with counters := cs, skipped := id :: s.skipped }).complete id

def State.guardSt (s : State) (id : Id) : GuardSt :=
  match s.entry? id with
  | none => .gone
  | some e => if e.running then .running else .idle

def State.applyEffect (s : State) : Effect → Option State
  | .add j => s.insertJob j
  | .rewrite id a must => s.rewrite id a must
  | .skip id => s.skip id
  | .guard id st => if s.guardSt id = st then some s else none

def State.applyEffects (s : State) : List Effect → Option State
  | [] => some s
  | e :: es => (s.applyEffect e).bind (·.applyEffects es)

/-- the bookkeeping half of `handle_success` (and the "Repeat signals" check of `read_completions`, 816-838) -/
def State.receive (s : State) (id : Id) : Option State :=
  if s.inflight.contains id && !(s.success.contains id) then
    ({ s with inflight := s.inflight.erase id, delivered := id :: s.delivered }).complete id
  else none

def State.deliver (sc : Script) (s : State) (id : Id) : Option State :=
  (s.receive id).bind (·.applyEffects (sc.effects id))

inductive Event where
  | insert (j : Job)
  | launch (id : Id)
  | finish (id : Id)
  | deliver (id : Id)
  deriving DecidableEq, Repr, Inhabited

def step (sc : Script) (s : State) : Event → Option State
  | .insert j => s.insertJob j
  | .launch id => s.launch id
  | .finish id => s.finish id
  | .deliver id => s.deliver sc id

def run (sc : Script) : State → List Event → Option State
  | s, [] => some s
  | s, e :: es => (step sc s e).bind (run sc · es)

def State.insertAll (s : State) : List Job → Option State
  | [] => some s
  | j :: js => (s.insertJob j).bind (·.insertAll js)

/-- the state after `Workload::new` -/
def initState (sc : Script) : Option State := State.empty.insertAll sc.init

/-- loop condition of `exec` (workload.rs:607) negated -/
def State.done (s : State) : Bool := s.success.length ≥ s.jobCount

/-- `Error::UnableToProceed` (workload.rs:610-621): not done, nothing launchable, nothing running -/
def State.unableToProceed (s : State) : Bool :=
  !s.done && !(s.pending.any s.launchable) && !(s.pending.any (·.running))

/-! ### diagnostics for the driver (not used by theorems) -/

def Id.show (i : Id) : String := s!"{i.disc}:{i.key}"

def explain (sc : Script) (s : State) : Event → String
  | .insert j => if s.isPending j.id then s!"insert of already pending {j.id.show}" else s!"insert {j.id.show} rejected (also-completes id pending?)"
  | .launch id =>
    match s.entry? id with
    | none => s!"launch of non-pending {id.show}"
    | some e =>
      if e.kind = .alsoComplete then s!"launch of placeholder {id.show}"
      else if e.running then s!"launch of running {id.show}"
      else s!"launch of {id.show} but can_run is false in the model"
  | .finish id =>
    match s.entry? id with
    | none => s!"finish of non-pending {id.show}"
    | some e => if !e.running then s!"finish of non-running {id.show}" else if s.inflight.contains id then s!"second finish of {id.show}" else s!"counter missing/underflow at finish of {id.show}"
  | .deliver id =>
    if !s.inflight.contains id then s!"deliver of {id.show} without finish"
    else if s.success.contains id then s!"repeat signal for {id.show}"
    else match s.receive id with
      | none => s!"complete_one panics at delivery of {id.show}"
      | some s1 =>
        let rec go (s : State) : List Effect → String
          | [] => "?"
          | e :: es => match s.applyEffect e with
            | some s' => go s' es
            | none => match e with
              | .add j => s!"effect add {j.id.show} fails (id already pending)"
              | .rewrite k _ _ => s!"effect rewrite {k.show}: has to be pending"
              | .skip k => s!"effect skip {k.show} fails (running / counters / completion)"
              | .guard k _ => s!"effect guard {k.show}: the job is in a different state in the model"
        go s1 (sc.effects id)

end Fontc.Sched
