/-
  C11 — feature-file compilation (fea-rs/src/compile/{compile_ctx,lookups,lookups/contextual,features}.rs
  and the write-fonts GSUB/GPOS builders) as an abstract compiler between two interpreters.

  * `Program`  : the modelled subset of the feature-file language (glyphs are `Nat` ids; glyph classes,
                 named classes and ranges are already expanded to glyph lists).
  * `Src.*`    : the feature-file semantics, read off the FEA / OpenType specifications:
                 lookups in declaration order, first matching rule per position (longest ligature
                 first), lookup flags through the GDEF class map, contextual rules invoking their
                 nested lookups at the matched positions; script / language registration.
                 `interp` is its entry point.
  * `OT.*`     : OpenType layout tables (lookup list, subtables with coverage, feature list,
                 script/langsys records, GDEF classes) and their application to a glyph string as
                 the OpenType specification describes it (the HarfBuzz reading where the
                 specification is silent).  `shape` is its entry point.
  * `Cmp.*`    : what fea-rs builds: the walk of the statements with its `current lookup`, the
                 builders (BTreeMap keyed subtables, ligature sets sorted longest first, anonymous
                 lookups of contextual rules and their pooling, pair positioning glyph pairs before
                 class pairs), lookup ids, `ActiveFeature` bookkeeping, feature / script lists.
                 `compile` is its entry point.

  Core Lean only (linked into `vdriver`).
-/

namespace Fontc.FeaCompile

abbrev Glyph := Nat
abbrev Tag := String

/-! ## 1. Abstract syntax -/

/-- GPOS value record (x/y placement, x/y advance); device tables and variations are not modelled. -/
structure Value where
  xp : Int
  yp : Int
  xa : Int
  ya : Int
  deriving DecidableEq, Repr, Inhabited

def Value.zero : Value := ⟨0, 0, 0, 0⟩
def Value.add (a b : Value) : Value := ⟨a.xp + b.xp, a.yp + b.yp, a.xa + b.xa, a.ya + b.ya⟩
def Value.isZero (a : Value) : Bool := a.xp == 0 && a.yp == 0 && a.xa == 0 && a.ya == 0

/-- `lookupflag` as written in the source: the mark attachment class and the mark filtering set are
    glyph sets there (ids are assigned by the compiler). -/
structure Flag where
  rtl : Bool := false
  ib : Bool := false
  il : Bool := false
  im : Bool := false
  attach : Option (List Glyph) := none
  filter : Option (List Glyph) := none
  deriving DecidableEq, Repr, Inhabited

def Flag.empty : Flag := {}

/-- a glyph or a glyph class (an ordered glyph list) -/
inductive GC where
  | g (x : Glyph)
  | c (xs : List Glyph)
  deriving DecidableEq, Repr, Inhabited

def GC.glyphs : GC → List Glyph
  | .g x => [x]
  | .c xs => xs

def GC.has (x : GC) (y : Glyph) : Bool := x.glyphs.contains y

def GC.isClass : GC → Bool
  | .g _ => false
  | .c _ => true

/-- the inline replacement of a contextual substitution rule -/
inductive Inline where
  | none
  | single (by_ : GC)
  | lig (r : Glyph)
  | multi (rs : List Glyph)
  deriving DecidableEq, Repr, Inhabited

inductive Rule where
  /-- `sub a by b;  sub [a b] by [c d];  sub [a b] by c;` -/
  | single (t r : GC)
  /-- `sub a by b c;`  (`sub a by NULL;` is the empty replacement) -/
  | multiple (t : Glyph) (r : List Glyph)
  /-- `sub a from [b c];` -/
  | alternate (t : Glyph) (alts : List Glyph)
  /-- `sub a [b c] by d;` -/
  | ligature (ts : List GC) (r : Glyph)
  /-- `sub x a' lookup L b' y [by …];` — `input` are the marked glyphs with their lookup references -/
  | chain (back : List GC) (input : List (GC × List String)) (look : List GC) (inl : Inline)
  /-- `ignore sub x a' y, …;` -/
  | ignore (alts : List (List GC × List GC × List GC))
  /-- `pos a <1 2 3 4>;` -/
  | spos (t : GC) (v : Value)
  /-- `[enum] pos a b -10;` (first value record only) -/
  | ppos (enum : Bool) (a b : GC) (v : Value)
  deriving DecidableEq, Repr, Inhabited

/-- rule type as far as it decides which rules may share a lookup -/
inductive Kind where
  | single | multiple | alternate | ligature | chain | spos | ppos
  deriving DecidableEq, Repr, Inhabited

def Rule.kind : Rule → Kind
  | .single .. => .single
  | .multiple .. => .multiple
  | .alternate .. => .alternate
  | .ligature .. => .ligature
  | .chain .. => .chain
  | .ignore .. => .chain
  | .spos .. => .spos
  | .ppos .. => .ppos

def Kind.isPos : Kind → Bool
  | .spos => true
  | .ppos => true
  | _ => false

/-- statements of a `lookup NAME { … } NAME;` block -/
inductive BStmt where
  | flag (f : Flag)
  | rule (r : Rule)
  deriving DecidableEq, Repr, Inhabited

/-- statements of a `feature TAG { … } TAG;` block -/
inductive Stmt where
  | script (t : Tag)
  | language (t : Tag) (excludeDflt : Bool)
  | flag (f : Flag)
  | rule (r : Rule)
  | lookup (name : String) (body : List BStmt)
  | ref (name : String)
  deriving DecidableEq, Repr, Inhabited

inductive Top where
  | langsys (script lang : Tag)
  | lookup (name : String) (body : List BStmt)
  | feature (tag : Tag) (body : List Stmt)
  deriving DecidableEq, Repr, Inhabited

structure Program where
  /-- `table GDEF { GlyphClassDef … }`: glyph ↦ class (1 base, 2 ligature, 3 mark, 4 component);
      empty = no GDEF block -/
  gdef : List (Glyph × Nat)
  tops : List Top
  deriving Repr, Inhabited

/-! ## 2. Applying a lookup at a position: notions shared by both interpreters

  A lookup is applied to the glyph string from left to right.  The string is held as the reversed
  prefix already passed (`rev`), the current glyph and the suffix.  A `Step` is one lookup tried at
  one position: it yields the glyphs to put out and the suffix that remains to be visited. -/

abbrev Step := List Glyph → Glyph → List Glyph → Option (List Glyph × List Glyph)

/-- Match a sequence of glyph predicates against `buf`, skipping ignored glyphs; the result is the
    list of offsets (counted from `off`) of the matched glyphs. -/
def matchFwd (ign : Glyph → Bool) : List (Glyph → Bool) → List Glyph → Nat → Option (List Nat)
  | [], _, _ => some []
  | _ :: _, [], _ => none
  | p :: ps, g :: buf, off =>
    if ign g then matchFwd ign (p :: ps) buf (off + 1)
    else if p g then (matchFwd ign ps buf (off + 1)).map (off :: ·)
    else none

/-- Input sequence: the current glyph is the first input glyph (offset 0). -/
def matchInput (ign : Glyph → Bool) (preds : List (Glyph → Bool)) (g : Glyph) (suf : List Glyph) :
    Option (List Nat) :=
  match preds with
  | [] => none
  | p :: ps => if p g then (matchFwd ign ps suf 1).map (0 :: ·) else none

/-- offset just after the last matched input glyph -/
def matchEnd (ps : List Nat) : Nat := ps.getLast?.getD 0 + 1

/-- backtrack (nearest first, against the reversed prefix), input, lookahead -/
def matchCtx (ign : Glyph → Bool) (back input look : List (Glyph → Bool))
    (rev : List Glyph) (g : Glyph) (suf : List Glyph) : Option (List Nat) :=
  match matchInput ign input g suf with
  | none => none
  | some ps =>
    if (matchFwd ign look ((g :: suf).drop (matchEnd ps)) 0).isSome
       && (matchFwd ign back rev 0).isSome then some ps else none

/-- remove the glyphs at the given (increasing) offsets; `off` is the offset of the head -/
def removeAt : List Glyph → List Nat → Nat → List Glyph
  | [], _, _ => []
  | g :: buf, [], _ => g :: buf
  | g :: buf, p :: ps, off =>
    if p = off then removeAt buf ps (off + 1) else g :: removeAt buf (p :: ps) (off + 1)

/-- A ligature substitution matched at offsets `0 :: ps` of `g :: suf`: the components disappear, the
    ligature glyph stands at the place of the first, skipped glyphs follow it. -/
def ligResult (lig : Glyph) (suf : List Glyph) (ps : List Nat) : List Glyph × List Glyph :=
  ([lig], removeAt suf (ps.drop 1) 1)

/-- apply `st` at offset `i` of `buf` (`rev` = reversed prefix before `buf`); returns the new buffer
    and the change of length -/
def applyAtIndex (st : Step) (rev buf : List Glyph) (i : Nat) : Option (List Glyph × Int) :=
  match buf.drop i with
  | [] => none
  | g :: post =>
    match st ((buf.take i).reverse ++ rev) g post with
    | none => none
    | some (out, rest) =>
      some (buf.take i ++ out ++ rest, ((out.length + rest.length : Nat) : Int) - ((1 + post.length : Nat) : Int))

/-- matched positions after a nested lookup at sequence index `idx` changed the length by `delta`
    (HarfBuzz `apply_lookup`): inserted glyphs become positions, removed ones drop out -/
def fixPositions (ps : List Nat) (idx : Nat) (delta : Int) : List Nat :=
  let head := ps.take (idx + 1)
  let tail := ps.drop (idx + 1)
  let base := ps.getD idx 0
  if delta ≥ 0 then
    head ++ (List.range delta.toNat).map (fun k => base + 1 + k) ++ tail.map (· + delta.toNat)
  else
    let d := min (-delta).toNat tail.length
    head ++ (tail.drop d).map (· - d)

def fixEnd (e : Nat) (delta : Int) (p : Nat) : Nat :=
  let e' := (e : Int) + delta
  if e' < (p : Int) then p else e'.toNat

/-- the sequence-lookup records of a contextual rule, in order -/
def runRecords {α : Type} (nested : α → Option Step) (rev : List Glyph) :
    List (Nat × α) → List Glyph → List Nat → Nat → List Glyph × Nat
  | [], buf, _, e => (buf, e)
  | (si, l) :: rs, buf, ps, e =>
    match ps[si]?, nested l with
    | some p, some st =>
      match applyAtIndex st rev buf p with
      | some (buf', d) => runRecords nested rev rs buf' (fixPositions ps si d) (fixEnd e d p)
      | none => runRecords nested rev rs buf ps e
    | _, _ => runRecords nested rev rs buf ps e

/-- result of a matched contextual rule: run the records, put out everything up to the (adjusted)
    end of the input sequence -/
def ctxResult {α : Type} (nested : α → Option Step) (rev : List Glyph) (g : Glyph) (suf : List Glyph)
    (ps : List Nat) (recs : List (Nat × α)) : List Glyph × List Glyph :=
  let r := runRecords nested rev recs (g :: suf) ps (matchEnd ps)
  (r.1.take r.2, r.1.drop r.2)

/-- index of the first occurrence -/
def indexOf? : List Glyph → Glyph → Option Nat
  | [], _ => none
  | x :: xs, g => if x = g then some 0 else (indexOf? xs g).map (· + 1)

/-- positioned glyph string -/
abbrev PGlyph := Glyph × Value

/-- one positioning lookup tried at one position -/
abbrev PStep := List PGlyph → PGlyph → List PGlyph → Option (List PGlyph × List PGlyph)

/-- the next glyph that is not ignored: skipped prefix, it, the rest -/
def nextUnignored (ign : Glyph → Bool) : List PGlyph → Option (List PGlyph × PGlyph × List PGlyph)
  | [] => none
  | x :: xs =>
    if ign x.1 then (nextUnignored ign xs).map (fun (sk, y, r) => (x :: sk, y, r))
    else some ([], x, xs)

/-! ## 3. Feature-file semantics -/

namespace Src

/-- Is `g` skipped under `lookupflag f`?  GDEF classes: 1 base, 2 ligature, 3 mark. -/
def ignored (gdef : List (Glyph × Nat)) (f : Flag) (g : Glyph) : Bool :=
  match gdef.lookup g with
  | some 1 => f.ib
  | some 2 => f.il
  | some 3 =>
    f.im
    || (match f.filter with | some s => !s.contains g | none => false)
    || (match f.attach with | some s => !s.contains g | none => false)
  | _ => false

/-- a lookup of the source: a named block, or a run of rules of one type under one flag -/
structure Lookup where
  name : Option String
  flag : Flag
  rules : List Rule
  deriving Repr, Inhabited

def Lookup.kind (l : Lookup) : Kind := (l.rules.head?.map Rule.kind).getD .single
def Lookup.isPos (l : Lookup) : Bool := l.rules.any (·.kind.isPos)
def Lookup.isChain (l : Lookup) : Bool := l.rules.any (·.kind == .chain)
def Lookup.isLig (l : Lookup) : Bool := l.rules.any (·.kind == .ligature)
def Lookup.isAlt (l : Lookup) : Bool := l.rules.any (·.kind == .alternate)

/-- single / multiple substitution of one glyph by one rule -/
def subst1 (r : Rule) (g : Glyph) : Option (List Glyph) :=
  match r with
  | .single (.g t) (.g x) => if g = t then some [x] else none
  | .single (.c ts) (.g x) => if ts.contains g then some [x] else none
  | .single (.c ts) (.c xs) => ((indexOf? ts g).bind (xs[·]?)).map ([·])
  | .multiple t xs => if g = t then some xs else none
  | _ => none

/-- first matching rule -/
def substStep (rules : List Rule) : Step := fun _ g suf =>
  (rules.findSome? (subst1 · g)).map (·, suf)

def altOf (r : Rule) (g : Glyph) : Option (List Glyph) :=
  match r with
  | .alternate t alts => if g = t then some alts else none
  | _ => none

/-- alternate substitution: the client picks the `alt`-th alternate (no substitution if there is none) -/
def altStep (alt : Nat) (rules : List Rule) : Step := fun _ g suf =>
  ((rules.findSome? (altOf · g)).bind (·[alt]?)).map (fun x => ([x], suf))

/-- a rule of a ligature lookup matched at the current position: number of components, ligature
    glyph, offsets of the components.  A single substitution counts as a one-component ligature. -/
def ligMatch (ign : Glyph → Bool) (r : Rule) (g : Glyph) (suf : List Glyph) : Option (Nat × Glyph × List Nat) :=
  match r with
  | .ligature (t :: ts) x =>
    if t.has g then (matchFwd ign (ts.map GC.has) suf 1).map (fun ps => (ts.length + 1, x, 0 :: ps)) else none
  | .single .. =>
    match subst1 r g with
    | some [x] => some (1, x, [0])
    | _ => none
  | _ => none

/-- the longest match; among equally long ones the first in source order -/
def bestLig : List (Nat × Glyph × List Nat) → Option (Nat × Glyph × List Nat)
  | [] => none
  | c :: cs =>
    match bestLig cs with
    | none => some c
    | some b => if b.1 > c.1 then some b else some c

def ligStep (ign : Glyph → Bool) (rules : List Rule) : Step := fun _ g suf =>
  (bestLig (rules.filterMap (ligMatch ign · g suf))).map (fun (_, x, ps) => ligResult x suf ps)

/-- non-contextual substitution lookups -/
def simpleStep (gdef : List (Glyph × Nat)) (alt : Nat) (l : Lookup) : Step :=
  if l.isLig then ligStep (ignored gdef l.flag) l.rules
  else if l.isAlt then altStep alt l.rules
  else substStep l.rules

/-- what a contextual rule does at a matched input position -/
inductive Action where
  | named (n : String)
  /-- the inline replacement; `input` is the rule's input sequence -/
  | inline (inl : Inline) (input : List GC)
  deriving Repr, Inhabited

structure CtxRule where
  back : List GC
  input : List GC
  look : List GC
  actions : List (Nat × Action)
  deriving Repr, Inhabited

/-- explicit lookup references of the marked glyphs, in order -/
def refActions : List (GC × List String) → Nat → List (Nat × Action)
  | [], _ => []
  | (_, refs) :: rest, i => refs.map (fun n => (i, Action.named n)) ++ refActions rest (i + 1)

def ctxRules : Rule → List CtxRule
  | .chain back input look inl =>
    let inp := input.map (·.1)
    [{ back := back, input := inp, look := look,
       actions := match inl with
         | .none => refActions input 0
         | _ => [(0, Action.inline inl inp)] }]
  | .ignore alts => alts.map fun (b, i, l) => { back := b, input := i, look := l, actions := [] }
  | _ => []

/-- the step of an action: a named lookup is applied as a whole lookup (with its own flag), an inline
    replacement replaces exactly the matched input -/
def actionStep (gdef : List (Glyph × Nat)) (alt : Nat) (env : String → Option Lookup) (flag : Flag) :
    Action → Option Step
  | .named n => (env n).bind fun l => if l.isChain || l.isPos then none else some (simpleStep gdef alt l)
  | .inline (.single by_) (t :: _) => some (substStep [.single t by_])
  | .inline (.lig r) input => some (ligStep (ignored gdef flag) [.ligature input r])
  | .inline (.multi rs) (t :: _) => some fun _ g suf => if t.has g then some (rs, suf) else none
  | _ => none

def ctxMatch (ign : Glyph → Bool) (r : CtxRule) (rev : List Glyph) (g : Glyph) (suf : List Glyph) : Option (List Nat) :=
  matchCtx ign (r.back.reverse.map GC.has) (r.input.map GC.has) (r.look.map GC.has) rev g suf

/-- first matching contextual rule (an `ignore` rule matches and does nothing) -/
def chainStep (gdef : List (Glyph × Nat)) (alt : Nat) (env : String → Option Lookup) (l : Lookup) : Step :=
  fun rev g suf =>
    let ign := ignored gdef l.flag
    ((l.rules.flatMap ctxRules).findSome? fun r => (ctxMatch ign r rev g suf).map (r, ·)).map
      fun (r, ps) => ctxResult (actionStep gdef alt env l.flag) rev g suf ps r.actions

def lookupStep (gdef : List (Glyph × Nat)) (alt : Nat) (env : String → Option Lookup) (l : Lookup) : Step :=
  if l.isChain then chainStep gdef alt env l else simpleStep gdef alt l

/-- One pass of a substitution lookup over the string. -/
def pass (ign : Glyph → Bool) (st : Step) (rev : List Glyph) (suf : List Glyph) : List Glyph :=
  match suf with
  | [] => rev.reverse
  | g :: suf' =>
    if ign g then pass ign st (g :: rev) suf'
    else
      match st rev g suf' with
      | none => pass ign st (g :: rev) suf'
      | some (out, rest) =>
        if rest.length < (g :: suf').length then pass ign st (out.reverse ++ rev) rest
        else rev.reverse ++ out ++ rest
termination_by suf.length
decreasing_by all_goals simp_all <;> omega

def applyGsub (gdef : List (Glyph × Nat)) (alt : Nat) (env : String → Option Lookup) (l : Lookup) (s : List Glyph) : List Glyph :=
  pass (ignored gdef l.flag) (lookupStep gdef alt env l) [] s

/-! positioning -/

def sposOf (r : Rule) (g : Glyph) : Option Value :=
  match r with
  | .spos t v => if t.has g then some v else none
  | _ => none

def sposStep (rules : List Rule) : PStep := fun _ x suf =>
  (rules.findSome? (sposOf · x.1)).map fun v => ([(x.1, x.2.add v)], suf)

/-- Is the rule a specific glyph pair rule (both glyphs, or `enum`)? -/
def isGlyphPair : Rule → Bool
  | .ppos true _ _ _ => true
  | .ppos false (.g _) (.g _) _ => true
  | _ => false

def pposOf (wantGlyphPair : Bool) (r : Rule) (g1 g2 : Glyph) : Option Value :=
  match r with
  | .ppos _ a b v => if isGlyphPair r == wantGlyphPair && a.has g1 && b.has g2 then some v else none
  | _ => none

/-- pair positioning: specific glyph pairs before class pairs, the first matching rule of each;
    the second glyph stays the next position to be visited -/
def pposStep (ign : Glyph → Bool) (rules : List Rule) : PStep := fun _ x suf =>
  match nextUnignored ign suf with
  | none => none
  | some (sk, y, rest) =>
    let v := (rules.findSome? (pposOf true · x.1 y.1)).orElse fun _ => rules.findSome? (pposOf false · x.1 y.1)
    v.map fun v => ((x.1, x.2.add v) :: sk, y :: rest)

def posStep (gdef : List (Glyph × Nat)) (l : Lookup) : PStep :=
  if l.kind == .ppos then pposStep (ignored gdef l.flag) l.rules else sposStep l.rules

def ppass (ign : Glyph → Bool) (st : PStep) (rev : List PGlyph) (suf : List PGlyph) : List PGlyph :=
  match suf with
  | [] => rev.reverse
  | x :: suf' =>
    if ign x.1 then ppass ign st (x :: rev) suf'
    else
      match st rev x suf' with
      | none => ppass ign st (x :: rev) suf'
      | some (out, rest) =>
        if rest.length < (x :: suf').length then ppass ign st (out.reverse ++ rev) rest
        else rev.reverse ++ out ++ rest
termination_by suf.length
decreasing_by all_goals simp_all <;> omega

def applyGpos (gdef : List (Glyph × Nat)) (l : Lookup) (s : List PGlyph) : List PGlyph :=
  ppass (ignored gdef l.flag) (posStep gdef l) [] s

/-! ### lookups of a program, in declaration order, and where they are registered -/

/-- flag of a lookup block: the last `lookupflag` before its first rule, else the flag in force -/
def blockFlag (f : Flag) : List BStmt → Flag
  | [] => f
  | .flag f' :: rest => blockFlag f' rest
  | .rule _ :: _ => f

/-- flag in force after the block (fea-rs keeps it within a feature) -/
def blockFlagAfter (f : Flag) : List BStmt → Flag
  | [] => f
  | .flag f' :: rest => blockFlagAfter f' rest
  | .rule _ :: rest => blockFlagAfter f rest

def blockRules : List BStmt → List Rule
  | [] => []
  | .flag _ :: rest => blockRules rest
  | .rule r :: rest => r :: blockRules rest

/-- position within a feature block with respect to `script` / `language` statements -/
inductive Reg where
  | root
  | script (s : Tag)
  | lang (s l : Tag)
  deriving DecidableEq, Repr, Inhabited

/-- something that takes part in a feature: a lookup defined here, or a reference to a named one -/
inductive Item where
  | defn (l : Lookup)
  | ref (n : String)
  deriving Repr, Inhabited

structure Walk where
  reg : Reg := .root
  flag : Flag := {}
  /-- the run of rules being collected: where it started, its flag, its rules -/
  cur : Option (Reg × Flag × List Rule) := none
  out : List (Reg × Item) := []
  deriving Repr, Inhabited

def Walk.flush (w : Walk) : Walk :=
  match w.cur with
  | none => w
  | some (reg, f, rules) => { w with cur := none, out := w.out ++ [(reg, .defn ⟨none, f, rules⟩)] }

/-- consecutive rules of one type under one flag form a lookup; `script`, `language` and lookup blocks
    end the run, a lookup reference or a `lookupflag` restating the flag does not -/
def walkStmt (w : Walk) : Stmt → Walk
  | .script s =>
    let w := w.flush
    { w with reg := .script s, flag := {} }
  | .language l _ =>
    let w := w.flush
    let s := match w.reg with | .root => "DFLT" | .script s => s | .lang s _ => s
    { w with reg := if l == "dflt" then .script s else .lang s l }
  | .flag f => { w with flag := f }
  | .rule r =>
    match w.cur with
    | some (reg, f, rules) =>
      if f = w.flag ∧ (rules.head?.map Rule.kind) = some r.kind then { w with cur := some (reg, f, rules ++ [r]) }
      else let w := w.flush; { w with cur := some (w.reg, w.flag, [r]) }
    | none => { w with cur := some (w.reg, w.flag, [r]) }
  | .lookup n body =>
    let w := w.flush
    { w with out := w.out ++ [(w.reg, .defn ⟨some n, blockFlag w.flag body, blockRules body⟩)],
             flag := blockFlagAfter w.flag body }
  | .ref n => { w with out := w.out ++ [(w.reg, .ref n)] }

def featureItems (body : List Stmt) : List (Reg × Item) :=
  ((body.foldl walkStmt {}).flush).out

/-- the `language` statements (with `exclude_dflt`) that follow within the same script segment -/
def laterLangs : List Stmt → List (Tag × Bool)
  | [] => []
  | .script _ :: _ => []
  | .language l ex :: rest => (l, ex) :: laterLangs rest
  | _ :: rest => laterLangs rest

/-- all `(script, language, exclude_dflt)` statements of a feature body -/
def langStmts : Option Tag → List Stmt → List (Tag × Tag × Bool)
  | _, [] => []
  | _, .script s :: rest => langStmts (some s) rest
  | cur, .language l ex :: rest => (cur.getD "DFLT", l, ex) :: langStmts cur rest
  | cur, _ :: rest => langStmts cur rest

def langsysOf (tops : List Top) : List (Tag × Tag) :=
  let ls := tops.filterMap fun | .langsys s l => some (s, l) | _ => none
  if ls.isEmpty then [("DFLT", "dflt")] else ls

/-- Is something at position `reg` of a feature block registered for `(script, lang)`?
    * before any `script` statement: for every declared language system, except a language that the
      block later enters with `exclude_dflt`;
    * after `script S;`: for `S/dflt` and for every language of `S` that a later `language` statement
      of the block enters without `exclude_dflt`;
    * after `language L;`: for `S/L` only. -/
def registered (langsys : List (Tag × Tag)) (body : List Stmt) (reg : Reg) (script lang : Tag) : Bool :=
  let stmts := langStmts none body
  match reg with
  | .root => langsys.contains (script, lang) && !(stmts.any fun (s, l, ex) => s == script && l == lang && ex)
  | .script s =>
    s == script && (lang == "dflt" || stmts.any fun (s', l, ex) => s' == s && l == lang && !ex)
  | .lang s l => s == script && l == lang

/-- a lookup of the program together with the `(feature, script, language)` triples it acts for -/
structure Entry where
  lookup : Lookup
  regs : List (Tag × Tag × Tag)
  deriving Repr, Inhabited

def allPairs (langsys : List (Tag × Tag)) (body : List Stmt) : List (Tag × Tag) :=
  (langsys ++ (langStmts none body).map fun (x : Tag × Tag × Bool) => (x.1, x.2.1)).eraseDups

def regsFor (langsys : List (Tag × Tag)) (tag : Tag) (body : List Stmt) (reg : Reg) : List (Tag × Tag × Tag) :=
  ((allPairs langsys body).filter fun (s, l) => registered langsys body reg s l).map fun (s, l) => (tag, s, l)

def addRegs (es : List Entry) (name : String) (regs : List (Tag × Tag × Tag)) : List Entry :=
  es.map fun e => if e.lookup.name == some name then { e with regs := e.regs ++ regs } else e

def addItems (langsys : List (Tag × Tag)) (tag : Tag) (body : List Stmt) : List Entry → List (Reg × Item) → List Entry
  | es, [] => es
  | es, (reg, .defn l) :: rest => addItems langsys tag body (es ++ [⟨l, regsFor langsys tag body reg⟩]) rest
  | es, (reg, .ref n) :: rest => addItems langsys tag body (addRegs es n (regsFor langsys tag body reg)) rest

def entriesOf (langsys : List (Tag × Tag)) : List Entry → List Top → List Entry
  | es, [] => es
  | es, .langsys .. :: rest => entriesOf langsys es rest
  | es, .lookup n body :: rest =>
    entriesOf langsys (es ++ [⟨⟨some n, blockFlag {} body, blockRules body⟩, []⟩]) rest
  | es, .feature tag body :: rest =>
    entriesOf langsys (addItems langsys tag body es (featureItems body)) rest

def entries (p : Program) : List Entry := entriesOf (langsysOf p.tops) [] p.tops

def envOf (es : List Entry) (n : String) : Option Lookup :=
  (es.find? fun e => e.lookup.name == some n).map (·.lookup)

def Entry.active (e : Entry) (script lang : Tag) (feats : List Tag) : Bool :=
  e.regs.any fun (f, s, l) => feats.contains f && s == script && l == lang

end Src

/-- **The feature-file semantics.**  Every lookup of the file, in declaration order, that one of the
    enabled features registers for `script`/`lang` is applied to the whole string: substitutions
    first, then positioning.  `alt` selects the alternate for `sub … from`. -/
def interp (p : Program) (script lang : Tag) (feats : List Tag) (alt : Nat) (s : List Glyph) : List PGlyph :=
  let es := Src.entries p
  let env := Src.envOf es
  let act := es.filter (·.active script lang feats)
  let glyphs := (act.filter (!·.lookup.isPos)).foldl (fun s e => Src.applyGsub p.gdef alt env e.lookup s) s
  (act.filter (·.lookup.isPos)).foldl (fun s e => Src.applyGpos p.gdef e.lookup s) (glyphs.map (·, Value.zero))

/-! ## 4. OpenType tables and their application -/

namespace OT

abbrev ClassDef := List (Glyph × Nat)

/-- `(backtrack, input after the first glyph, lookahead, sequence-lookup records)` of a rule of a
    format 1 / format 2 (chained) sequence context; for format 2 the entries are class numbers -/
structure SeqRule where
  back : List Nat
  input : List Nat
  look : List Nat
  recs : List (Nat × Nat)
  deriving DecidableEq, Repr, Inhabited

inductive Subtable where
  /-- SingleSubst (either format): covered glyph ↦ substitute, in coverage order -/
  | single (m : List (Glyph × Glyph))
  | multiple (m : List (Glyph × List Glyph))
  | alternate (m : List (Glyph × List Glyph))
  /-- covered first glyph ↦ ligature set: `(ligature glyph, remaining components)` in table order -/
  | ligature (m : List (Glyph × List (Glyph × List Glyph)))
  /-- (Chained)SequenceContext format 1: covered glyph ↦ rule set (`none` = null offset) -/
  | chain1 (m : List (Glyph × Option (List SeqRule)))
  /-- format 2: coverage, backtrack / input / lookahead class definitions, rule sets by class -/
  | chain2 (cov : List Glyph) (bdef idef ldef : ClassDef) (sets : List (Option (List SeqRule)))
  /-- format 3: coverage tables (backtrack nearest first) and records -/
  | chain3 (back input look : List (List Glyph)) (recs : List (Nat × Nat))
  /-- SinglePos (either format) -/
  | spos (m : List (Glyph × Value))
  /-- PairPos format 1: value formats, covered first glyph ↦ pair set -/
  | ppos1 (f1 f2 : Nat) (m : List (Glyph × List (Glyph × Value × Value)))
  /-- PairPos format 2 -/
  | ppos2 (f1 f2 : Nat) (cov : List Glyph) (cd1 cd2 : ClassDef) (rows : List (List (Value × Value)))
  | other
  deriving DecidableEq, Repr, Inhabited

structure Lookup where
  /-- GSUB: 1 single 2 multiple 3 alternate 4 ligature 5 context 6 chained context;
      GPOS: 1 single 2 pair 7 context 8 chained context -/
  ty : Nat
  /-- lookupFlag bits: 1 rightToLeft, 2 ignoreBaseGlyphs, 4 ignoreLigatures, 8 ignoreMarks,
      0x10 useMarkFilteringSet, 0xFF00 markAttachmentType -/
  flag : Nat
  markFilteringSet : Option Nat
  subtables : List Subtable
  deriving DecidableEq, Repr, Inhabited

structure LangSys where
  required : Nat   -- 0xFFFF = none
  features : List Nat
  deriving DecidableEq, Repr, Inhabited

structure Script where
  tag : Tag
  dflt : Option LangSys
  langs : List (Tag × LangSys)
  deriving DecidableEq, Repr, Inhabited

structure Table where
  lookups : List Lookup := []
  features : List (Tag × List Nat) := []
  scripts : List Script := []
  deriving DecidableEq, Repr, Inhabited

structure Gdef where
  classes : ClassDef := []
  attach : ClassDef := []
  sets : List (List Glyph) := []
  deriving DecidableEq, Repr, Inhabited

structure Tables where
  gsub : Table := {}
  gpos : Table := {}
  gdef : Gdef := {}
  deriving DecidableEq, Repr, Inhabited

def classOf (cd : ClassDef) (g : Glyph) : Nat := (cd.lookup g).getD 0

/-- OpenType lookup flag semantics -/
def ignored (gdef : Gdef) (flag : Nat) (mfs : Option Nat) (g : Glyph) : Bool :=
  match classOf gdef.classes g with
  | 1 => flag / 2 % 2 == 1
  | 2 => flag / 4 % 2 == 1
  | 3 =>
    flag / 8 % 2 == 1
    || (flag / 16 % 2 == 1 && match mfs with
        | some i => !((gdef.sets[i]?).getD []).contains g
        | none => false)
    || (flag / 256 != 0 && classOf gdef.attach g != flag / 256)
  | _ => false

def Lookup.ign (gdef : Gdef) (l : Lookup) : Glyph → Bool := ignored gdef l.flag l.markFilteringSet

/-- rule sets of format 1 / 2: first rule whose sequences match -/
def seqRuleMatch (ign : Glyph → Bool) (pb pi pl : Nat → Glyph → Bool) (first : Glyph → Bool) (r : SeqRule)
    (rev : List Glyph) (g : Glyph) (suf : List Glyph) : Option (List Nat) :=
  matchCtx ign (r.back.map pb) (first :: r.input.map pi) (r.look.map pl) rev g suf

/-- the matched positions and records of the first matching rule of a contextual subtable -/
def ctxSubtableMatch (ign : Glyph → Bool) (st : Subtable) (rev : List Glyph) (g : Glyph) (suf : List Glyph) :
    Option (List Nat × List (Nat × Nat)) :=
  match st with
  | .chain1 m =>
    match m.lookup g with
    | some (some rules) =>
      rules.findSome? fun r =>
        (seqRuleMatch ign (fun x y => x == y) (fun x y => x == y) (fun x y => x == y) (fun _ => true) r rev g suf).map (·, r.recs)
    | _ => none
  | .chain2 cov bdef idef ldef sets =>
    if cov.contains g then
      match sets[classOf idef g]? with
      | some (some rules) =>
        rules.findSome? fun r =>
          (seqRuleMatch ign (fun c y => classOf bdef y == c) (fun c y => classOf idef y == c)
            (fun c y => classOf ldef y == c) (fun _ => true) r rev g suf).map (·, r.recs)
      | _ => none
    else none
  | .chain3 back input look recs =>
    (matchCtx ign (back.map fun c y => c.contains y) (input.map fun c y => c.contains y)
      (look.map fun c y => c.contains y) rev g suf).map (·, recs)
  | _ => none

/-- a non-contextual substitution subtable at the current glyph -/
def simpleSubtableStep (ign : Glyph → Bool) (alt : Nat) (st : Subtable) : Step := fun _ g suf =>
  match st with
  | .single m => (m.lookup g).map fun x => ([x], suf)
  | .multiple m => (m.lookup g).map fun xs => (xs, suf)
  | .alternate m => ((m.lookup g).bind (·[alt]?)).map fun x => ([x], suf)
  | .ligature m =>
    match m.lookup g with
    | none => none
    | some ligs =>
      ligs.findSome? fun (lig, comps) =>
        (matchFwd ign (comps.map fun c y => c == y) suf 1).map fun ps => ligResult lig suf (0 :: ps)
  | _ => none

/-- A lookup at one position: the first subtable that applies.  Nested lookups of contextual
    subtables are looked up in `lookups`; `depth` bounds the nesting. -/
def lookupStep (gdef : Gdef) (alt : Nat) (lookups : List Lookup) : Nat → Lookup → Step
  | 0, l => fun rev g suf => l.subtables.findSome? fun st => simpleSubtableStep (l.ign gdef) alt st rev g suf
  | d + 1, l => fun rev g suf =>
    l.subtables.findSome? fun st =>
      match simpleSubtableStep (l.ign gdef) alt st rev g suf with
      | some r => some r
      | none =>
        (ctxSubtableMatch (l.ign gdef) st rev g suf).map fun (ps, recs) =>
          ctxResult (fun i => (lookups[i]?).map (lookupStep gdef alt lookups d)) rev g suf ps recs

def pass (ign : Glyph → Bool) (st : Step) (rev : List Glyph) (suf : List Glyph) : List Glyph :=
  match suf with
  | [] => rev.reverse
  | g :: suf' =>
    if ign g then pass ign st (g :: rev) suf'
    else
      match st rev g suf' with
      | none => pass ign st (g :: rev) suf'
      | some (out, rest) =>
        if rest.length < (g :: suf').length then pass ign st (out.reverse ++ rev) rest
        else rev.reverse ++ out ++ rest
termination_by suf.length
decreasing_by all_goals simp_all <;> omega

def nestingDepth : Nat := 6

def applyGsub (t : Tables) (alt : Nat) (l : Lookup) (s : List Glyph) : List Glyph :=
  pass (l.ign t.gdef) (lookupStep t.gdef alt t.gsub.lookups nestingDepth l) [] s

/-- positioning subtables -/
def posSubtableStep (ign : Glyph → Bool) (st : Subtable) : PStep := fun _ x suf =>
  match st with
  | .spos m => (m.lookup x.1).map fun v => ([(x.1, x.2.add v)], suf)
  | .ppos1 _ f2 m =>
    match m.lookup x.1, nextUnignored ign suf with
    | some set, some (sk, y, rest) =>
      (set.lookup y.1).map fun (v1, v2) =>
        if f2 = 0 then ((x.1, x.2.add v1) :: sk, (y.1, y.2.add v2) :: rest)
        else ((x.1, x.2.add v1) :: sk ++ [(y.1, y.2.add v2)], rest)
    | _, _ => none
  | .ppos2 _ f2 cov cd1 cd2 rows =>
    if cov.contains x.1 then
      match nextUnignored ign suf with
      | some (sk, y, rest) =>
        (((rows[classOf cd1 x.1]?).bind (·[classOf cd2 y.1]?))).map fun (v1, v2) =>
          if f2 = 0 then ((x.1, x.2.add v1) :: sk, (y.1, y.2.add v2) :: rest)
          else ((x.1, x.2.add v1) :: sk ++ [(y.1, y.2.add v2)], rest)
      | none => none
    else none
  | _ => none

def posLookupStep (gdef : Gdef) (l : Lookup) : PStep := fun rev x suf =>
  l.subtables.findSome? fun st => posSubtableStep (l.ign gdef) st rev x suf

def ppass (ign : Glyph → Bool) (st : PStep) (rev : List PGlyph) (suf : List PGlyph) : List PGlyph :=
  match suf with
  | [] => rev.reverse
  | x :: suf' =>
    if ign x.1 then ppass ign st (x :: rev) suf'
    else
      match st rev x suf' with
      | none => ppass ign st (x :: rev) suf'
      | some (out, rest) =>
        if rest.length < (x :: suf').length then ppass ign st (out.reverse ++ rev) rest
        else rev.reverse ++ out ++ rest
termination_by suf.length
decreasing_by all_goals simp_all <;> omega

def applyGpos (t : Tables) (l : Lookup) (s : List PGlyph) : List PGlyph :=
  ppass (l.ign t.gdef) (posLookupStep t.gdef l) [] s

/-- language system selection: exact script record; exact language record, else the default -/
def langSys (t : Table) (script lang : Tag) : Option LangSys :=
  match t.scripts.find? (fun (r : Script) => r.tag == script) with
  | none => none
  | some s =>
    if lang == "dflt" then s.dflt
    else match s.langs.lookup lang with
      | some l => some l
      | none => s.dflt

def insertSorted (x : Nat) : List Nat → List Nat
  | [] => [x]
  | y :: ys => if x < y then x :: y :: ys else if x = y then y :: ys else y :: insertSorted x ys

def sortDedup (xs : List Nat) : List Nat := xs.foldr insertSorted []

/-- lookup indices of the enabled features of the language system, ascending, without repeats -/
def activeLookups (t : Table) (script lang : Tag) (feats : List Tag) : List Nat :=
  match langSys t script lang with
  | none => []
  | some ls =>
    let fidx := (if ls.required = 0xFFFF then [] else [ls.required]) ++ ls.features
    sortDedup <| fidx.flatMap fun i =>
      match t.features[i]? with
      | some (tag, ls) => if feats.contains tag then ls else []
      | none => []

end OT

/-- **OpenType application.**  The lookups of the enabled features of the selected language system,
    in lookup-list order: GSUB, then GPOS. -/
def shape (t : OT.Tables) (script lang : Tag) (feats : List Tag) (alt : Nat) (s : List Glyph) : List PGlyph :=
  let glyphs := (OT.activeLookups t.gsub script lang feats).foldl
    (fun s i => match t.gsub.lookups[i]? with | some l => OT.applyGsub t alt l s | none => s) s
  (OT.activeLookups t.gpos script lang feats).foldl
    (fun s i => match t.gpos.lookups[i]? with | some l => OT.applyGpos t l s | none => s) (glyphs.map (·, Value.zero))

end Fontc.FeaCompile
