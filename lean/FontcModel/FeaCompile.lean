/-
  C11 — feature-file compilation (fea-rs/src/compile/{compile_ctx,lookups,lookups/contextual,features}.rs
  and the write-fonts GSUB/GPOS builders) as an abstract compiler between two interpreters.

  * `Program`  : the modelled subset of the feature-file language (glyphs are `Nat` ids; glyph classes,
                 named classes and ranges are already expanded to glyph lists).
  * `Src.*`    : the feature-file semantics, read off the FEA / OpenType specifications:
                 lookups in declaration order, first matching rule per position (longest ligature
                 first), lookup flags through the GDEF class map, contextual rules invoking their
                 nested lookups at the matched positions; script / language registration.
                 `interp` is its entry point.
  * `OT.*`     : OpenType layout tables (lookup list, subtables with coverage, feature list,
                 script/langsys records, GDEF classes) and their application to a glyph string as
                 the OpenType specification describes it (the HarfBuzz reading where the
                 specification is silent).  `shape` is its entry point.
  * `Cmp.*`    : what fea-rs builds: the walk of the statements with its `current lookup`, the
                 builders (BTreeMap keyed subtables, ligature sets sorted longest first, anonymous
                 lookups of contextual rules and their pooling, pair positioning glyph pairs before
                 class pairs), lookup ids, `ActiveFeature` bookkeeping, feature / script lists.
                 `compile` is its entry point.

  Core Lean only (linked into `vdriver`).
-/

namespace Fontc.FeaCompile

abbrev Glyph := Nat
abbrev Tag := String

/-! ## 1. Abstract syntax -/

/-- GPOS value record (x/y placement, x/y advance); device tables and variations are not modelled. -/
structure Value where
  xp : Int
  yp : Int
  xa : Int
  ya : Int
  deriving DecidableEq, Repr, Inhabited

def Value.zero : Value := ⟨0, 0, 0, 0⟩
def Value.add (a b : Value) : Value := ⟨a.xp + b.xp, a.yp + b.yp, a.xa + b.xa, a.ya + b.ya⟩
def Value.isZero (a : Value) : Bool := a.xp == 0 && a.yp == 0 && a.xa == 0 && a.ya == 0

/-- `lookupflag` as written in the source: the mark attachment class and the mark filtering set are
    glyph sets there (ids are assigned by the compiler). -/
structure Flag where
  rtl : Bool := false
  ib : Bool := false
  il : Bool := false
  im : Bool := false
  attach : Option (List Glyph) := none
  filter : Option (List Glyph) := none
  deriving DecidableEq, Repr, Inhabited

def Flag.empty : Flag := {}

/-- a glyph or a glyph class (an ordered glyph list) -/
inductive GC where
  | g (x : Glyph)
  | c (xs : List Glyph)
  deriving DecidableEq, Repr, Inhabited

def GC.glyphs : GC → List Glyph
  | .g x => [x]
  | .c xs => xs

def GC.has (x : GC) (y : Glyph) : Bool := x.glyphs.contains y

def GC.isClass : GC → Bool
  | .g _ => false
  | .c _ => true

/-- the inline replacement of a contextual substitution rule -/
inductive Inline where
  | none
  | single (by_ : GC)
  | lig (r : Glyph)
  | multi (rs : List Glyph)
  deriving DecidableEq, Repr, Inhabited

inductive Rule where
  /-- `sub a by b;  sub [a b] by [c d];  sub [a b] by c;` -/
  | single (t r : GC)
  /-- `sub a by b c;`  (`sub a by NULL;` is the empty replacement) -/
  | multiple (t : Glyph) (r : List Glyph)
  /-- `sub a from [b c];` -/
  | alternate (t : Glyph) (alts : List Glyph)
  /-- `sub a [b c] by d;` -/
  | ligature (ts : List GC) (r : Glyph)
  /-- `sub x a' lookup L b' y [by …];` — `input` are the marked glyphs with their lookup references -/
  | chain (back : List GC) (input : List (GC × List String)) (look : List GC) (inl : Inline)
  /-- `ignore sub x a' y, …;` -/
  | ignore (alts : List (List GC × List GC × List GC))
  /-- `pos a <1 2 3 4>;` -/
  | spos (t : GC) (v : Value)
  /-- `[enum] pos a b -10;` (first value record only) -/
  | ppos (enum : Bool) (a b : GC) (v : Value)
  deriving DecidableEq, Repr, Inhabited

/-- rule type as far as it decides which rules may share a lookup -/
inductive Kind where
  | single | multiple | alternate | ligature | chain | spos | ppos
  deriving DecidableEq, Repr, Inhabited

def Rule.kind : Rule → Kind
  | .single .. => .single
  | .multiple .. => .multiple
  | .alternate .. => .alternate
  | .ligature .. => .ligature
  | .chain .. => .chain
  | .ignore .. => .chain
  | .spos .. => .spos
  | .ppos .. => .ppos

def Kind.isPos : Kind → Bool
  | .spos => true
  | .ppos => true
  | _ => false

/-- statements of a `lookup NAME { … } NAME;` block -/
inductive BStmt where
  | flag (f : Flag)
  | rule (r : Rule)
  deriving DecidableEq, Repr, Inhabited

/-- statements of a `feature TAG { … } TAG;` block -/
inductive Stmt where
  | script (t : Tag)
  | language (t : Tag) (excludeDflt : Bool)
  | flag (f : Flag)
  | rule (r : Rule)
  | lookup (name : String) (body : List BStmt)
  | ref (name : String)
  deriving DecidableEq, Repr, Inhabited

inductive Top where
  | langsys (script lang : Tag)
  | lookup (name : String) (body : List BStmt)
  | feature (tag : Tag) (body : List Stmt)
  deriving DecidableEq, Repr, Inhabited

structure Program where
  /-- `table GDEF { GlyphClassDef … }`: glyph ↦ class (1 base, 2 ligature, 3 mark, 4 component);
      empty = no GDEF block -/
  gdef : List (Glyph × Nat)
  tops : List Top
  deriving Repr, Inhabited

/-! ## 2. Applying a lookup at a position: notions shared by both interpreters

  A lookup is applied to the glyph string from left to right.  The string is held as the reversed
  prefix already passed (`rev`), the current glyph and the suffix.  A `Step` is one lookup tried at
  one position: it yields the glyphs to put out and the suffix that remains to be visited. -/

abbrev Step := List Glyph → Glyph → List Glyph → Option (List Glyph × List Glyph)

/-- Match a sequence of glyph predicates against `buf`, skipping ignored glyphs; the result is the
    list of offsets (counted from `off`) of the matched glyphs. -/
def matchFwd (ign : Glyph → Bool) : List (Glyph → Bool) → List Glyph → Nat → Option (List Nat)
  | [], _, _ => some []
  | _ :: _, [], _ => none
  | p :: ps, g :: buf, off =>
    if ign g then matchFwd ign (p :: ps) buf (off + 1)
    else if p g then (matchFwd ign ps buf (off + 1)).map (off :: ·)
    else none

/-- Input sequence: the current glyph is the first input glyph (offset 0). -/
def matchInput (ign : Glyph → Bool) (preds : List (Glyph → Bool)) (g : Glyph) (suf : List Glyph) :
    Option (List Nat) :=
  match preds with
  | [] => none
  | p :: ps => if p g then (matchFwd ign ps suf 1).map (0 :: ·) else none

/-- offset just after the last matched input glyph -/
def matchEnd (ps : List Nat) : Nat := ps.getLast?.getD 0 + 1

/-- backtrack (nearest first, against the reversed prefix), input, lookahead -/
def matchCtx (ign : Glyph → Bool) (back input look : List (Glyph → Bool))
    (rev : List Glyph) (g : Glyph) (suf : List Glyph) : Option (List Nat) :=
  match matchInput ign input g suf with
  | none => none
  | some ps =>
    if (matchFwd ign look ((g :: suf).drop (matchEnd ps)) 0).isSome
       && (matchFwd ign back rev 0).isSome then some ps else none

/-- remove the glyphs at the given (increasing) offsets; `off` is the offset of the head -/
def removeAt : List Glyph → List Nat → Nat → List Glyph
  | [], _, _ => []
  | g :: buf, [], _ => g :: buf
  | g :: buf, p :: ps, off =>
    if p = off then removeAt buf ps (off + 1) else g :: removeAt buf (p :: ps) (off + 1)

/-- A ligature substitution matched at offsets `0 :: ps` of `g :: suf`: the components disappear, the
    ligature glyph stands at the place of the first, skipped glyphs follow it. -/
def ligResult (lig : Glyph) (suf : List Glyph) (ps : List Nat) : List Glyph × List Glyph :=
  ([lig], removeAt suf (ps.drop 1) 1)

/-- apply `st` at offset `i` of `buf` (`rev` = reversed prefix before `buf`); returns the new buffer
    and the change of length -/
def applyAtIndex (st : Step) (rev buf : List Glyph) (i : Nat) : Option (List Glyph × Int) :=
  match buf.drop i with
  | [] => none
  | g :: post =>
    match st ((buf.take i).reverse ++ rev) g post with
    | none => none
    | some (out, rest) =>
      some (buf.take i ++ out ++ rest, ((out.length + rest.length : Nat) : Int) - ((1 + post.length : Nat) : Int))

/-- matched positions after a nested lookup at sequence index `idx` changed the length by `delta`
    (HarfBuzz `apply_lookup`): inserted glyphs become positions, removed ones drop out -/
def fixPositions (ps : List Nat) (idx : Nat) (delta : Int) : List Nat :=
  let head := ps.take (idx + 1)
  let tail := ps.drop (idx + 1)
  let base := ps.getD idx 0
  if delta ≥ 0 then
    head ++ (List.range delta.toNat).map (fun k => base + 1 + k) ++ tail.map (· + delta.toNat)
  else
    let d := min (-delta).toNat tail.length
    head ++ (tail.drop d).map (· - d)

def fixEnd (e : Nat) (delta : Int) (p : Nat) : Nat :=
  let e' := (e : Int) + delta
  if e' < (p : Int) then p else e'.toNat

/-- the sequence-lookup records of a contextual rule, in order -/
def runRecords {α : Type} (nested : α → Option Step) (rev : List Glyph) :
    List (Nat × α) → List Glyph → List Nat → Nat → List Glyph × Nat
  | [], buf, _, e => (buf, e)
  | (si, l) :: rs, buf, ps, e =>
    match ps[si]?, nested l with
    | some p, some st =>
      match applyAtIndex st rev buf p with
      | some (buf', d) => runRecords nested rev rs buf' (fixPositions ps si d) (fixEnd e d p)
      | none => runRecords nested rev rs buf ps e
    | _, _ => runRecords nested rev rs buf ps e

/-- result of a matched contextual rule: run the records, put out everything up to the (adjusted)
    end of the input sequence -/
def ctxResult {α : Type} (nested : α → Option Step) (rev : List Glyph) (g : Glyph) (suf : List Glyph)
    (ps : List Nat) (recs : List (Nat × α)) : List Glyph × List Glyph :=
  let r := runRecords nested rev recs (g :: suf) ps (matchEnd ps)
  (r.1.take r.2, r.1.drop r.2)

/-- index of the first occurrence -/
def indexOf? : List Glyph → Glyph → Option Nat
  | [], _ => none
  | x :: xs, g => if x = g then some 0 else (indexOf? xs g).map (· + 1)

/-- positioned glyph string -/
abbrev PGlyph := Glyph × Value

/-- one positioning lookup tried at one position -/
abbrev PStep := List PGlyph → PGlyph → List PGlyph → Option (List PGlyph × List PGlyph)

/-- the next glyph that is not ignored: skipped prefix, it, the rest -/
def nextUnignored (ign : Glyph → Bool) : List PGlyph → Option (List PGlyph × PGlyph × List PGlyph)
  | [] => none
  | x :: xs =>
    if ign x.1 then (nextUnignored ign xs).map (fun (sk, y, r) => (x :: sk, y, r))
    else some ([], x, xs)

/-! ## 3. Feature-file semantics -/

namespace Src

/-- Is `g` skipped under `lookupflag f`?  GDEF classes: 1 base, 2 ligature, 3 mark. -/
def ignored (gdef : List (Glyph × Nat)) (f : Flag) (g : Glyph) : Bool :=
  match gdef.lookup g with
  | some 1 => f.ib
  | some 2 => f.il
  | some 3 =>
    f.im
    || (match f.filter with | some s => !s.contains g | none => false)
    || (match f.attach with | some s => !s.contains g | none => false)
  | _ => false

/-- a lookup of the source: a named block, or a run of rules of one type under one flag -/
structure Lookup where
  name : Option String
  flag : Flag
  rules : List Rule
  deriving DecidableEq, Repr, Inhabited

def Lookup.kind (l : Lookup) : Kind := (l.rules.head?.map Rule.kind).getD .single
def Lookup.isPos (l : Lookup) : Bool := l.rules.any (·.kind.isPos)
def Lookup.isChain (l : Lookup) : Bool := l.rules.any (·.kind == .chain)
def Lookup.isLig (l : Lookup) : Bool := l.rules.any (·.kind == .ligature)
def Lookup.isAlt (l : Lookup) : Bool := l.rules.any (·.kind == .alternate)

/-- single / multiple substitution of one glyph by one rule -/
def subst1 (r : Rule) (g : Glyph) : Option (List Glyph) :=
  match r with
  | .single (.g t) (.g x) => if g = t then some [x] else none
  | .single (.c ts) (.g x) => if ts.contains g then some [x] else none
  | .single (.c ts) (.c [x]) => if ts.contains g then some [x] else none
  | .single (.c ts) (.c xs) => ((indexOf? ts g).bind (xs[·]?)).map ([·])
  | .multiple t xs => if g = t then some xs else none
  | _ => none

/-- first matching rule -/
def substStep (rules : List Rule) : Step := fun _ g suf =>
  (rules.findSome? (subst1 · g)).map (·, suf)

def altOf (r : Rule) (g : Glyph) : Option (List Glyph) :=
  match r with
  | .alternate t alts => if g = t then some alts else none
  | _ => none

/-- alternate substitution: the client picks the `alt`-th alternate (no substitution if there is none) -/
def altStep (alt : Nat) (rules : List Rule) : Step := fun _ g suf =>
  ((rules.findSome? (altOf · g)).bind (·[alt]?)).map (fun x => ([x], suf))

/-- a rule of a ligature lookup matched at the current position: number of components, ligature
    glyph, offsets of the components.  A single substitution counts as a one-component ligature. -/
def ligMatch (ign : Glyph → Bool) (r : Rule) (g : Glyph) (suf : List Glyph) : Option (Nat × Glyph × List Nat) :=
  match r with
  | .ligature (t :: ts) x =>
    if t.has g then (matchFwd ign (ts.map GC.has) suf 1).map (fun ps => (ts.length + 1, x, 0 :: ps)) else none
  | .single .. =>
    match subst1 r g with
    | some [x] => some (1, x, [0])
    | _ => none
  | _ => none

/-- the longest match; among equally long ones the first in source order -/
def bestLig : List (Nat × Glyph × List Nat) → Option (Nat × Glyph × List Nat)
  | [] => none
  | c :: cs =>
    match bestLig cs with
    | none => some c
    | some b => if b.1 > c.1 then some b else some c

def ligStep (ign : Glyph → Bool) (rules : List Rule) : Step := fun _ g suf =>
  (bestLig (rules.filterMap (ligMatch ign · g suf))).map (fun (_, x, ps) => ligResult x suf ps)

/-- non-contextual substitution lookups -/
def simpleStep (gdef : List (Glyph × Nat)) (alt : Nat) (l : Lookup) : Step :=
  if l.isLig then ligStep (ignored gdef l.flag) l.rules
  else if l.isAlt then altStep alt l.rules
  else substStep l.rules

/-- what a contextual rule does at a matched input position -/
inductive Action where
  | named (n : String)
  /-- the inline replacement; `input` is the rule's input sequence -/
  | inline (inl : Inline) (input : List GC)
  deriving Repr, Inhabited

structure CtxRule where
  back : List GC
  input : List GC
  look : List GC
  actions : List (Nat × Action)
  deriving Repr, Inhabited

/-- explicit lookup references of the marked glyphs, in order -/
def refActions : List (GC × List String) → Nat → List (Nat × Action)
  | [], _ => []
  | (_, refs) :: rest, i => refs.map (fun n => (i, Action.named n)) ++ refActions rest (i + 1)

def ctxRules : Rule → List CtxRule
  | .chain back input look inl =>
    let inp := input.map (·.1)
    [{ back := back, input := inp, look := look,
       actions := match inl with
         | .none => refActions input 0
         | _ => [(0, Action.inline inl inp)] }]
  | .ignore alts => alts.map fun (b, i, l) => { back := b, input := i, look := l, actions := [] }
  | _ => []

/-- the step of an action: a named lookup is applied as a whole lookup (with its own flag), an inline
    replacement replaces exactly the matched input -/
def actionStep (gdef : List (Glyph × Nat)) (alt : Nat) (env : String → Option Lookup) (flag : Flag) :
    Action → Option Step
  | .named n => (env n).bind fun l => if l.isChain || l.isPos then none else some (simpleStep gdef alt l)
  | .inline (.single by_) (t :: _) => some (substStep [.single t by_])
  | .inline (.lig r) input => some (ligStep (ignored gdef flag) [.ligature input r])
  | .inline (.multi rs) (t :: _) => some fun _ g suf => if t.has g then some (rs, suf) else none
  | _ => none

def ctxMatch (ign : Glyph → Bool) (r : CtxRule) (rev : List Glyph) (g : Glyph) (suf : List Glyph) : Option (List Nat) :=
  matchCtx ign (r.back.reverse.map GC.has) (r.input.map GC.has) (r.look.map GC.has) rev g suf

/-- first matching contextual rule (an `ignore` rule matches and does nothing) -/
def chainStep (gdef : List (Glyph × Nat)) (alt : Nat) (env : String → Option Lookup) (l : Lookup) : Step :=
  fun rev g suf =>
    let ign := ignored gdef l.flag
    ((l.rules.flatMap ctxRules).findSome? fun r => (ctxMatch ign r rev g suf).map (r, ·)).map
      fun (r, ps) => ctxResult (actionStep gdef alt env l.flag) rev g suf ps r.actions

def lookupStep (gdef : List (Glyph × Nat)) (alt : Nat) (env : String → Option Lookup) (l : Lookup) : Step :=
  if l.isChain then chainStep gdef alt env l else simpleStep gdef alt l

/-- One pass of a substitution lookup over the string. -/
def pass (ign : Glyph → Bool) (st : Step) (rev : List Glyph) (suf : List Glyph) : List Glyph :=
  match suf with
  | [] => rev.reverse
  | g :: suf' =>
    if ign g then pass ign st (g :: rev) suf'
    else
      match st rev g suf' with
      | none => pass ign st (g :: rev) suf'
      | some (out, rest) =>
        if rest.length < (g :: suf').length then pass ign st (out.reverse ++ rev) rest
        else rev.reverse ++ out ++ rest
termination_by suf.length
decreasing_by all_goals simp_all <;> omega

def applyGsub (gdef : List (Glyph × Nat)) (alt : Nat) (env : String → Option Lookup) (l : Lookup) (s : List Glyph) : List Glyph :=
  pass (ignored gdef l.flag) (lookupStep gdef alt env l) [] s

/-! positioning -/

def sposOf (r : Rule) (g : Glyph) : Option Value :=
  match r with
  | .spos t v => if t.has g then some v else none
  | _ => none

def sposStep (rules : List Rule) : PStep := fun _ x suf =>
  (rules.findSome? (sposOf · x.1)).map fun v => ([(x.1, x.2.add v)], suf)

/-- Is the rule a specific glyph pair rule (both glyphs, or `enum`)? -/
def isGlyphPair : Rule → Bool
  | .ppos true _ _ _ => true
  | .ppos false (.g _) (.g _) _ => true
  | _ => false

def pposOf (wantGlyphPair : Bool) (r : Rule) (g1 g2 : Glyph) : Option Value :=
  match r with
  | .ppos _ a b v => if isGlyphPair r == wantGlyphPair && a.has g1 && b.has g2 then some v else none
  | _ => none

/-- pair positioning: specific glyph pairs before class pairs, the first matching rule of each;
    the second glyph stays the next position to be visited -/
def pposStep (ign : Glyph → Bool) (rules : List Rule) : PStep := fun _ x suf =>
  match nextUnignored ign suf with
  | none => none
  | some (sk, y, rest) =>
    let v := (rules.findSome? (pposOf true · x.1 y.1)).orElse fun _ => rules.findSome? (pposOf false · x.1 y.1)
    v.map fun v => ((x.1, x.2.add v) :: sk, y :: rest)

def posStep (gdef : List (Glyph × Nat)) (l : Lookup) : PStep :=
  if l.kind == .ppos then pposStep (ignored gdef l.flag) l.rules else sposStep l.rules

def ppass (ign : Glyph → Bool) (st : PStep) (rev : List PGlyph) (suf : List PGlyph) : List PGlyph :=
  match suf with
  | [] => rev.reverse
  | x :: suf' =>
    if ign x.1 then ppass ign st (x :: rev) suf'
    else
      match st rev x suf' with
      | none => ppass ign st (x :: rev) suf'
      | some (out, rest) =>
        if rest.length < (x :: suf').length then ppass ign st (out.reverse ++ rev) rest
        else rev.reverse ++ out ++ rest
termination_by suf.length
decreasing_by all_goals simp_all <;> omega

def applyGpos (gdef : List (Glyph × Nat)) (l : Lookup) (s : List PGlyph) : List PGlyph :=
  ppass (ignored gdef l.flag) (posStep gdef l) [] s

/-! ### lookups of a program, in declaration order, and where they are registered -/

/-- flag of a lookup block: the last `lookupflag` before its first rule, else the flag in force -/
def blockFlag (f : Flag) : List BStmt → Flag
  | [] => f
  | .flag f' :: rest => blockFlag f' rest
  | .rule _ :: _ => f

/-- flag in force after the block (fea-rs keeps it within a feature) -/
def blockFlagAfter (f : Flag) : List BStmt → Flag
  | [] => f
  | .flag f' :: rest => blockFlagAfter f' rest
  | .rule _ :: rest => blockFlagAfter f rest

def blockRules : List BStmt → List Rule
  | [] => []
  | .flag _ :: rest => blockRules rest
  | .rule r :: rest => r :: blockRules rest

/-- position within a feature block with respect to `script` / `language` statements -/
inductive Reg where
  | root
  | script (s : Tag)
  | lang (s l : Tag)
  deriving DecidableEq, Repr, Inhabited

/-- something that takes part in a feature: a lookup defined here, or a reference to a named one -/
inductive Item where
  | defn (l : Lookup)
  | ref (n : String)
  deriving Repr, Inhabited

structure Walk where
  reg : Reg := .root
  flag : Flag := {}
  /-- the run of rules being collected: where it started, its flag, its rules -/
  cur : Option (Reg × Flag × List Rule) := none
  out : List (Reg × Item) := []
  deriving Repr, Inhabited

def Walk.flush (w : Walk) : Walk :=
  match w.cur with
  | none => w
  | some (reg, f, rules) => { w with cur := none, out := w.out ++ [(reg, .defn ⟨none, f, rules⟩)] }

/-- consecutive rules of one type under one flag form a lookup; `script`, `language` and lookup blocks
    end the run, a lookup reference or a `lookupflag` restating the flag does not -/
def walkStmt (w : Walk) : Stmt → Walk
  | .script s =>
    let w := w.flush
    { w with reg := .script s, flag := {} }
  | .language l _ =>
    let w := w.flush
    let s := match w.reg with | .root => "DFLT" | .script s => s | .lang s _ => s
    { w with reg := if l == "dflt" then .script s else .lang s l }
  | .flag f => { w with flag := f }
  | .rule r =>
    match w.cur with
    | some (reg, f, rules) =>
      if f = w.flag ∧ (rules.head?.map Rule.kind) = some r.kind then { w with cur := some (reg, f, rules ++ [r]) }
      else let w := w.flush; { w with cur := some (w.reg, w.flag, [r]) }
    | none => { w with cur := some (w.reg, w.flag, [r]) }
  | .lookup n body =>
    let w := w.flush
    { w with out := w.out ++ [(w.reg, .defn ⟨some n, blockFlag w.flag body, blockRules body⟩)],
             flag := blockFlagAfter w.flag body }
  | .ref n => { w with out := w.out ++ [(w.reg, .ref n)] }

def featureItems (body : List Stmt) : List (Reg × Item) :=
  ((body.foldl walkStmt {}).flush).out

/-- the `language` statements (with `exclude_dflt`) that follow within the same script segment -/
def laterLangs : List Stmt → List (Tag × Bool)
  | [] => []
  | .script _ :: _ => []
  | .language l ex :: rest => (l, ex) :: laterLangs rest
  | _ :: rest => laterLangs rest

/-- all `(script, language, exclude_dflt)` statements of a feature body -/
def langStmts : Option Tag → List Stmt → List (Tag × Tag × Bool)
  | _, [] => []
  | _, .script s :: rest => langStmts (some s) rest
  | cur, .language l ex :: rest => (cur.getD "DFLT", l, ex) :: langStmts cur rest
  | cur, _ :: rest => langStmts cur rest

def langsysStmt? : Top → Option (Tag × Tag)
  | .langsys s l => some (s, l)
  | _ => none

def langsysOf (tops : List Top) : List (Tag × Tag) :=
  let ls := tops.filterMap langsysStmt?
  if ls.isEmpty then [("DFLT", "dflt")] else ls

/-- Is something at position `reg` of a feature block registered for `(script, lang)`?
    * before any `script` statement: for every declared language system, except a language that the
      block later enters with `exclude_dflt`;
    * after `script S;`: for `S/dflt` and for every language of `S` that a later `language` statement
      of the block enters without `exclude_dflt`;
    * after `language L;`: for `S/L` only. -/
def registered (langsys : List (Tag × Tag)) (body : List Stmt) (reg : Reg) (script lang : Tag) : Bool :=
  let stmts := langStmts none body
  match reg with
  | .root => langsys.contains (script, lang) && !(stmts.any fun (s, l, ex) => s == script && l == lang && ex)
  | .script s =>
    s == script && (lang == "dflt" || stmts.any fun (s', l, ex) => s' == s && l == lang && !ex)
  | .lang s l => s == script && l == lang

/-- a lookup of the program together with the `(feature, script, language)` triples it acts for -/
structure Entry where
  lookup : Lookup
  regs : List (Tag × Tag × Tag)
  deriving DecidableEq, Repr, Inhabited

def allPairs (langsys : List (Tag × Tag)) (body : List Stmt) : List (Tag × Tag) :=
  (langsys ++ (langStmts none body).map fun (x : Tag × Tag × Bool) => (x.1, x.2.1)).eraseDups

def regsFor (langsys : List (Tag × Tag)) (tag : Tag) (body : List Stmt) (reg : Reg) : List (Tag × Tag × Tag) :=
  ((allPairs langsys body).filter fun (s, l) => registered langsys body reg s l).map fun (s, l) => (tag, s, l)

def addRegs (es : List Entry) (name : String) (regs : List (Tag × Tag × Tag)) : List Entry :=
  es.map fun e => if e.lookup.name == some name then { e with regs := e.regs ++ regs } else e

def addItems (langsys : List (Tag × Tag)) (tag : Tag) (body : List Stmt) : List Entry → List (Reg × Item) → List Entry
  | es, [] => es
  | es, (reg, .defn l) :: rest => addItems langsys tag body (es ++ [⟨l, regsFor langsys tag body reg⟩]) rest
  | es, (reg, .ref n) :: rest => addItems langsys tag body (addRegs es n (regsFor langsys tag body reg)) rest

def entriesOf (langsys : List (Tag × Tag)) : List Entry → List Top → List Entry
  | es, [] => es
  | es, .langsys .. :: rest => entriesOf langsys es rest
  | es, .lookup n body :: rest =>
    entriesOf langsys (es ++ [⟨⟨some n, blockFlag {} body, blockRules body⟩, []⟩]) rest
  | es, .feature tag body :: rest =>
    entriesOf langsys (addItems langsys tag body es (featureItems body)) rest

def entries (p : Program) : List Entry := entriesOf (langsysOf p.tops) [] p.tops

def envOf (es : List Entry) (n : String) : Option Lookup :=
  (es.find? fun e => e.lookup.name == some n).map (·.lookup)

def Entry.active (e : Entry) (script lang : Tag) (feats : List Tag) : Bool :=
  e.regs.any fun (f, s, l) => feats.contains f && s == script && l == lang

end Src

/-- **The feature-file semantics.**  Every lookup of the file, in declaration order, that one of the
    enabled features registers for `script`/`lang` is applied to the whole string: substitutions
    first, then positioning.  `alt` selects the alternate for `sub … from`. -/
def interp (p : Program) (script lang : Tag) (feats : List Tag) (alt : Nat) (s : List Glyph) : List PGlyph :=
  let es := Src.entries p
  let env := Src.envOf es
  let act := es.filter (·.active script lang feats)
  let glyphs := (act.filter (!·.lookup.isPos)).foldl (fun s e => Src.applyGsub p.gdef alt env e.lookup s) s
  (act.filter (·.lookup.isPos)).foldl (fun s e => Src.applyGpos p.gdef e.lookup s) (glyphs.map (·, Value.zero))

/-! ## 4. OpenType tables and their application -/

namespace OT

abbrev ClassDef := List (Glyph × Nat)

/-- `(backtrack, input after the first glyph, lookahead, sequence-lookup records)` of a rule of a
    format 1 / format 2 (chained) sequence context; for format 2 the entries are class numbers -/
structure SeqRule where
  back : List Nat
  input : List Nat
  look : List Nat
  recs : List (Nat × Nat)
  deriving DecidableEq, Repr, Inhabited

inductive Subtable where
  /-- SingleSubst (either format): covered glyph ↦ substitute, in coverage order -/
  | single (m : List (Glyph × Glyph))
  | multiple (m : List (Glyph × List Glyph))
  | alternate (m : List (Glyph × List Glyph))
  /-- covered first glyph ↦ ligature set: `(ligature glyph, remaining components)` in table order -/
  | ligature (m : List (Glyph × List (Glyph × List Glyph)))
  /-- (Chained)SequenceContext format 1: covered glyph ↦ rule set (`none` = null offset) -/
  | chain1 (m : List (Glyph × Option (List SeqRule)))
  /-- format 2: coverage, backtrack / input / lookahead class definitions, rule sets by class -/
  | chain2 (cov : List Glyph) (bdef idef ldef : ClassDef) (sets : List (Option (List SeqRule)))
  /-- format 3: coverage tables (backtrack nearest first) and records -/
  | chain3 (back input look : List (List Glyph)) (recs : List (Nat × Nat))
  /-- SinglePos (either format) -/
  | spos (m : List (Glyph × Value))
  /-- PairPos format 1: value formats, covered first glyph ↦ pair set -/
  | ppos1 (f1 f2 : Nat) (m : List (Glyph × List (Glyph × Value × Value)))
  /-- PairPos format 2 -/
  | ppos2 (f1 f2 : Nat) (cov : List Glyph) (cd1 cd2 : ClassDef) (rows : List (List (Value × Value)))
  | other
  deriving DecidableEq, Repr, Inhabited

structure Lookup where
  /-- GSUB: 1 single 2 multiple 3 alternate 4 ligature 5 context 6 chained context;
      GPOS: 1 single 2 pair 7 context 8 chained context -/
  ty : Nat
  /-- lookupFlag bits: 1 rightToLeft, 2 ignoreBaseGlyphs, 4 ignoreLigatures, 8 ignoreMarks,
      0x10 useMarkFilteringSet, 0xFF00 markAttachmentType -/
  flag : Nat
  markFilteringSet : Option Nat
  subtables : List Subtable
  deriving DecidableEq, Repr, Inhabited

structure LangSys where
  required : Nat   -- 0xFFFF = none
  features : List Nat
  deriving DecidableEq, Repr, Inhabited

structure Script where
  tag : Tag
  dflt : Option LangSys
  langs : List (Tag × LangSys)
  deriving DecidableEq, Repr, Inhabited

structure Table where
  lookups : List Lookup := []
  features : List (Tag × List Nat) := []
  scripts : List Script := []
  deriving DecidableEq, Repr, Inhabited

structure Gdef where
  classes : ClassDef := []
  attach : ClassDef := []
  sets : List (List Glyph) := []
  deriving DecidableEq, Repr, Inhabited

structure Tables where
  gsub : Table := {}
  gpos : Table := {}
  gdef : Gdef := {}
  deriving DecidableEq, Repr, Inhabited

def classOf (cd : ClassDef) (g : Glyph) : Nat := (cd.lookup g).getD 0

/-- OpenType lookup flag semantics -/
def ignored (gdef : Gdef) (flag : Nat) (mfs : Option Nat) (g : Glyph) : Bool :=
  match classOf gdef.classes g with
  | 1 => flag / 2 % 2 == 1
  | 2 => flag / 4 % 2 == 1
  | 3 =>
    flag / 8 % 2 == 1
    || (flag / 16 % 2 == 1 && match mfs with
        | some i => !((gdef.sets[i]?).getD []).contains g
        | none => false)
    || (flag / 256 != 0 && classOf gdef.attach g != flag / 256)
  | _ => false

def Lookup.ign (gdef : Gdef) (l : Lookup) : Glyph → Bool := ignored gdef l.flag l.markFilteringSet

/-- rule sets of format 1 / 2: first rule whose sequences match -/
def seqRuleMatch (ign : Glyph → Bool) (pb pi pl : Nat → Glyph → Bool) (first : Glyph → Bool) (r : SeqRule)
    (rev : List Glyph) (g : Glyph) (suf : List Glyph) : Option (List Nat) :=
  matchCtx ign (r.back.map pb) (first :: r.input.map pi) (r.look.map pl) rev g suf

/-- the matched positions and records of the first matching rule of a contextual subtable -/
def ctxSubtableMatch (ign : Glyph → Bool) (st : Subtable) (rev : List Glyph) (g : Glyph) (suf : List Glyph) :
    Option (List Nat × List (Nat × Nat)) :=
  match st with
  | .chain1 m =>
    match m.lookup g with
    | some (some rules) =>
      rules.findSome? fun r =>
        (seqRuleMatch ign (fun x y => x == y) (fun x y => x == y) (fun x y => x == y) (fun _ => true) r rev g suf).map (·, r.recs)
    | _ => none
  | .chain2 cov bdef idef ldef sets =>
    if cov.contains g then
      match sets[classOf idef g]? with
      | some (some rules) =>
        rules.findSome? fun r =>
          (seqRuleMatch ign (fun c y => classOf bdef y == c) (fun c y => classOf idef y == c)
            (fun c y => classOf ldef y == c) (fun _ => true) r rev g suf).map (·, r.recs)
      | _ => none
    else none
  | .chain3 back input look recs =>
    (matchCtx ign (back.map fun c y => c.contains y) (input.map fun c y => c.contains y)
      (look.map fun c y => c.contains y) rev g suf).map (·, recs)
  | _ => none

/-- a non-contextual substitution subtable at the current glyph -/
def simpleSubtableStep (ign : Glyph → Bool) (alt : Nat) (st : Subtable) : Step := fun _ g suf =>
  match st with
  | .single m => (m.lookup g).map fun x => ([x], suf)
  | .multiple m => (m.lookup g).map fun xs => (xs, suf)
  | .alternate m => ((m.lookup g).bind (·[alt]?)).map fun x => ([x], suf)
  | .ligature m =>
    match m.lookup g with
    | none => none
    | some ligs =>
      ligs.findSome? fun (lig, comps) =>
        (matchFwd ign (comps.map fun c y => c == y) suf 1).map fun ps => ligResult lig suf (0 :: ps)
  | _ => none

/-- A lookup at one position: the first subtable that applies.  Nested lookups of contextual
    subtables are looked up in `lookups`; `depth` bounds the nesting. -/
def lookupStep (gdef : Gdef) (alt : Nat) (lookups : List Lookup) : Nat → Lookup → Step
  | 0, l => fun rev g suf => l.subtables.findSome? fun st => simpleSubtableStep (l.ign gdef) alt st rev g suf
  | d + 1, l => fun rev g suf =>
    l.subtables.findSome? fun st =>
      match simpleSubtableStep (l.ign gdef) alt st rev g suf with
      | some r => some r
      | none =>
        (ctxSubtableMatch (l.ign gdef) st rev g suf).map fun (ps, recs) =>
          ctxResult (fun i => (lookups[i]?).map (lookupStep gdef alt lookups d)) rev g suf ps recs

def pass (ign : Glyph → Bool) (st : Step) (rev : List Glyph) (suf : List Glyph) : List Glyph :=
  match suf with
  | [] => rev.reverse
  | g :: suf' =>
    if ign g then pass ign st (g :: rev) suf'
    else
      match st rev g suf' with
      | none => pass ign st (g :: rev) suf'
      | some (out, rest) =>
        if rest.length < (g :: suf').length then pass ign st (out.reverse ++ rev) rest
        else rev.reverse ++ out ++ rest
termination_by suf.length
decreasing_by all_goals simp_all <;> omega

def nestingDepth : Nat := 6

def applyGsub (t : Tables) (alt : Nat) (l : Lookup) (s : List Glyph) : List Glyph :=
  pass (l.ign t.gdef) (lookupStep t.gdef alt t.gsub.lookups nestingDepth l) [] s

/-- positioning subtables -/
def posSubtableStep (ign : Glyph → Bool) (st : Subtable) : PStep := fun _ x suf =>
  match st with
  | .spos m => (m.lookup x.1).map fun v => ([(x.1, x.2.add v)], suf)
  | .ppos1 _ f2 m =>
    match m.lookup x.1, nextUnignored ign suf with
    | some set, some (sk, y, rest) =>
      (set.lookup y.1).map fun (v1, v2) =>
        if f2 = 0 then ((x.1, x.2.add v1) :: sk, (y.1, y.2.add v2) :: rest)
        else ((x.1, x.2.add v1) :: sk ++ [(y.1, y.2.add v2)], rest)
    | _, _ => none
  | .ppos2 _ f2 cov cd1 cd2 rows =>
    if cov.contains x.1 then
      match nextUnignored ign suf with
      | some (sk, y, rest) =>
        (((rows[classOf cd1 x.1]?).bind (·[classOf cd2 y.1]?))).map fun (v1, v2) =>
          if f2 = 0 then ((x.1, x.2.add v1) :: sk, (y.1, y.2.add v2) :: rest)
          else ((x.1, x.2.add v1) :: sk ++ [(y.1, y.2.add v2)], rest)
      | none => none
    else none
  | _ => none

def posLookupStep (gdef : Gdef) (l : Lookup) : PStep := fun rev x suf =>
  l.subtables.findSome? fun st => posSubtableStep (l.ign gdef) st rev x suf

def ppass (ign : Glyph → Bool) (st : PStep) (rev : List PGlyph) (suf : List PGlyph) : List PGlyph :=
  match suf with
  | [] => rev.reverse
  | x :: suf' =>
    if ign x.1 then ppass ign st (x :: rev) suf'
    else
      match st rev x suf' with
      | none => ppass ign st (x :: rev) suf'
      | some (out, rest) =>
        if rest.length < (x :: suf').length then ppass ign st (out.reverse ++ rev) rest
        else rev.reverse ++ out ++ rest
termination_by suf.length
decreasing_by all_goals simp_all <;> omega

def applyGpos (t : Tables) (l : Lookup) (s : List PGlyph) : List PGlyph :=
  ppass (l.ign t.gdef) (posLookupStep t.gdef l) [] s

/-- language system selection: exact script record; exact language record, else the default -/
def langSys (t : Table) (script lang : Tag) : Option LangSys :=
  match t.scripts.find? (fun (r : Script) => r.tag == script) with
  | none => none
  | some s =>
    if lang == "dflt" then s.dflt
    else match s.langs.lookup lang with
      | some l => some l
      | none => s.dflt

def insertSorted (x : Nat) : List Nat → List Nat
  | [] => [x]
  | y :: ys => if x < y then x :: y :: ys else if x = y then y :: ys else y :: insertSorted x ys

def sortDedup (xs : List Nat) : List Nat := xs.foldr insertSorted []

/-- lookup indices of the enabled features of the language system, ascending, without repeats -/
def activeLookups (t : Table) (script lang : Tag) (feats : List Tag) : List Nat :=
  match langSys t script lang with
  | none => []
  | some ls =>
    let fidx := (if ls.required = 0xFFFF then [] else [ls.required]) ++ ls.features
    sortDedup <| fidx.flatMap fun i =>
      match t.features[i]? with
      | some (tag, ls) => if feats.contains tag then ls else []
      | none => []

end OT

/-- apply the lookup with index `i` (an index outside the lookup list is skipped) -/
def OT.applyAtIdx {β L : Type} (lookups : List L) (apply : L → β → β) (s : β) (i : Nat) : β :=
  match lookups[i]? with
  | some l => apply l s
  | none => s

/-- **OpenType application.**  The lookups of the enabled features of the selected language system,
    in lookup-list order: GSUB, then GPOS. -/
def shape (t : OT.Tables) (script lang : Tag) (feats : List Tag) (alt : Nat) (s : List Glyph) : List PGlyph :=
  let glyphs := (OT.activeLookups t.gsub script lang feats).foldl
    (OT.applyAtIdx t.gsub.lookups (OT.applyGsub t alt)) s
  (OT.activeLookups t.gpos script lang feats).foldl
    (OT.applyAtIdx t.gpos.lookups (OT.applyGpos t)) (glyphs.map (·, Value.zero))


/-! ## 5. What fea-rs builds -/

namespace Cmp

/-- `BTreeMap<GlyphId16, β>` as an association list sorted by key; `insert` overwrites. -/
def mapInsert {β : Type} (k : Glyph) (v : β) : List (Glyph × β) → List (Glyph × β)
  | [] => [(k, v)]
  | (k', v') :: rest =>
    if k < k' then (k, v) :: (k', v') :: rest
    else if k = k' then (k, v) :: rest
    else (k', v') :: mapInsert k v rest

/-- `entry(k).or_insert(v)` -/
def mapInsertIfAbsent {β : Type} (k : Glyph) (v : β) (m : List (Glyph × β)) : List (Glyph × β) :=
  match m.lookup k with
  | some _ => m
  | none => mapInsert k v m

/-- `entry(k).or_default()` then modify -/
def mapUpdate {β : Type} (k : Glyph) (dflt : β) (f : β → β) (m : List (Glyph × β)) : List (Glyph × β) :=
  mapInsert k (f ((m.lookup k).getD dflt)) m

/-- `BTreeMap` with a general key: `entry(k).or_insert(init)` then modify.  An existing key is
    updated in place, a new key goes before the first larger one. -/
def insertBefore {κ β : Type} (lt : κ → κ → Bool) (k : κ) (v : β) : List (κ × β) → List (κ × β)
  | [] => [(k, v)]
  | (k', v') :: rest => if lt k k' then (k, v) :: (k', v') :: rest else (k', v') :: insertBefore lt k v rest

def upsert {κ β : Type} [BEq κ] (lt : κ → κ → Bool) (k : κ) (init : β) (f : β → β) (m : List (κ × β)) : List (κ × β) :=
  if m.any (·.1 == k) then m.map fun p => if p.1 == k then (p.1, f p.2) else p
  else insertBefore lt k (f init) m

inductive LookupId where
  | gpos (i : Nat)
  | gsub (i : Nat)
  | empty
  deriving DecidableEq, Repr, Inhabited

/-- compiled lookup flag: `LookupFlag` bits and the mark filtering set id -/
abbrev CFlag := Nat × Option Nat

/-- `LigatureSubBuilder`: first glyph ↦ `(remaining components, ligature)` in insertion order -/
abbrev LigMap := List (Glyph × List (List Glyph × Glyph))

/-- `LigatureSubBuilder::can_add` (lookups.rs:1319, gsub/builders.rs `can_add`) -/
def ligCanAdd (m : LigMap) (seq : List Glyph) (r : Glyph) : Bool :=
  match seq with
  | [] => false
  | first :: rest =>
    match m.lookup first with
    | some ligs => !(ligs.any fun (s, t) => s == rest && t != r)
    | none => true

/-- `LigatureSubBuilder::insert`: identical rules are not repeated -/
def ligInsert (m : LigMap) (seq : List Glyph) (r : Glyph) : LigMap :=
  match seq with
  | [] => m
  | first :: rest =>
    mapUpdate first [] (fun ligs => if ligs.any (fun (s, t) => s == rest && t == r) then ligs else ligs ++ [(rest, r)]) m

/-- anonymous lookups of a contextual lookup (`ContextualLookupBuilder::current_anon_lookups`) -/
inductive Anon where
  | single (m : List (Glyph × Glyph))
  | multiple (m : List (Glyph × List Glyph))
  | ligature (m : LigMap)
  deriving DecidableEq, Repr, Inhabited

/-- `ContextRule` (contextual.rs:294): backtrack nearest first -/
structure CRule where
  back : List GC
  input : List (GC × List LookupId)
  look : List GC
  deriving DecidableEq, Repr, Inhabited

/-- one class-pair subtable under construction (`ClassPairPosSubtable`) -/
structure ClassSub where
  /-- `(class1, class2, value)` in insertion order; a repeated class pair overwrites -/
  items : List (List Glyph × List Glyph × Value) := []
  cd1 : List (List Glyph) := []
  cd2 : List (List Glyph) := []
  deriving DecidableEq, Repr, Inhabited

inductive Builder where
  | single (m : List (Glyph × Glyph))
  | multiple (m : List (Glyph × List Glyph))
  | alternate (m : List (Glyph × List Glyph))
  | ligature (m : LigMap)
  | chain (rules : List CRule) (anon : List Anon)
  | spos (m : List (Glyph × Value))
  | ppos (pairs : List (Glyph × List (Glyph × Value))) (classes : List ClassSub)
  deriving DecidableEq, Repr, Inhabited

def Builder.kind : Builder → Kind
  | .single _ => .single
  | .multiple _ => .multiple
  | .alternate _ => .alternate
  | .ligature _ => .ligature
  | .chain .. => .chain
  | .spos _ => .spos
  | .ppos .. => .ppos

def Builder.new : Kind → Builder
  | .single => .single []
  | .multiple => .multiple []
  | .alternate => .alternate []
  | .ligature => .ligature []
  | .chain => .chain [] []
  | .spos => .spos []
  | .ppos => .ppos [] []

/-! ### building tables from builders (write-fonts builders) -/

/-- stable insertion sort, longer component lists first (gsub/builders.rs `LigatureSubBuilder::build`:
    `sort_by_key(Reverse(len))`); `sortLigs` inserts from the right, so an element goes before the
    elements of the same length that followed it -/
def insertLig (x : List Glyph × Glyph) : List (List Glyph × Glyph) → List (List Glyph × Glyph)
  | [] => [x]
  | y :: ys => if y.1.length ≤ x.1.length then x :: y :: ys else y :: insertLig x ys

def sortLigs (ligs : List (List Glyph × Glyph)) : List (List Glyph × Glyph) := ligs.foldr insertLig []

def buildLig (m : LigMap) : OT.Subtable :=
  .ligature (m.map fun (g, ligs) => (g, (sortLigs ligs).map fun (comps, lig) => (lig, comps)))

def sortedSet (xs : List Glyph) : List Glyph := OT.sortDedup xs

def buildAnon : Anon → OT.Subtable
  | .single m => .single m
  | .multiple m => .multiple m
  | .ligature m => buildLig m

def LookupId.gsubIdx : LookupId → Nat
  | .gsub i => i
  | _ => 0

def CRule.recs (r : CRule) : List (Nat × Nat) :=
  (r.input.zipIdx.flatMap fun ((_, ls), i) => ls.map fun l => (i, l.gsubIdx))

/-- contextual rules are written as format 3 subtables, one per rule (fea-rs picks the smallest of
    the possible formats; the choice does not change what the lookup does) -/
def buildCRule (r : CRule) : OT.Subtable :=
  .chain3 (r.back.map fun c => sortedSet c.glyphs) (r.input.map fun c => sortedSet c.1.glyphs)
    (r.look.map fun c => sortedSet c.glyphs) r.recs

/-- class ids as `ClassDefBuilder::build_with_mapping` assigns them: larger classes first, then by
    smallest glyph -/
def classBefore (a b : List Glyph) : Bool :=
  a.length > b.length || (a.length == b.length && a.headD 0 < b.headD 0)

def insertClass (x : List Glyph) : List (List Glyph) → List (List Glyph)
  | [] => [x]
  | y :: ys => if classBefore x y then x :: y :: ys else if x == y then y :: ys else y :: insertClass x ys

def sortClasses (cs : List (List Glyph)) : List (List Glyph) := cs.foldr insertClass []

def classId (sorted : List (List Glyph)) (base : Nat) (c : List Glyph) : Nat :=
  base + (sorted.idxOf c)

def classDefOf (sorted : List (List Glyph)) (base : Nat) : OT.ClassDef :=
  (sorted.zipIdx.flatMap fun (c, i) => c.map fun g => (g, base + i)).mergeSort (fun a b => a.1 ≤ b.1)
    |>.filter (·.2 != 0)

def buildClassSub (s : ClassSub) : OT.Subtable :=
  let c1 := sortClasses s.cd1
  let c2 := sortClasses s.cd2
  let rows := c1.map fun a =>
    (List.range (c2.length + 1)).map fun j =>
      match s.items.find? fun (x, y, _) => x == a && classId c2 1 y == j with
      | some (_, _, v) => (v, Value.zero)
      | none => (Value.zero, Value.zero)
  .ppos2 4 0 (sortedSet (s.cd1.flatMap id)) (classDefOf c1 0) (classDefOf c2 1) rows

def buildSubtables : Builder → List OT.Subtable
  | .single m => if m.isEmpty then [] else [.single m]
  | .multiple m => [.multiple m]
  | .alternate m => [.alternate m]
  | .ligature m => if m.isEmpty then [] else [buildLig m]
  | .chain rules _ => rules.map buildCRule
  | .spos m => if m.isEmpty then [] else [.spos m]
  | .ppos pairs classes =>
    (if pairs.isEmpty then [] else [.ppos1 4 0 (pairs.map fun (g, set) => (g, set.map fun (g2, v) => (g2, v, Value.zero)))])
    ++ classes.map buildClassSub

def gsubType : Kind → Nat
  | .single => 1 | .multiple => 2 | .alternate => 3 | .ligature => 4 | .chain => 6 | .spos => 1 | .ppos => 2

/-- a contextual lookup none of whose rules has backtrack or lookahead is written as type 5
    (`ChainOrNot::Context`, contextual.rs:93) -/
def lookupType : Builder → Nat
  | .chain rules _ => if rules.all fun r => r.back.isEmpty && r.look.isEmpty then 5 else 6
  | b => gsubType b.kind

def buildLookup (f : CFlag) (b : Builder) : OT.Lookup :=
  ⟨lookupType b, f.1, f.2, buildSubtables b⟩

def buildAnonLookup (f : CFlag) (a : Anon) : OT.Lookup :=
  ⟨match a with | .single _ => 1 | .multiple _ => 2 | .ligature _ => 4, f.1, f.2, [buildAnon a]⟩

/-! ### `ActiveFeature` (features.rs:341) -/

abbrev Sys := Tag × Tag   -- (script, language)

structure Active where
  tag : Tag
  defaults : List Sys
  curSys : Option Sys := none
  lookups : List (Sys × List LookupId) := []
  scriptDefault : List (Tag × List LookupId) := []
  deriving Repr, Inhabited

def assocGet {α β : Type} [BEq α] (k : α) (m : List (α × β)) : Option β := m.lookup k

def assocPush {α β : Type} [BEq α] (k : α) (v : β) (m : List (α × List β)) : List (α × List β) :=
  if m.any (·.1 == k) then m.map fun (k', vs) => if k' == k then (k', vs ++ [v]) else (k', vs)
  else m ++ [(k, [v])]

/-- `ActiveFeature::add_lookup` -/
def Active.addLookup (a : Active) (id : LookupId) : Active :=
  match a.curSys with
  | some (s, l) =>
    if l == "dflt" then { a with scriptDefault := assocPush s id a.scriptDefault }
    else { a with lookups := assocPush (s, l) id a.lookups }
  | none => { a with lookups := assocPush ("DFLT", "dflt") id a.lookups }

/-- `ActiveFeature::set_system` -/
def Active.setSystem (a : Active) (sys : Sys) (excludeDflt : Bool) : Active :=
  let a :=
    if sys.2 != "dflt" then
      let ls : List LookupId :=
        if excludeDflt then []
        else
          (if a.defaults.contains sys || (a.defaults.contains (sys.1, "dflt") && (a.scriptDefault.any (·.1 == sys.1)))
           then (assocGet ("DFLT", "dflt") a.lookups).getD [] else [])
          ++ (assocGet sys.1 a.scriptDefault).getD []
      if a.lookups.any (·.1 == sys) then a else { a with lookups := a.lookups ++ [(sys, ls)] }
    else a
  { a with curSys := some sys }

/-- the `(system, lookups)` pairs `ActiveFeature::add_to_features` appends to the feature map -/
def Active.finish (a : Active) : List (Sys × List LookupId) :=
  let defaults := (assocGet ("DFLT", "dflt") a.lookups).getD []
  let ls := a.lookups.filter (·.1 != ("DFLT", "dflt"))
  let ls := a.scriptDefault.foldl (fun ls (script, l) =>
    let sys : Sys := (script, "dflt")
    let l := if a.defaults.contains sys then defaults ++ l else l
    (ls.filter (·.1 != sys)) ++ [(sys, l)]) ls
  a.defaults.foldl (fun ls sys => if ls.any (·.1 == sys) then ls else ls ++ [(sys, defaults)]) ls

/-! ### the compilation context (compile_ctx.rs) -/

structure St where
  gsub : List OT.Lookup := []
  gpos : List OT.Lookup := []
  cur : Option (CFlag × Builder) := none
  curName : Option String := none
  named : List (String × LookupId) := []
  flag : CFlag := (0, none)
  attachIds : List (List Glyph) := []
  filterIds : List (List Glyph) := []
  langsys : List Sys := []
  active : Option Active := none
  script : Option Tag := none
  /-- `AllFeatures::features`: `(feature, language, script)` ↦ lookups -/
  features : List ((Tag × Tag × Tag) × List LookupId) := []
  deriving Repr, Inhabited

def St.defaultSystems (s : St) : List Sys := if s.langsys.isEmpty then [("DFLT", "dflt")] else s.langsys

/-- `AllLookups::push` (lookups.rs:513): a contextual lookup is followed by its anonymous lookups -/
def St.push (s : St) (f : CFlag) (b : Builder) : St × LookupId :=
  match b with
  | .chain _ anon =>
    let id := LookupId.gsub s.gsub.length
    ({ s with gsub := s.gsub ++ [buildLookup f b] ++ anon.map (buildAnonLookup f) }, id)
  | _ =>
    if b.kind.isPos then ({ s with gpos := s.gpos ++ [buildLookup f b] }, .gpos s.gpos.length)
    else ({ s with gsub := s.gsub ++ [buildLookup f b] }, .gsub s.gsub.length)

/-- `add_lookup_to_current_feature_if_present` -/
def St.addToFeature (s : St) (id : LookupId) : St :=
  match id, s.active with
  | .empty, _ => s
  | _, some a => { s with active := some (a.addLookup id) }
  | _, none => s

/-- `AllLookups::finish_current` (lookups.rs:731) -/
def St.finishCurrent (s : St) : St × Option LookupId :=
  match s.cur with
  | some (f, b) =>
    let (s, id) := { s with cur := none }.push f b
    match s.curName with
    | some n => ({ s with curName := none, named := (n, id) :: s.named }, some id)
    | none => (s, some id)
  | none =>
    match s.curName with
    | some n => ({ s with curName := none, named := (n, .empty) :: s.named }, some .empty)
    | none => (s, none)

def St.finishAndAdd (s : St) : St :=
  match s.finishCurrent with
  | (s, some id) => s.addToFeature id
  | (s, none) => s

def St.hasCurrentKind (s : St) (k : Kind) : Bool := (s.cur.map (·.2.kind)) == some k
def St.hasSameFlags (s : St) : Bool := (s.cur.map (·.1)) == some s.flag

/-- `ensure_current_lookup_type` with `AllLookups::start_lookup` -/
def St.ensure (s : St) (k : Kind) : St :=
  if s.hasCurrentKind k && s.hasSameFlags then s
  else
    let (s, finished) :=
      match s.cur with
      | some (f, b) => let (s, id) := { s with cur := none }.push f b; (s, some id)
      | none => (s, none)
    let s := { s with cur := some (s.flag, Builder.new k) }
    match finished with
    | some id => s.addToFeature id
    | none => s

/-- pairs of `zip(target.iter(), replacement.into_iter_for_target())` -/
def singlePairs (t r : GC) : List (Glyph × Glyph) :=
  match t, r with
  | .g a, .g b => [(a, b)]
  | .c as, .g b => as.map (·, b)
  | .c as, .c bs => as.zip bs
  | .g _, .c _ => []

/-- cartesian enumeration, first position outermost (`sequence_enumerator`) -/
def enumerate : List GC → List (List Glyph)
  | [] => [[]]
  | x :: rest => x.glyphs.flatMap fun g => (enumerate rest).map (g :: ·)

/-- `validate_single_sub_inputs`: a one-glyph replacement class counts as a glyph -/
def normSingle (t r : GC) : GC × GC :=
  match t, r with
  | .c as, .c [b] => (.c as, .g b)
  | _, _ => (t, r)

/-- Repairs of the defects found in the anonymous lookups of contextual rules.  All off (the
    default) is fea-rs as it is; the driver switches them on to attribute a failure to a defect. -/
structure Fixes where
  /-- check every target of a class → glyph inline substitution, not only the first -/
  anonSingle : Bool := false
  /-- put all sequences of an inline ligature rule into one anonymous lookup -/
  anonLig : Bool := false
  /-- never pool two ligature sequences of which one is a proper prefix of the other -/
  anonLigPrefix : Bool := false
  deriving DecidableEq, Repr, Inhabited

/-- `find_or_create_anon_lookup` (contextual.rs:131): the first usable anonymous lookup, else a new
    one at the end; the id counts from the root lookup -/
def findOrCreate (anon : List Anon) (usable : Anon → Bool) (fresh : Anon) : List Anon × Nat :=
  match anon.findIdx? usable with
  | some i => (anon, i)
  | none => (anon ++ [fresh], anon.length)

def modifyNth {α : Type} (f : α → α) : List α → Nat → List α
  | [], _ => []
  | x :: xs, 0 => f x :: xs
  | x :: xs, n + 1 => x :: modifyNth f xs n

/-- `add_anon_gsub_type_1` (contextual.rs:182).  The usability test zips the targets with
    `replacement.iter()`, which yields a *single* element for a glyph replacement: for
    `sub [a b]' by x` only `a` is checked, but all targets are inserted (overwriting). -/
def anonAddSingle (fx : Fixes) (anon : List Anon) (t r : GC) : List Anon × Nat :=
  let checked := if fx.anonSingle then singlePairs t r else t.glyphs.zip r.glyphs
  let (anon, i) := findOrCreate anon
    (fun a => match a with
      | .single m => checked.all fun (a, b) => match m.lookup a with | some x => x == b | none => true
      | _ => false)
    (.single [])
  (modifyNth (fun a => match a with
    | .single m => .single ((singlePairs t r).foldl (fun m (a, b) => mapInsert a b m) m)
    | a => a) anon i, i)

def anonAddMultiple (anon : List Anon) (t : Glyph) (r : List Glyph) : List Anon × Nat :=
  let (anon, i) := findOrCreate anon
    (fun a => match a with
      | .multiple m => (match m.lookup t with | some x => x == r | none => true)
      | _ => false)
    (.multiple [])
  (modifyNth (fun a => match a with | .multiple m => .multiple (mapInsert t r m) | a => a) anon i, i)

def isProperPrefix : List Glyph → List Glyph → Bool
  | [], _ :: _ => true
  | x :: xs, y :: ys => x == y && isProperPrefix xs ys
  | _, _ => false

/-- no sequence of the lookup is a proper prefix or a proper extension of `seq` -/
def ligPrefixFree (m : LigMap) (seq : List Glyph) : Bool :=
  match seq with
  | [] => true
  | first :: rest =>
    match m.lookup first with
    | some ligs => ligs.all fun (s, _) => !isProperPrefix s rest && !isProperPrefix rest s
    | none => true

def ligUsable (fx : Fixes) (m : LigMap) (seq : List Glyph) (r : Glyph) : Bool :=
  ligCanAdd m seq r && (!fx.anonLigPrefix || ligPrefixFree m seq)

def anonAddLigature (fx : Fixes) (anon : List Anon) (seq : List Glyph) (r : Glyph) : List Anon × Nat :=
  let (anon, i) := findOrCreate anon
    (fun a => match a with
      | .ligature m => ligUsable fx m seq r
      | _ => false)
    (.ligature [])
  (modifyNth (fun a => match a with | .ligature m => .ligature (ligInsert m seq r) | a => a) anon i, i)

/-- repaired variant: one anonymous lookup that can take all the sequences -/
def anonAddLigatures (fx : Fixes) (anon : List Anon) (seqs : List (List Glyph)) (r : Glyph) : List Anon × Nat :=
  let (anon, i) := findOrCreate anon
    (fun a => match a with
      | .ligature m => seqs.all fun seq => ligUsable fx m seq r
      | _ => false)
    (.ligature [])
  (modifyNth (fun a => match a with
    | .ligature m => .ligature (seqs.foldl (fun m seq => ligInsert m seq r) m)
    | a => a) anon i, i)

/-- `ContextRule::try_merge` + `ContextBuilder::add` -/
def addCRule (rules : List CRule) (r : CRule) : List CRule :=
  match rules.getLast? with
  | some last =>
    match last.input, r.input with
    | [(c1, l1)], [(c2, l2)] =>
      if last.back == r.back && last.look == r.look && l1 == l2 then
        rules.dropLast ++ [{ last with input := [(.c (c1.glyphs ++ c2.glyphs), l1)] }]
      else rules ++ [r]
    | _, _ => rules ++ [r]
  | none => rules ++ [r]

/-- the anonymous lookup of an inline rule (`add_contextual_sub`, compile_ctx.rs:803): its offset
    among the anonymous lookups is the one returned by the *last* insertion -/
def anonInline (fx : Fixes) (anon : List Anon) (input : List (GC × List String)) (inl : Inline) : List Anon × Option Nat :=
  match inl, input with
  | .none, _ => (anon, none)
  | .lig r, _ =>
    if fx.anonLig then
      let (anon, i) := anonAddLigatures fx anon (enumerate (input.map (·.1))) r
      (anon, some i)
    else
    (enumerate (input.map (·.1))).foldl (fun (anon, _) seq =>
      let (anon, i) := anonAddLigature fx anon seq r
      (anon, some i)) (anon, none)
  | .single by_, (t, _) :: _ =>
    let (t, by_) := normSingle t by_
    let (anon, i) := anonAddSingle fx anon t by_
    (anon, some i)
  | .multi rs, (t, _) :: _ =>
    t.glyphs.foldl (fun (anon, _) g =>
      let (anon, i) := anonAddMultiple anon g rs
      (anon, some i)) (anon, none)
  | _, [] => (anon, none)

/-- `ClassDefBuilder::can_add`: the class is present, or disjoint from all classes -/
def classCanAdd (cd : List (List Glyph)) (c : List Glyph) : Bool :=
  cd.contains c || c.all fun g => !(cd.any (·.contains g))

/-- `ClassPairPosBuilder::insert` -/
def classInsert (subs : List ClassSub) (c1 c2 : List Glyph) (v : Value) : List ClassSub :=
  let add (s : ClassSub) : ClassSub :=
    { items := (s.items.filter fun (a, b, _) => !(a == c1 && b == c2)) ++ [(c1, c2, v)],
      cd1 := if s.cd1.contains c1 then s.cd1 else s.cd1 ++ [c1],
      cd2 := if s.cd2.contains c2 then s.cd2 else s.cd2 ++ [c2] }
  match subs.getLast? with
  | some last =>
    if classCanAdd last.cd1 c1 && classCanAdd last.cd2 c2 then subs.dropLast ++ [add last]
    else subs ++ [add {}]
  | none => [add {}]

/-- What a rule adds to the current lookup once that lookup has the right type
    (`add_gsub_type_*`, `add_contextual_rule`, `add_gpos_type_*` in lookups.rs; the bodies of
    `add_single_sub` … `add_pair_pos` in compile_ctx.rs).  `root` is the index the lookup will get,
    `named` resolves lookup names. -/
def Builder.add (fx : Fixes) (root : Nat) (named : String → LookupId) (b : Builder) (r : Rule) : Builder :=
  match b, r with
  | .single m, .single t r =>
    let (t, r) := normSingle t r
    .single ((singlePairs t r).foldl (fun m (a, b) => mapInsert a b m) m)
  | .multiple m, .single t r =>
    let (t, r) := normSingle t r
    .multiple ((singlePairs t r).foldl (fun m (a, b) => mapInsert a [b] m) m)
  | .ligature m, .single t r =>
    let (t, r) := normSingle t r
    .ligature ((singlePairs t r).foldl (fun m (a, b) => if ligCanAdd m [a] b then ligInsert m [a] b else m) m)
  | .multiple m, .multiple t r => .multiple (mapInsert t r m)
  | .alternate m, .alternate t a => .alternate (mapInsert t a m)
  | .ligature m, .ligature ts r =>
    .ligature ((enumerate ts).foldl (fun m seq => if ligCanAdd m seq r then ligInsert m seq r else m) m)
  | .chain rules anon, .chain back input look inl =>
    let (anon, inlineIdx) := anonInline fx anon input inl
    let ctx : List (GC × List LookupId) := input.zipIdx.map fun ((gc, refs), i) =>
      (gc, (if i == 0 then (inlineIdx.map fun j => LookupId.gsub (root + j + 1)).toList else []) ++ refs.map named)
    .chain (addCRule rules ⟨back.reverse, ctx, look⟩) anon
  | .chain rules anon, .ignore alts =>
    .chain (alts.foldl (fun rules (b, i, l) => addCRule rules ⟨b.reverse, i.map (·, []), l⟩) rules) anon
  | .spos m, .spos t v => .spos (t.glyphs.foldl (fun m g => mapInsert g v m) m)
  | .ppos pairs classes, .ppos enum a b v =>
    if (a.isClass || b.isClass) && !enum then
      .ppos pairs (classInsert classes (sortedSet a.glyphs) (sortedSet b.glyphs) v)
    else
      .ppos (a.glyphs.foldl (fun pairs g1 =>
        b.glyphs.foldl (fun pairs g2 => mapUpdate g1 [] (mapInsertIfAbsent g2 v) pairs) pairs) pairs) classes
  | b, _ => b

def St.setBuilder (s : St) (b : Builder) : St :=
  match s.cur with
  | some (f, _) => { s with cur := some (f, b) }
  | none => s

/-- `promote_single_sub_to_multi_if_necessary` -/
def St.promoteToMulti (s : St) : St :=
  match s.cur with
  | some (_, .single m) => s.setBuilder (.multiple (m.map fun (a, b) => (a, [b])))
  | _ => s

/-- `promote_single_sub_to_liga_if_necessary` -/
def St.promoteToLiga (s : St) : St :=
  match s.cur with
  | some (_, .single m) => s.setBuilder (.ligature (m.map fun (a, b) => (a, [([], b)])))
  | _ => s

/-- Which lookup a rule goes to: `add_single_sub` keeps a current multiple / ligature lookup with
    the same flags; the first multiple / ligature rule promotes a current single lookup
    (`sub a by NULL;` goes straight to `ensure_current_lookup_type(GsubType2)`); everything else is
    `ensure_current_lookup_type`. -/
def St.prepare (s : St) : Rule → St
  | .single .. =>
    if (s.hasCurrentKind .multiple || s.hasCurrentKind .ligature) && s.hasSameFlags then s else s.ensure .single
  | .multiple _ r => (if s.hasSameFlags && !r.isEmpty then s.promoteToMulti else s).ensure .multiple
  | .ligature .. => (if s.hasSameFlags then s.promoteToLiga else s).ensure .ligature
  | .alternate .. => s.ensure .alternate
  | .chain .. => s.ensure .chain
  | .ignore .. => s.ensure .chain
  | .spos .. => s.ensure .spos
  | .ppos .. => s.ensure .ppos

def St.namedId (s : St) (n : String) : LookupId := (s.named.lookup n).getD .empty

def St.addRule (fx : Fixes) (s : St) (r : Rule) : St :=
  let s := s.prepare r
  match s.cur with
  | some (_, b) => s.setBuilder (b.add fx s.gsub.length s.namedId r)
  | none => s

/-- `set_lookup_flag` with `resolve_mark_attach_class` / `resolve_mark_filter_set` -/
def St.setLookupFlag (s : St) (f : Flag) : St :=
  let bits := (if f.rtl then 1 else 0) + (if f.ib then 2 else 0) + (if f.il then 4 else 0) + (if f.im then 8 else 0)
  let (s, bits) :=
    match f.attach with
    | some c =>
      let c := sortedSet c
      match s.attachIds.idxOf? c with
      | some i => (s, bits + 256 * (i + 1))
      | none => ({ s with attachIds := s.attachIds ++ [c] }, bits + 256 * (s.attachIds.length + 1))
    | none => (s, bits)
  match f.filter with
  | some c =>
    let c := sortedSet c
    match s.filterIds.idxOf? c with
    | some i => { s with flag := (bits + 16, some i) }
    | none => { s with filterIds := s.filterIds ++ [c], flag := (bits + 16, some s.filterIds.length) }
  | none => { s with flag := (bits, none) }

def St.clearFlags (s : St) : St := { s with flag := (0, none) }

def St.blockStmt (fx : Fixes) (s : St) : BStmt → St
  | .flag f => s.setLookupFlag f
  | .rule r => s.addRule fx r

/-- `resolve_lookup_block` = `start_lookup_block`, the statements, `end_lookup_block` -/
def St.lookupBlock (fx : Fixes) (s : St) (name : String) (body : List BStmt) : St :=
  let s := s.finishAndAdd
  let s := if s.active.isNone then s.clearFlags else s
  let s := { s with curName := some name }
  let s := body.foldl (St.blockStmt fx) s
  let (s, id) := s.finishCurrent
  if s.active.isSome then (match id with | some id => s.addToFeature id | none => s) else s.clearFlags

/-- `set_script_language` -/
def St.setScriptLanguage (s : St) (sys : Sys) (excl : Bool) : St :=
  let s := s.finishAndAdd
  { s with active := s.active.map (·.setSystem sys excl) }

def St.stmt (fx : Fixes) (s : St) : Stmt → St
  | .script t =>
    if (s.active.bind (·.curSys)) == some (t, "dflt") then s
    else ({ s with script := some t }.clearFlags).setScriptLanguage (t, "dflt") false
  | .language l excl => s.setScriptLanguage (s.script.getD "DFLT", l) excl
  | .flag f => s.setLookupFlag f
  | .rule r => s.addRule fx r
  | .lookup n body => s.lookupBlock fx n body
  | .ref n => s.addToFeature (s.namedId n)

def padTag (t : Tag) : String := t ++ String.ofList (List.replicate (4 - t.length) ' ')
def tagLt (a b : Tag) : Bool := padTag a < padTag b

/-- `FeatureKey` order: feature, language, script -/
def keyLt (a b : Tag × Tag × Tag) : Bool :=
  tagLt a.1 b.1 || (a.1 == b.1 && (tagLt a.2.1 b.2.1 || (a.2.1 == b.2.1 && tagLt a.2.2 b.2.2)))

def featInsert (k : Tag × Tag × Tag) (ls : List LookupId)
    (m : List ((Tag × Tag × Tag) × List LookupId)) : List ((Tag × Tag × Tag) × List LookupId) :=
  upsert keyLt k [] (· ++ ls) m

/-- `add_feature`: `start_feature`, the statements, `end_feature` -/
def St.feature (fx : Fixes) (s : St) (tag : Tag) (body : List Stmt) : St :=
  let s := { s with active := some { tag := tag, defaults := s.defaultSystems } }.clearFlags
  let s := body.foldl (St.stmt fx) s
  let s := s.finishAndAdd
  let s := match s.active with
    | some a =>
      { s with features := a.finish.foldl (fun fs ((script, lang), ls) => featInsert (a.tag, lang, script) ls fs) s.features }
    | none => s
  { s with active := none, script := none }.clearFlags

def St.top (fx : Fixes) (s : St) : Top → St
  | .langsys sc l => { s with langsys := if s.langsys.contains (sc, l) then s.langsys else s.langsys ++ [(sc, l)] }
  | .lookup n body => s.lookupBlock fx n body
  | .feature tag body => s.feature fx tag body

/-! ### `AllLookups::build` / `PosSubBuilder` (lookups.rs:972, 1359) -/

def lookupIdxs (isPos : Bool) (ls : List LookupId) : List Nat :=
  OT.sortDedup (ls.filterMap fun
    | .gpos i => if isPos then some i else none
    | .gsub i => if isPos then none else some i
    | .empty => none)

structure PSB where
  features : List (Tag × List Nat) := []
  scripts : List (Tag × List (Tag × List Nat)) := []

def scriptInsert (script lang : Tag) (fi : Nat) (m : List (Tag × List (Tag × List Nat))) : List (Tag × List (Tag × List Nat)) :=
  upsert tagLt script [] (upsert tagLt lang [] (· ++ [fi])) m

def PSB.add (b : PSB) (key : Tag × Tag × Tag) (ls : List Nat) : PSB :=
  let fk := (key.1, ls)
  let (features, fi) :=
    match b.features.idxOf? fk with
    | some i => (b.features, i)
    | none => (b.features ++ [fk], b.features.length)
  { features := features, scripts := scriptInsert key.2.2 key.2.1 fi b.scripts }

def buildTable (lookups : List OT.Lookup) (isPos : Bool) (features : List ((Tag × Tag × Tag) × List LookupId)) : OT.Table :=
  let b := features.foldl (fun b (key, ls) =>
    let idxs := lookupIdxs isPos ls
    if idxs.isEmpty then b else b.add key idxs) ({} : PSB)
  { lookups := lookups,
    features := b.features,
    scripts := b.scripts.map fun (s, langs) =>
      { tag := s,
        dflt := (langs.lookup "dflt").map fun fs => ⟨0xFFFF, fs⟩,
        langs := (langs.filter (·.1 != "dflt")).map fun (l, fs) => (l, ⟨0xFFFF, fs⟩) } }

def buildGdef (p : Program) (s : St) : OT.Gdef :=
  { classes := (p.gdef.filter (·.2 != 0)).mergeSort (fun a b => a.1 ≤ b.1),
    attach := (s.attachIds.zipIdx.flatMap fun (c, i) => c.map (·, i + 1)).mergeSort (fun a b => a.1 ≤ b.1),
    sets := s.filterIds }

end Cmp

/-- the compiler with some of the defects repaired -/
def compileWith (fx : Cmp.Fixes) (p : Program) : OT.Tables :=
  let s := p.tops.foldl (Cmp.St.top fx) {}
  { gsub := Cmp.buildTable s.gsub false s.features,
    gpos := Cmp.buildTable s.gpos true s.features,
    gdef := Cmp.buildGdef p s }

/-! ## 6. The modelled subset

  `Wf.violations p` lists (as stable words) every way in which `p` leaves the subset of the
  feature-file language for which `compile_correct` is stated.  The words fall in three groups:
  * constructs the real compiler rejects or that have no agreed meaning (`dup-target`, `dup-ligature`,
    `bad-single-shape`, `mixed-kinds`, `pair-order`, …);
  * constructs where fea-rs (like fontTools) deliberately builds something else than a rule-by-rule
    reading gives (`mixed-run`: runs of single and multiple/ligature rules outside lookup blocks are
    merged into one lookup; `pair-classes-overlap`: automatic subtable breaks);
  * the three defects of the anonymous lookups (`anon-single-clobber`, `anon-lig-split`,
    `anon-lig-prefix`): programs that are perfectly meaningful and are compiled wrongly. -/

namespace Wf

def distinct : List (List Glyph) → Bool
  | [] => true
  | x :: xs => !xs.contains x && distinct xs

def strictlySorted : List Glyph → Bool
  | a :: b :: rest => a < b && strictlySorted (b :: rest)
  | _ => true

def gcOk (x : GC) : Bool := !x.glyphs.isEmpty

def ruleGCs : Rule → List GC
  | .single t r => [t, r]
  | .multiple .. => []
  | .alternate .. => []
  | .ligature ts _ => ts
  | .chain b i l inl => b ++ i.map (·.1) ++ l ++ (match inl with | .single x => [x] | _ => [])
  | .ignore alts => alts.flatMap fun (b, i, l) => b ++ i ++ l
  | .spos t _ => [t]
  | .ppos _ a b _ => [a, b]

def singleShapeOk : Rule → Bool
  | .single (.g _) (.c _) => false
  | .single (.c ts) (.c xs) => xs.length == 1 || xs.length == ts.length
  | _ => true

/-- targets of the rules of a single / multiple / alternate / single-positioning lookup -/
def targets : Rule → List Glyph
  | .single t _ => t.glyphs
  | .multiple t _ => [t]
  | .alternate t _ => [t]
  | .spos t _ => t.glyphs
  | _ => []

/-- component sequences of the rules of a ligature lookup -/
def ligSeqs : Rule → List (List Glyph)
  | .ligature ts _ => Cmp.enumerate ts
  | .single t _ => t.glyphs.map ([·])
  | _ => []

def kindsOk (ks : List Kind) : Bool :=
  match ks.eraseDups with
  | [_] => true
  | [a, b] => (a == .single && (b == .multiple || b == .ligature)) || (b == .single && (a == .multiple || a == .ligature))
  | _ => false

def setEqOrDisjoint (a b : List Glyph) : Bool :=
  Cmp.sortedSet a == Cmp.sortedSet b || a.all fun g => !b.contains g

def pairwise {α : Type} (f : α → α → Bool) : List α → Bool
  | [] => true
  | x :: xs => xs.all (f x) && pairwise f xs

/-- inline replacements of the contextual rules of one lookup, in order -/
def inlineSingles (rules : List Rule) : List (Bool × List (Glyph × Glyph)) :=
  rules.filterMap fun
    | .chain _ ((t, _) :: _) _ (.single by_) =>
      let (t, by_) := Cmp.normSingle t by_
      some (t.isClass && !by_.isClass, Cmp.singlePairs t by_)
    | _ => none

def inlineLigs (rules : List Rule) : List (List Glyph × Glyph) :=
  rules.flatMap fun
    | .chain _ input _ (.lig r) => (Cmp.enumerate (input.map (·.1))).map (·, r)
    | _ => []

/-- a class → glyph inline substitution must agree with every earlier inline substitution of the
    lookup on the glyphs they share (only its first glyph is checked by fea-rs) -/
def anonSingleOk : List (Bool × List (Glyph × Glyph)) → List (Glyph × Glyph) → Bool
  | [], _ => true
  | (classToGlyph, pairs) :: rest, earlier =>
    (!classToGlyph || pairs.all fun (a, b) => earlier.all fun (a', b') => a != a' || b == b')
    && anonSingleOk rest (earlier ++ pairs)

def lookupViolations (known : String → Option Src.Lookup) (l : Src.Lookup) : List String :=
  let rules := l.rules
  let kinds := rules.map Rule.kind
  let fam := l.kind
  (if rules.isEmpty then ["empty-lookup"] else []) ++
  (if kindsOk kinds then [] else ["mixed-kinds"]) ++
  (if kinds.contains .single && rules.any (fun | .multiple _ [] => true | _ => false) then ["delete-after-single"] else []) ++
  (if rules.all singleShapeOk then [] else ["bad-single-shape"]) ++
  (if (rules.flatMap ruleGCs).all gcOk then [] else ["empty-class"]) ++
  (if l.isLig then
     (if distinct (rules.flatMap ligSeqs) then [] else ["dup-ligature"]) ++
     (if rules.all (fun | .ligature ts _ => ts.length ≥ 2 | _ => true) then [] else ["short-ligature"])
   else if fam == .ppos then
     let cls := rules.filter (!Src.isGlyphPair ·)
     (if rules.zipIdx.all (fun (r, i) => !Src.isGlyphPair r || (rules.take i).all Src.isGlyphPair) then [] else ["pair-order"]) ++
     (if pairwise setEqOrDisjoint (cls.filterMap fun | .ppos _ a _ _ => some a.glyphs | _ => none)
        && pairwise setEqOrDisjoint (cls.filterMap fun | .ppos _ _ b _ => some b.glyphs | _ => none) then [] else ["pair-classes-overlap"]) ++
     (if distinct (cls.filterMap fun | .ppos _ a b _ => some (Cmp.sortedSet a.glyphs ++ [0] ++ Cmp.sortedSet b.glyphs) | _ => none) then [] else ["dup-class-pair"])
   else if fam == .chain then
     (if (rules.flatMap Src.ctxRules).all (!·.input.isEmpty) then [] else ["chain-empty-input"]) ++
     (if rules.all (fun
        | .chain _ input _ inl =>
          (match inl with
           | .none => true
           | .single by_ => input.length == 1 && (match input.head? with | some (t, _) => singleShapeOk (.single t by_) | none => false)
           | .lig _ => input.length ≥ 2
           | .multi _ => (match input with | [(.g _, _)] => true | _ => false))
          && (inl == .none || input.all (·.2.isEmpty))
        | _ => true) then [] else ["bad-inline"]) ++
     (if rules.all (fun
        | .chain _ input _ _ => input.all fun (_, refs) => refs.all fun n =>
            match known n with
            | some t => !t.isChain && !t.isPos
            | none => false
        | _ => true) then [] else ["nested-unknown"]) ++
     (if anonSingleOk (inlineSingles rules) [] then [] else ["anon-single-clobber"]) ++
     (let ligs := inlineLigs rules
      (if pairwise (fun (a : List Glyph × Glyph) b => a.1 != b.1 || a.2 == b.2) ligs then [] else ["anon-lig-split"]) ++
      (if pairwise (fun (a : List Glyph × Glyph) b => !Cmp.isProperPrefix a.1 b.1 && !Cmp.isProperPrefix b.1 a.1) ligs then [] else ["anon-lig-prefix"]))
   else
     (if distinct ((rules.flatMap targets).map ([·])) then [] else ["dup-target"]))

def flagsOf (tops : List Top) : List Flag :=
  let bf (b : List BStmt) : List Flag := b.filterMap fun | .flag f => some f | _ => none
  tops.flatMap fun
    | .lookup _ b => bf b
    | .feature _ b => b.flatMap fun
      | .flag f => [f]
      | .lookup _ b => bf b
      | _ => []
    | _ => []

def mixes (a b : Kind) : Bool :=
  (a == .single && (b == .multiple || b == .ligature)) || (b == .single && (a == .multiple || a == .ligature))

/-- a single rule next to a multiple / ligature rule in one run (same flag, nothing between them
    that ends a run) -/
def mixedRun : Flag → Option (Flag × Kind) → List Stmt → Bool
  | _, _, [] => false
  | _, _, .script _ :: rest => mixedRun {} none rest
  | f, _, .language .. :: rest => mixedRun f none rest
  | _, cur, .flag f :: rest => mixedRun f cur rest
  | f, _, .lookup _ body :: rest => mixedRun (Src.blockFlagAfter f body) none rest
  | f, cur, .ref _ :: rest => mixedRun f cur rest
  | f, cur, .rule r :: rest =>
    (match cur with
     | some (f', k) => f' == f && mixes k r.kind
     | none => false) || mixedRun f (some (f, r.kind)) rest

def blockFlagMid : Bool → Bool → List BStmt → Bool
  | _, _, [] => false
  | seenRule, _, .flag _ :: rest => blockFlagMid seenRule seenRule rest
  | _, flagAfterRule, .rule _ :: rest => flagAfterRule || blockFlagMid true false rest

def scriptLangViolations (langsys : List (Tag × Tag)) (body : List Stmt) : List String :=
  let scripts := body.filterMap fun | .script s => some s | _ => none
  let stmts := Src.langStmts none body
  (if distinct (scripts.map fun s => s.toList.map Char.toNat) then [] else ["script-twice"]) ++
  (if distinct (stmts.map fun (s, l, _) => (s ++ "/" ++ l).toList.map Char.toNat) then [] else ["language-twice"]) ++
  (if stmts.any (fun (_, l, _) => l == "dflt") then ["language-dflt"] else []) ++
  (if (body.takeWhile fun | .script _ => false | _ => true).any (fun | .language .. => true | _ => false) then ["language-before-script"] else []) ++
  (if scripts.all (fun s => langsys.contains (s, "dflt")) && stmts.all (fun (s, l, _) => langsys.contains (s, l)) then [] else ["langsys-missing"])

def specialTags : List Tag := ["aalt", "size", "vkrn", "vpal", "vhal", "valt"]

def violations (p : Program) : List String :=
  let es := Src.entries p
  let langsys := Src.langsysOf p.tops
  let names := p.tops.flatMap fun
    | .lookup n _ => [n]
    | .feature _ b => b.filterMap fun | .lookup n _ => some n | _ => none
    | _ => []
  let flags := flagsOf p.tops
  let attach := flags.filterMap (·.attach)
  let perLookup := es.zipIdx.flatMap fun (e, i) =>
    lookupViolations (fun n => ((es.take i).find? fun e' => e'.lookup.name == some n).map (·.lookup)) e.lookup
  let perFeature := p.tops.flatMap fun
    | .feature tag body =>
      (if mixedRun {} none body then ["mixed-run"] else []) ++ scriptLangViolations langsys body ++
      (if specialTags.contains tag then ["special-feature-tag"] else []) ++
      (if body.any (fun | .lookup _ b => blockFlagMid false false b | _ => false) then ["block-flag-mid"] else [])
    | .lookup _ b => if blockFlagMid false false b then ["block-flag-mid"] else []
    | _ => []
  let refsOk : Bool :=
    let rec go (defined : List String) : List Top → Bool
      | [] => true
      | .lookup n _ :: rest => go (n :: defined) rest
      | .langsys .. :: rest => go defined rest
      | .feature _ body :: rest =>
        let rec goBody (defined : List String) : List Stmt → Bool × List String
          | [] => (true, defined)
          | .ref n :: more => if defined.contains n then goBody defined more else (false, defined)
          | .lookup n _ :: more => goBody (n :: defined) more
          | _ :: more => goBody defined more
        let (ok, defined) := goBody defined body
        ok && go defined rest
    go [] p.tops
  (perLookup ++ perFeature ++
   (if distinct (names.map fun n => n.toList.map Char.toNat) then [] else ["dup-lookup-name"]) ++
   (if refsOk then [] else ["ref-undefined"]) ++
   (if distinct (p.gdef.map fun x => [x.1]) then [] else ["gdef-dup"]) ++
   (if pairwise setEqOrDisjoint attach then [] else ["attach-overlap"]) ++
   (if flags.all (fun f => (f.attach.map strictlySorted).getD true && (f.filter.map strictlySorted).getD true) then [] else ["flag-unsorted"]) ++
   (if (p.tops.dropWhile fun | .langsys .. => true | _ => false).any (fun | .langsys .. => true | _ => false) then ["langsys-late"] else [])).eraseDups

def ok (p : Program) : Bool := (violations p).isEmpty

/-- the violations that are defects of the compiler, not restrictions of the language -/
def anonWords : List String := ["anon-single-clobber", "anon-lig-split", "anon-lig-prefix"]

/-- inside the modelled subset except, possibly, for the defects of the anonymous lookups -/
def okUpToAnon (p : Program) : Bool := (violations p).all (anonWords.contains ·)

end Wf

/-- Does some feature register a lookup of the table (`isPos`: GPOS) for the language system?  A
    language system for which nothing is registered has no record in the table: a client then
    falls back to the script's default language system. -/
def Src.registersAny (p : Program) (isPos : Bool) (script lang : Tag) : Bool :=
  (Src.entries p).any fun e => e.lookup.isPos == isPos && e.regs.any fun (_, s, l) => s == script && l == lang

/-- all three repairs of the anonymous lookups (fix commits 97654e0, e254cf2, 60b5013 in /repo) -/
def Cmp.Fixes.all : Cmp.Fixes := { anonSingle := true, anonLig := true, anonLigPrefix := true }

/-- fea-rs before those repairs (kept for the refutation of the full statement on the old code) -/
def compileOld (p : Program) : OT.Tables := compileWith {} p

/-- **The compiler** (fea-rs as it is: with the three repairs). -/
def compile (p : Program) : OT.Tables := compileWith Cmp.Fixes.all p

end Fontc.FeaCompile
