/-
  Model of the byte-level feature-file lexer, fea-rs/src/parse/lexer.rs (+ lexer/lexeme.rs), as it is.

  The Rust lexer holds `input: &str`, `pos`, and three bits of state (`after_backslash`,
  `after_number_or_float`, `in_path`).  `next_token` bumps one byte, dispatches on it to a sub-lexer, and
  returns `Lexeme { len, kind }`.  Past the end of the input `nth` returns the sentinel `EOF = 0x0`, and
  `next_token` maps a first byte equal to the sentinel to `Kind::Eof` — *also when that byte is a real NUL
  inside the text* (lexer.rs:18, :87-:89).  This file mirrors exactly that; `nextTokenWith false` is the
  lexer with the proposed fix (fixes/C13-nul.patch: end of input is decided by position).

  Line numbers refer to lexer.rs at 61b7940 (before the fix).  Once the fix is in the tree,
  `nextTokenWith false` / `lexAllFixed` is the lexer of the tree; the driver accepts either and tags which matched.

  Core Lean only (linked into the native driver).
-/

namespace Fontc.FeaLex

set_option linter.unusedVariables false

abbrev Bytes := Array UInt8

/-- lexer.rs:18 `const EOF: u8 = 0x0;` -/
def EOF : UInt8 := 0

/-- lexer/lexeme.rs `enum Kind` (the keyword kinds are collapsed into `kw <RustVariantName>`, except
    `IncludeKw`, which drives the include-path state machine). -/
inductive Kind where
  | eof | ident | string | stringUnterminated | number | octal | hex | hexEmpty | float | numberSuffix
  | whitespace | comment
  | semi | colon | comma | backslash | hyphen | eq | lbrace | rbrace | lsquare | rsquare | lparen | rparen
  | langle | rangle | singleQuote
  | namedGlyphClass | cid
  | includeKw
  | kw (name : String)
  | path | dollar | plus | asterisk | slash
  deriving DecidableEq, Repr, Inhabited

/-- name of the Rust variant (`{:?}`) -/
def Kind.name : Kind → String
  | .eof => "Eof" | .ident => "Ident" | .string => "String" | .stringUnterminated => "StringUnterminated"
  | .number => "Number" | .octal => "Octal" | .hex => "Hex" | .hexEmpty => "HexEmpty" | .float => "Float"
  | .numberSuffix => "NumberSuffix" | .whitespace => "Whitespace" | .comment => "Comment"
  | .semi => "Semi" | .colon => "Colon" | .comma => "Comma" | .backslash => "Backslash" | .hyphen => "Hyphen"
  | .eq => "Eq" | .lbrace => "LBrace" | .rbrace => "RBrace" | .lsquare => "LSquare" | .rsquare => "RSquare"
  | .lparen => "LParen" | .rparen => "RParen" | .langle => "LAngle" | .rangle => "RAngle"
  | .singleQuote => "SingleQuote" | .namedGlyphClass => "NamedGlyphClass" | .cid => "Cid"
  | .includeKw => "IncludeKw" | .kw n => n | .path => "Path" | .dollar => "Dollar" | .plus => "Plus"
  | .asterisk => "Asterisk" | .slash => "Slash"

/-- lexeme.rs `Kind::is_trivia` -/
def Kind.isTrivia : Kind → Bool
  | .comment | .whitespace | .backslash => true
  | _ => false

/-- lexeme.rs `Kind::from_keyword` (the table, in source order) -/
def keywordTable : List (String × String) := [
  ("anchor", "AnchorKw"), ("anchorDef", "AnchorDefKw"), ("anon", "AnonKw"), ("anonymous", "AnonKw"),
  ("conditionset", "ConditionSetKw"), ("variation", "VariationKw"), ("by", "ByKw"),
  ("contourpoint", "ContourpointKw"), ("cursive", "CursiveKw"), ("device", "DeviceKw"), ("enum", "EnumKw"),
  ("enumerate", "EnumKw"), ("exclude_dflt", "ExcludeDfltKw"), ("excludeDFLT", "ExcludeDfltKw"),
  ("feature", "FeatureKw"), ("from", "FromKw"), ("ignore", "IgnoreKw"),
  ("IgnoreBaseGlyphs", "IgnoreBaseGlyphsKw"), ("IgnoreLigatures", "IgnoreLigaturesKw"),
  ("IgnoreMarks", "IgnoreMarksKw"), ("include", "IncludeKw"), ("include_dflt", "IncludeDfltKw"),
  ("includeDFLT", "IncludeDfltKw"), ("language", "LanguageKw"), ("languagesystem", "LanguagesystemKw"),
  ("lookup", "LookupKw"), ("lookupflag", "LookupflagKw"), ("mark", "MarkKw"),
  ("MarkAttachmentType", "MarkAttachmentTypeKw"), ("markClass", "MarkClassKw"), ("nameid", "NameIdKw"),
  ("NULL", "NullKw"), ("parameters", "ParametersKw"), ("pos", "PosKw"), ("position", "PosKw"),
  ("required", "RequiredKw"), ("reversesub", "RsubKw"), ("rsub", "RsubKw"), ("RightToLeft", "RightToLeftKw"),
  ("script", "ScriptKw"), ("substitute", "SubKw"), ("sub", "SubKw"), ("subtable", "SubtableKw"),
  ("table", "TableKw"), ("useExtension", "UseExtensionKw"), ("UseMarkFilteringSet", "UseMarkFilteringSetKw"),
  ("valueRecordDef", "ValueRecordDefKw"), ("HorizAxis.BaseScriptList", "HorizAxisBaseScriptListKw"),
  ("HorizAxis.BaseTagList", "HorizAxisBaseTagListKw"), ("HorizAxis.MinMax", "HorizAxisMinMaxKw"),
  ("VertAxis.BaseScriptList", "VertAxisBaseScriptListKw"), ("VertAxis.BaseTagList", "VertAxisBaseTagListKw"),
  ("VertAxis.MinMax", "VertAxisMinMaxKw"), ("Attach", "AttachKw"), ("GlyphClassDef", "GlyphClassDefKw"),
  ("LigatureCaretByDev", "LigatureCaretByDevKw"), ("LigatureCaretByIndex", "LigatureCaretByIndexKw"),
  ("LigatureCaretByPos", "LigatureCaretByPosKw"), ("MarkAttachClass", "MarkAttachClassKw"),
  ("FontRevision", "FontRevisionKw"), ("Ascender", "AscenderKw"), ("CaretOffset", "CaretOffsetKw"),
  ("Descender", "DescenderKw"), ("LineGap", "LineGapKw"), ("CapHeight", "CapHeightKw"),
  ("CodePageRange", "CodePageRangeKw"), ("Panose", "PanoseKw"), ("TypoAscender", "TypoAscenderKw"),
  ("TypoDescender", "TypoDescenderKw"), ("TypoLineGap", "TypoLineGapKw"), ("UnicodeRange", "UnicodeRangeKw"),
  ("Vendor", "VendorKw"), ("winAscent", "WinAscentKw"), ("winDescent", "WinDescentKw"), ("XHeight", "XHeightKw"),
  ("sizemenuname", "SizemenunameKw"), ("VertTypoAscender", "VertTypoAscenderKw"),
  ("VertTypoDescender", "VertTypoDescenderKw"), ("VertTypoLineGap", "VertTypoLineGapKw"),
  ("VertAdvanceY", "VertAdvanceYKw"), ("VertOriginY", "VertOriginYKw"),
  ("ElidedFallbackName", "ElidedFallbackNameKw"), ("ElidedFallbackNameID", "ElidedFallbackNameIDKw"),
  ("DesignAxis", "DesignAxisKw"), ("AxisValue", "AxisValueKw"), ("flag", "FlagKw"), ("location", "LocationKw"),
  ("ElidableAxisValueName", "ElidableAxisValueNameKw"),
  ("OlderSiblingFontAttribute", "OlderSiblingFontAttributeKw"), ("featureNames", "FeatureNamesKw"),
  ("name", "NameKw"), ("cvParameters", "CvParametersKw"), ("Character", "CharacterKw"),
  ("FeatUILabelNameID", "FeatUiLabelNameIdKw"), ("FeatUITooltipTextNameID", "FeatUiTooltipTextNameIdKw"),
  ("SampleTextNameID", "SampleTextNameIdKw"), ("ParamUILabelNameID", "ParamUiLabelNameIdKw")]

def keywordBytes : List (List UInt8 × String) := keywordTable.map fun (w, k) => (w.toUTF8.toList, k)

def fromKeyword (word : List UInt8) : Option Kind :=
  match keywordBytes.find? (fun e => e.1 == word) with
  | some (_, "IncludeKw") => some .includeKw
  | some (_, k) => some (.kw k)
  | none => none

/-- lexer.rs:33 `enum ExpectingPath` -/
inductive ExpectingPath where
  | ready | sawInclude | inPath
  deriving DecidableEq, Repr, Inhabited

/-- lexer.rs:47 `ExpectingPath::transition` -/
def ExpectingPath.transition : ExpectingPath → Kind → ExpectingPath
  | .ready, .includeKw => .sawInclude
  | .sawInclude, .lparen => .inPath
  | .sawInclude, .whitespace => .sawInclude
  | _, _ => .ready

/-- lexer.rs:20 `struct Lexer` (the input is passed separately) -/
structure LexState where
  pos : Nat := 0
  afterBackslash : Bool := false
  afterNumberOrFloat : Bool := false
  inPath : ExpectingPath := .ready
  deriving Repr, Inhabited

/-- lexer.rs:70 `Lexer::nth`: the byte at `pos + i`, or the sentinel past the end -/
def nth (inp : Bytes) (pos i : Nat) : UInt8 :=
  if h : pos + i < inp.size then inp[pos + i] else EOF

/-- lexer.rs:78 `Lexer::bump`: advance by one byte unless at the end -/
def bump (inp : Bytes) (pos : Nat) : Nat :=
  if pos < inp.size then pos + 1 else pos

theorem nth_eof_of_ge {inp : Bytes} {pos : Nat} (h : inp.size ≤ pos) : nth inp pos 0 = EOF := by
  unfold nth
  rw [dif_neg (by omega)]

/-- `while p(self.nth(0)) { self.bump(); }` — every loop of the lexer has this shape.  The loop is only a
    total function because its condition is false on the end-of-input sentinel (`hp`): past the end `bump`
    does not advance, so a condition that accepted the sentinel would spin forever.  The termination proof
    below is exactly that argument. -/
def eatWhile (p : UInt8 → Bool) (hp : p EOF = false) (inp : Bytes) (pos : Nat) : Nat :=
  if h : p (nth inp pos 0) = true then eatWhile p hp inp (bump inp pos) else pos
termination_by inp.size - pos
decreasing_by
  have hlt : pos < inp.size := by
    apply Classical.byContradiction
    intro hge
    rw [nth_eof_of_ge (by omega), hp] at h
    exact Bool.false_ne_true h
  simp only [bump, hlt, if_true]
  omega

-- byte classes (lexer.rs:283-:294 and the `u8::is_ascii_*` helpers)

/-- lexer.rs:292 `is_ascii_whitespace` -/
def isAsciiWhitespace (b : UInt8) : Bool := b == 0x20 || (0x9 ≤ b && b ≤ 0xD)

/-- lexer.rs:284 `is_special`: `' ( ) * + , -   ; < = > ? @   [ \ ]   {   }` -/
def isSpecial (b : UInt8) : Bool :=
  (39 ≤ b && b ≤ 45) || (59 ≤ b && b ≤ 64) || (91 ≤ b && b ≤ 93) || b == 123 || b == 125

def isDigit (b : UInt8) : Bool := 0x30 ≤ b && b ≤ 0x39
def isOctDigit (b : UInt8) : Bool := 0x30 ≤ b && b ≤ 0x37
def isHexDigit (b : UInt8) : Bool := isDigit b || (0x41 ≤ b && b ≤ 0x46) || (0x61 ≤ b && b ≤ 0x66)

/-- lexer.rs:136 `comment`: `while ![b'\n', b'\r', EOF].contains(&self.nth(0))` -/
def commentCont (b : UInt8) : Bool := !(b == 0x0A || b == 0x0D || b == EOF)
/-- lexer.rs:143 `string`: continue unless `"` or EOF -/
def stringCont (b : UInt8) : Bool := !(b == 0x22 || b == EOF)
/-- lexer.rs:232 `eat_ident`: stop on EOF, whitespace, or a special byte other than `-` -/
def identCont (b : UInt8) : Bool := !(b == EOF) && !isAsciiWhitespace b && (b == 0x2D || !isSpecial b)
/-- lexer.rs:258 `path`: `while !matches!(self.nth(0), EOF | b')')` -/
def pathCont (b : UInt8) : Bool := !(b == EOF || b == 0x29)

theorem isAsciiWhitespace_eof : isAsciiWhitespace EOF = false := by decide
theorem isDigit_eof : isDigit EOF = false := by decide
theorem isOctDigit_eof : isOctDigit EOF = false := by decide
theorem isHexDigit_eof : isHexDigit EOF = false := by decide
theorem commentCont_eof : commentCont EOF = false := by decide
theorem stringCont_eof : stringCont EOF = false := by decide
theorem identCont_eof : identCont EOF = false := by decide
theorem pathCont_eof : pathCont EOF = false := by decide

/-- lexer.rs:129 `whitespace` -/
def whitespace (inp : Bytes) (pos : Nat) : Kind × Nat :=
  (.whitespace, eatWhile isAsciiWhitespace isAsciiWhitespace_eof inp pos)

/-- lexer.rs:136 `comment` -/
def comment (inp : Bytes) (pos : Nat) : Kind × Nat :=
  (.comment, eatWhile commentCont commentCont_eof inp pos)

/-- lexer.rs:143 `string`: skip to the next `"` (consumed, `String`) or to EOF (`StringUnterminated`) -/
def string (inp : Bytes) (pos : Nat) : Kind × Nat :=
  let p := eatWhile stringCont stringCont_eof inp pos
  if nth inp p 0 == 0x22 then (.string, bump inp p) else (.stringUnterminated, p)

/-- lexer.rs:176 `number(leading_zero)`; `pos` is just after the first digit -/
def number (inp : Bytes) (pos : Nat) (leadingZero : Bool) : Kind × Nat :=
  if leadingZero && nth inp pos 0 != 0x2E then
    if nth inp pos 0 == 0x78 || nth inp pos 0 == 0x58 then
      let p := bump inp pos
      if isHexDigit (nth inp p 0) then (.hex, eatWhile isHexDigit isHexDigit_eof inp p) else (.hexEmpty, p)
    else if isDigit (nth inp pos 0) then (.octal, eatWhile isOctDigit isOctDigit_eof inp pos)
    else (.number, pos)
  else
    let p := eatWhile isDigit isDigit_eof inp pos
    if nth inp p 0 == 0x2E then (.float, eatWhile isDigit isDigit_eof inp (bump inp p)) else (.number, p)

/-- lexer.rs:158 `hyphen_or_minus` -/
def hyphenOrMinus (inp : Bytes) (pos : Nat) : Kind × Nat :=
  if nth inp pos 0 == 0x30 && (isDigit (nth inp pos 1) || nth inp pos 1 == 0x78 || nth inp pos 1 == 0x58) then
    (.hyphen, pos)
  else if isDigit (nth inp pos 0) then number inp pos false
  else (.hyphen, pos)

/-- lexer.rs:222 `cid` -/
def cid (inp : Bytes) (pos : Nat) : Kind × Nat := (.cid, eatWhile isDigit isDigit_eof inp pos)

/-- lexer.rs:232 `eat_ident` -/
def eatIdent (inp : Bytes) (pos : Nat) : Nat := eatWhile identCont identCont_eof inp pos

/-- lexer.rs:227 `glyph_class_name` -/
def glyphClassName (inp : Bytes) (pos : Nat) : Kind × Nat := (.namedGlyphClass, eatIdent inp pos)

/-- lexer.rs:246 `ident`; `pos` is just after the first byte -/
def ident (inp : Bytes) (pos : Nat) (afterBackslash : Bool) : Kind × Nat :=
  let startPos := pos - 1
  let p := eatIdent inp pos
  if afterBackslash then (.ident, p)
  else ((fromKeyword (inp.extract startPos p).toList).getD .ident, p)

/-- lexer.rs:258 `path` -/
def path (inp : Bytes) (pos : Nat) : Kind × Nat := (.path, eatWhile pathCont pathCont_eof inp pos)

/-- the one-byte tokens of `next_token` (lexer.rs:97-:116) -/
def punct (b : UInt8) : Option Kind :=
  if b == 0x3B then some .semi else if b == 0x3A then some .colon else if b == 0x2C then some .comma
  else if b == 0x5C then some .backslash else if b == 0x3D then some .eq
  else if b == 0x7B then some .lbrace else if b == 0x7D then some .rbrace
  else if b == 0x5B then some .lsquare else if b == 0x5D then some .rsquare
  else if b == 0x28 then some .lparen else if b == 0x29 then some .rparen
  else if b == 0x3C then some .langle else if b == 0x3E then some .rangle
  else if b == 0x27 then some .singleQuote else if b == 0x24 then some .dollar
  else if b == 0x2A then some .asterisk else if b == 0x2B then some .plus else if b == 0x2F then some .slash
  else none

/-- the `match first { … }` of `next_token` (lexer.rs:88-:119) below the `EOF` arm; `pos` is just after
    `first`.  The arms are tried in source order; the one-byte arms are mutually exclusive literals, so they
    are grouped in `punct`. -/
def dispatch (inp : Bytes) (st : LexState) (first : UInt8) (pos : Nat) : Kind × Nat :=
  if st.inPath == .inPath then path inp pos
  else if isAsciiWhitespace first then whitespace inp pos
  else if first == 0x23 then comment inp pos
  else if first == 0x22 then string inp pos
  else if isDigit first && st.afterBackslash then cid inp pos
  else if first == 0x30 then number inp pos true
  else if isDigit first then number inp pos false
  else if first == 0x40 then glyphClassName inp pos
  else if first == 0x2D then hyphenOrMinus inp pos
  else match punct first with
    | some k => (k, pos)
    | none =>
      if (first == 0x6E || first == 0x75 || first == 0x64) && st.afterNumberOrFloat then (.numberSuffix, pos)
      else ident inp pos st.afterBackslash

/-- lexer.rs:85 `Lexer::next_token`.  `eofOnNul = true` is the code as it is: the first byte is compared
    with the sentinel value, so a real NUL byte yields `Kind::Eof` (with `len = 1`).  `eofOnNul = false`
    is the proposed fix: only running off the end yields `Eof`; a NUL byte falls through to `ident`. -/
def nextTokenWith (eofOnNul : Bool) (inp : Bytes) (st : LexState) : Kind × LexState :=
  let atEnd := inp.size ≤ st.pos
  let first := nth inp st.pos 0        -- `self.bump().unwrap_or(EOF)`
  let pos := bump inp st.pos
  let (kind, pos') :=
    if atEnd || (eofOnNul && first == EOF) then (Kind.eof, pos)
    else dispatch inp st first pos
  (kind, { pos := pos'
           afterBackslash := kind == .backslash
           afterNumberOrFloat := kind == .number || kind == .float
           inPath := st.inPath.transition kind })

/-- the lexer of the unchanged tree -/
def nextToken (inp : Bytes) (st : LexState) : Kind × LexState := nextTokenWith true inp st

-- ------------------------------------------------------------------------------------------------
-- Progress: what makes "run the lexer to the end" a total function.

theorem bump_le (inp : Bytes) (pos : Nat) : pos ≤ bump inp pos := by
  unfold bump; split <;> omega

theorem bump_le_size {inp : Bytes} {pos : Nat} (h : pos ≤ inp.size) : bump inp pos ≤ inp.size := by
  unfold bump; split <;> omega

theorem eatWhile_ge (p : UInt8 → Bool) (hp : p EOF = false) (inp : Bytes) (pos : Nat) :
    pos ≤ eatWhile p hp inp pos := by
  fun_induction eatWhile p hp inp pos with
  | case1 pos _ ih => exact Nat.le_trans (bump_le inp pos) ih
  | case2 pos _ => exact Nat.le_refl _

theorem eatWhile_le_size (p : UInt8 → Bool) (hp : p EOF = false) (inp : Bytes) (pos : Nat)
    (hle : pos ≤ inp.size) : eatWhile p hp inp pos ≤ inp.size := by
  fun_induction eatWhile p hp inp pos with
  | case1 pos _ ih => exact ih (bump_le_size hle)
  | case2 pos _ => exact hle

theorem number_bounds (inp : Bytes) (pos : Nat) (lz : Bool) (hle : pos ≤ inp.size) :
    pos ≤ (number inp pos lz).2 ∧ (number inp pos lz).2 ≤ inp.size := by
  unfold number
  have b1 := bump_le inp pos
  have b2 := bump_le_size hle
  split
  · split
    · dsimp only
      split
      · exact ⟨Nat.le_trans b1 (eatWhile_ge _ _ _ _), eatWhile_le_size _ _ _ _ b2⟩
      · exact ⟨b1, b2⟩
    · split
      · exact ⟨eatWhile_ge _ _ _ _, eatWhile_le_size _ _ _ _ hle⟩
      · exact ⟨Nat.le_refl _, hle⟩
  · have e1 := eatWhile_ge isDigit isDigit_eof inp pos
    have e2 := eatWhile_le_size isDigit isDigit_eof inp pos hle
    simp only []
    split
    · exact ⟨Nat.le_trans e1 (Nat.le_trans (bump_le _ _) (eatWhile_ge _ _ _ _)),
        eatWhile_le_size _ _ _ _ (bump_le_size e2)⟩
    · exact ⟨e1, e2⟩

theorem dispatch_bounds (inp : Bytes) (st : LexState) (first : UInt8) (pos : Nat) (hle : pos ≤ inp.size) :
    pos ≤ (dispatch inp st first pos).2 ∧ (dispatch inp st first pos).2 ≤ inp.size := by
  have ew := fun p hp => eatWhile_ge p hp inp pos
  have el := fun p hp => eatWhile_le_size p hp inp pos hle
  unfold dispatch
  split; · exact ⟨ew _ _, el _ _⟩
  split; · exact ⟨ew _ _, el _ _⟩
  split; · exact ⟨ew _ _, el _ _⟩
  split
  · unfold string
    simp only []
    split
    · exact ⟨Nat.le_trans (ew _ _) (bump_le _ _), bump_le_size (el _ _)⟩
    · exact ⟨ew _ _, el _ _⟩
  split; · exact ⟨ew _ _, el _ _⟩
  split; · exact number_bounds inp pos true hle
  split; · exact number_bounds inp pos false hle
  split; · exact ⟨ew _ _, el _ _⟩
  split
  · unfold hyphenOrMinus
    split; · exact ⟨Nat.le_refl _, hle⟩
    split; · exact number_bounds inp pos false hle
    exact ⟨Nat.le_refl _, hle⟩
  split
  · exact ⟨Nat.le_refl _, hle⟩
  · split
    · exact ⟨Nat.le_refl _, hle⟩
    · unfold ident
      simp only []
      split <;> exact ⟨ew _ _, el _ _⟩

/-- `lex_terminates`, step form: every call of `next_token` stays inside the input, and every token other
    than `Eof` consumes at least one byte.  (For `Eof` the position moves by 0 at the real end and by 1 on a
    NUL byte.) -/
theorem nextTokenWith_progress (e : Bool) (inp : Bytes) (st : LexState) (hle : st.pos ≤ inp.size) :
    st.pos ≤ (nextTokenWith e inp st).2.pos ∧ (nextTokenWith e inp st).2.pos ≤ inp.size ∧
    ((nextTokenWith e inp st).1 ≠ .eof → st.pos < (nextTokenWith e inp st).2.pos) := by
  unfold nextTokenWith
  simp only []
  split
  · refine ⟨bump_le _ _, bump_le_size hle, ?_⟩
    intro h; exact absurd rfl h
  · rename_i hne
    have hlt : st.pos < inp.size := by
      simp only [Bool.or_eq_true, decide_eq_true_eq, not_or, Nat.not_le] at hne
      exact hne.1
    have hb : bump inp st.pos = st.pos + 1 := by simp [bump, hlt]
    have hd := dispatch_bounds inp st (nth inp st.pos 0) (bump inp st.pos) (bump_le_size hle)
    rw [hb] at hd ⊢
    refine ⟨by omega, hd.2, fun _ => by omega⟩

/-- Run the lexer until it reports `Eof` (what `lexer::iter_tokens` and every `while !parser.at_eof()` loop
    do); the result is the list of `(kind, len)` before the `Eof` lexeme.  Total because of
    `nextTokenWith_progress`. -/
def lexAllWith (e : Bool) (inp : Bytes) (st : LexState) : List (Kind × Nat) :=
  if hle : st.pos ≤ inp.size then
    let r := nextTokenWith e inp st
    if hk : r.1 = .eof then []
    else (r.1, r.2.pos - st.pos) :: lexAllWith e inp r.2
  else []
termination_by inp.size - st.pos
decreasing_by
  have h := nextTokenWith_progress e inp st hle
  have h3 : st.pos < (nextTokenWith e inp st).2.pos := h.2.2 hk
  have h2 : (nextTokenWith e inp st).2.pos ≤ inp.size := h.2.1
  omega

/-- tokens of the whole input, lexer of the unchanged tree -/
def lexAll (inp : Bytes) : List (Kind × Nat) := lexAllWith true inp {}

/-- tokens of the whole input, lexer with the proposed fix -/
def lexAllFixed (inp : Bytes) : List (Kind × Nat) := lexAllWith false inp {}

/-- the byte offsets at which tokens end -/
def boundaries : Nat → List (Kind × Nat) → List Nat
  | _, [] => []
  | start, (_, len) :: rest => (start + len) :: boundaries (start + len) rest

def totalLen (toks : List (Kind × Nat)) : Nat := (toks.map (·.2)).sum

end Fontc.FeaLex
