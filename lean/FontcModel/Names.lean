/-
  C18 — names referenced from other tables.

  Literal model of
    fontir/src/ir.rs                      `NameBuilder` (add / remove / apply_fallback / build: the fallback chain
                                          for name ids 1, 2, 3, 4, 5, 6, 16, 17; lines 829-1082)
    fontir/src/ir/static_metadata.rs      `NameKey::new`, `StaticMetadata::new` (name-id allocation after the largest
                                          existing id, string reuse, the id 2/17 exception, lines 403-464), `reverse_names` (513-522)
    fontbe/src/fvar.rs                    `generate_fvar`: `reusable_name_id` (lines 38-58)
    fontbe/src/stat.rs                    `make_stat` (lines 66-96)
    fontbe/src/features.rs:638-650 + fea-rs/src/compile/output.rs:90-113   FEA name-id shifting
    fontbe/src/name.rs:105-132            merge of FEA name records
  as of /repo 6370354 (the three C18 fixes applied); the code before the fixes is kept as `allocOld` / `reusableNameIdOld`.

  Strings are lists of Unicode code points (`Nat`), as in `FontcModel/Paths.lean`.
  A Rust `HashMap` is an insertion-ordered association list with unique keys; wherever the Rust code *iterates* a
  `HashMap` and the result could depend on the iteration order, that order is an explicit parameter
  (`order : List NameKey`, a permutation of the keys of `names`).
  Core Lean only: this file is linked into the native driver.
-/
import FontcModel.Basic

namespace Fontc.Names

abbrev Str := List Nat

/-- a string literal as code points -/
def lit (s : String) : Str := s.toList.map Char.toNat

/-! ## association lists (the model of `HashMap<K, V>` / `BTreeMap<K, V>` contents) -/

section Assoc
variable {α β : Type} [DecidableEq α]

/-- `map.get(k)` -/
def alookup (k : α) : List (α × β) → Option β
  | [] => none
  | (a, b) :: t => if a = k then some b else alookup k t

/-- `map.insert(k, v)`: replaces the value of an existing key in place, appends a new key -/
def ainsert (k : α) (v : β) : List (α × β) → List (α × β)
  | [] => [(k, v)]
  | (a, b) :: t => if a = k then (a, v) :: t else (a, b) :: ainsert k v t

/-- `map.remove(k)` -/
def aerase (k : α) : List (α × β) → List (α × β)
  | [] => []
  | (a, b) :: t => if a = k then aerase k t else (a, b) :: aerase k t

def akeys (l : List (α × β)) : List α := l.map (·.1)

end Assoc

/-! ## `NameKey` (static_metadata.rs:94-143) -/

structure NameKey where
  id : Nat
  platform : Nat
  encoding : Nat
  lang : Nat
  deriving DecidableEq, Repr, Inhabited

abbrev Table := List (NameKey × Str)

/-- `NameKey::encoding_for` (static_metadata.rs:132-138): 1 = Unicode BMP, 10 = full repertoire.
    (The Rust test is `< 0xFFFF`, so U+FFFF itself counts as non-BMP; modelled as written.) -/
def encodingFor (s : Str) : Nat := if s.all (fun c => c < 0xFFFF) then 1 else 10

/-- `NameKey::new` (static_metadata.rs:108-118): Windows platform, English (US) -/
def NameKey.new (id : Nat) (s : Str) : NameKey := ⟨id, 3, encodingFor s, 0x409⟩

/-- `NameId::SUBFAMILY_NAME` (2) or `NameId::TYPOGRAPHIC_SUBFAMILY_NAME` (17) -/
def isSub (id : Nat) : Bool := id == 2 || id == 17

/-! ## Name-id allocation: `StaticMetadata::new` (static_metadata.rs:403-457) -/

/-- a named instance as the allocation sees it; `atDefault` is `ni.location == default_instance_location`
    (after `subset_axes`, static_metadata.rs:396-398, 431) -/
structure Inst where
  name : Str
  ps : Option Str
  atDefault : Bool
  deriving DecidableEq, Repr, Inhabited

structure Input where
  /-- the `names` argument: output of the front end's `NameBuilder::build` -/
  names : Table
  /-- `ui_label_name()` of every variable (non-point) axis, in axis order -/
  labels : List Str
  insts : List Inst
  deriving Repr, Inhabited

/-- static_metadata.rs:395-401: named instances of a static font are dropped -/
def effInsts (x : Input) : List Inst := if x.labels.isEmpty then [] else x.insts

/-- allocation state: `reusable_names : HashMap<String, NameKey>` and `name_id_gen` -/
structure St where
  reusable : List (Str × NameKey)
  gen : Nat
  deriving Repr, Inhabited

/-- `register_if_new` (static_metadata.rs:418-423): `entry(name).or_insert_with(|| { gen += 1; NameKey::new(gen, name) })` -/
def register (st : St) (name : Str) : St :=
  match alookup name st.reusable with
  | some _ => st
  | none => { reusable := ainsert name (NameKey.new (st.gen + 1) name) st.reusable, gen := st.gen + 1 }

/-- static_metadata.rs:409-413: `names.iter().filter(id > 255).map((v, k)).collect::<HashMap<String, NameKey>>()`;
    the iteration order of `names` is `order` (a later key with the same string replaces an earlier one). -/
def initReusable (order : List NameKey) (names : Table) : List (Str × NameKey) :=
  order.foldl (fun r k =>
    match alookup k names with
    | some v => if 255 < k.id then ainsert v k r else r
    | none => r) []

/-- largest name id in `names`, at least 255 (static_metadata.rs:403-411 `name_id_gen`; also
    fontbe/src/features.rs:639-645 `max_existing_name_id`) -/
def maxId (t : Table) : Nat := t.foldl (fun m p => max m p.1.id) 255

/-- insertion into an ascending list / insertion sort (structural, so that closed instances evaluate in the kernel) -/
def insertAsc (a : Nat) : List Nat → List Nat
  | [] => [a]
  | b :: t => if a ≤ b then a :: b :: t else b :: insertAsc a t
def sortAsc (l : List Nat) : List Nat := l.foldr insertAsc []

/-- static_metadata.rs:436-440: `names.iter().filter(|(_, string)| *string == instance_name).map(|(key, _)| key.name_id).min()`
    — the smallest name id, over the hash iteration `order`, whose string is the instance name. -/
def smallestMatch (order : List NameKey) (names : Table) (s : Str) : Option Nat :=
  (sortAsc (order.filterMap fun k => if alookup k names = some s then some k.id else none)).head?

/-- static_metadata.rs:441-445: the default instance's subfamily name may reuse name id 2 or 17 -/
def reuseSubfamily (order : List NameKey) (names : Table) (ni : Inst) : Bool :=
  ni.atDefault &&
    match smallestMatch order names ni.name with
    | some id => isSub id
    | none => false

/-- body of the loop at static_metadata.rs:430-457 -/
def regInst (order : List NameKey) (names : Table) (st : St) (ni : Inst) : St :=
  let st := if reuseSubfamily order names ni then st else register st ni.name
  match ni.ps with
  | some p => register st p
  | none => st

/-- static_metadata.rs:403-457; allocation starts after the largest id the source already uses -/
def allocState (order : List NameKey) (x : Input) : St :=
  let st0 : St := ⟨initReusable order x.names, maxId x.names⟩
  let st1 := x.labels.foldl register st0
  (effInsts x).foldl (regInst order x.names) st1

/-- static_metadata.rs:459-464: `names.extend(reusable_names.into_iter().map(|(string, key)| (key, string)))`.
    (`reusable_names` is a `HashMap` too; the model inserts in insertion order, and
    `C18.extend_order_irrelevant` shows that any other order gives the same map.) -/
def extend (names : Table) (reusable : List (Str × NameKey)) : Table :=
  reusable.foldl (fun t p => ainsert p.2 p.1 t) names

/-- The `names` of the resulting `StaticMetadata`. -/
def alloc (order : List NameKey) (x : Input) : Table := extend x.names (allocState order x).reusable

/-! ### History: the allocation before commits c4dd162 / ba69b97 (kept for the counterexamples in FontcProps/C18.lean) -/

/-- old static_metadata.rs:432-434: `names.iter().find_map(|(key, string)| (*string == instance_name).then_some(key.name_id))`
    — the *first* key, in hash-iteration order, whose string is the instance name. -/
def firstMatch (order : List NameKey) (names : Table) (s : Str) : Option Nat :=
  order.findSome? fun k => if alookup k names = some s then some k.id else none

def reuseSubfamilyOld (order : List NameKey) (names : Table) (ni : Inst) : Bool :=
  ni.atDefault &&
    match firstMatch order names ni.name with
    | some id => isSub id
    | none => false

def regInstOld (order : List NameKey) (names : Table) (st : St) (ni : Inst) : St :=
  let st := if reuseSubfamilyOld order names ni then st else register st ni.name
  match ni.ps with
  | some p => register st p
  | none => st

/-- old: `let mut name_id_gen = 255;` whatever ids the source already used -/
def allocStateOld (order : List NameKey) (x : Input) : St :=
  let st0 : St := ⟨initReusable order x.names, 255⟩
  let st1 := x.labels.foldl register st0
  (effInsts x).foldl (regInstOld order x.names) st1

def allocOld (order : List NameKey) (x : Input) : Table := extend x.names (allocStateOld order x).reusable

/-! ## Reverse lookup used by fvar and STAT -/

/-- name ids of all records whose string is `s` -/
def idsOf (t : Table) (s : Str) : List Nat := (t.filter fun p => p.2 = s).map (·.1.id)

/-- `reverse_names().get(s)` as an ascending sequence (`BTreeSet<NameId>` iteration; duplicates are harmless for `find`) -/
def reverseIds (t : Table) (s : Str) : List Nat := sortAsc (idsOf t s)

/-- fvar.rs:39-58 `reusable_name_id(name, allow_subfamily)`: the smallest id carrying the string if it is 2 or 17 and the
    caller allows it, else the first font-specific id; `none` = one of the two `unwrap()`s panics -/
def reusableNameId (t : Table) (s : Str) (allowSubfamily : Bool) : Option Nat :=
  match (reverseIds t s).head?.filter (fun id => allowSubfamily && isSub id) with
  | some id => some id
  | none => (reverseIds t s).find? fun id => 256 ≤ id

/-- History: fvar.rs before commit 6370354 — the smallest id whatever it is, when reserved ids are allowed -/
def reusableNameIdOld (t : Table) (s : Str) (allowReserved : Bool) : Option Nat :=
  (reverseIds t s).find? fun id => allowReserved || 256 ≤ id

/-- stat.rs:70-79, 88: smallest id ≥ 256 carrying the axis label; `none` = `unwrap()` panics -/
def statAxisId (t : Table) (label : Str) : Option Nat := (reverseIds t label).find? fun id => 256 ≤ id

/-- fvar.rs:22 -/
def noPostscriptName : Nat := 0xFFFF

structure FvarOut where
  axisIds : List Nat
  /-- (subfamilyNameID, postScriptNameID if the field is present) -/
  instIds : List (Nat × Option Nat)
  deriving DecidableEq, Repr, Inhabited

def allSome {α : Type} : List (Option α) → Option (List α)
  | [] => some []
  | none :: _ => none
  | some a :: t => (allSome t).map (a :: ·)

inductive Res (α : Type) where
  /-- no table is produced (static font) -/
  | noTable
  /-- an `unwrap()` on a missing name panics -/
  | panic
  | table (v : α)
  deriving Repr, Inhabited

/-- `generate_fvar` (fvar.rs:31-132), name ids only. `t` = `static_metadata.names`. -/
def fvar (t : Table) (x : Input) : Res FvarOut :=
  if x.labels.isEmpty then .noTable else
  let hasPs := (effInsts x).any (·.ps.isSome)
  let axes := allSome (x.labels.map fun l => reusableNameId t l false)
  let insts := allSome ((effInsts x).map fun ni =>
    match reusableNameId t ni.name ni.atDefault with
    | none => none
    | some sub =>
      if hasPs then
        match ni.ps with
        | some p => (reusableNameId t p false).map fun id => (sub, some id)
        | none => some (sub, some noPostscriptName)
      else some (sub, none))
  match axes, insts with
  | some a, some i => .table ⟨a, i⟩
  | _, _ => .panic

/-- `make_stat` (stat.rs:66-96): axis name ids; elided fallback name id is always 2 -/
def stat (t : Table) (x : Input) : Res (List Nat) :=
  if x.labels.isEmpty then .noTable else
  match allSome (x.labels.map (statAxisId t)) with
  | some a => .table a
  | none => .panic

/-! ## Axis UI label (fontdrasil/src/types.rs:155-171) -/

def uiLabel (name : Str) (en : Option Str) : Str :=
  match en with
  | some l => l
  | none =>
    if name = lit "weight" then lit "Weight"
    else if name = lit "width" then lit "Width"
    else if name = lit "slant" then lit "Slant"
    else if name = lit "optical" then lit "Optical Size"
    else if name = lit "italic" then lit "Italic"
    else name

/-! ## The fallback chain: `NameBuilder` (ir.rs:829-1082) -/

/-- `names` ∘ `name_to_key`: name id ↦ value. (The real builder keys records by `NameKey`, whose encoding depends on the
    value; re-adding an id with a value of the other encoding class would leave the old record behind. The front ends add
    each id once, and the model identifies a record with its id.) -/
structure Builder where
  names : List (Nat × Str)
  major : Int
  minor : Nat
  deriving Repr, Inhabited

/-- ir.rs:867-873: XML end-of-line normalisation `\r\n → \n`, `\r → \n` -/
def normCR : Str → Str
  | [] => []
  | 13 :: 10 :: t => 10 :: normCR t
  | 13 :: t => 10 :: normCR t
  | c :: t => c :: normCR t

def Builder.get (b : Builder) (id : Nat) : Option Str := alookup id b.names
def Builder.has (b : Builder) (id : Nat) : Bool := (alookup id b.names).isSome
/-- `add` (ir.rs:866-877) -/
def Builder.add (b : Builder) (id : Nat) (v : Str) : Builder := { b with names := ainsert id (normCR v) b.names }
/-- `remove` (ir.rs:879-883) -/
def Builder.remove (b : Builder) (id : Nat) : Builder := { b with names := aerase id b.names }

/-- `default_value` (ir.rs:1074-1082) -/
def defaultValue (id : Nat) : Option Str :=
  if id = 1 then some (lit "New Font") else if id = 2 then some (lit "Regular") else none

/-- `get_fallback_or_default` (ir.rs:910-918) -/
def Builder.fallbackOrDefault (b : Builder) (id : Nat) (fallbacks : List Nat) : Option Str :=
  match fallbacks.findSome? b.get with
  | some v => some v
  | none => defaultValue id

/-- `fallback_string` (ir.rs:924-928); the `unwrap` is safe for ids 1 and 2 -/
def Builder.fallbackString (b : Builder) (id fallback : Nat) : Str := (b.fallbackOrDefault id [fallback]).getD []

/-- `apply_fallback` (ir.rs:891-898) -/
def Builder.applyFallback (b : Builder) (id : Nat) (fallbacks : List Nat) : Builder :=
  if b.has id then b else
  match b.fallbackOrDefault id fallbacks with
  | some v => b.add id v
  | none => b

def toLowerAscii (c : Nat) : Nat := if 0x41 ≤ c ∧ c ≤ 0x5A then c + 0x20 else c

/-- `is_ribbi` (ir.rs:842-847). Rust lower-cases with full Unicode `to_lowercase`; no non-ASCII character lower-cases
    to a letter occurring in the four names (U+212A KELVIN SIGN ↦ k is the only non-ASCII ↦ ASCII-letter case), so ASCII
    lower-casing decides the same predicate. -/
def isRibbi (s : Str) : Bool :=
  let l := s.map toLowerAscii
  l == lit "regular" || l == lit "italic" || l == lit "bold" || l == lit "bold italic"

/-- `char::is_ascii_whitespace` -/
def isAsciiWs (c : Nat) : Bool := c == 0x20 || c == 0x09 || c == 0x0A || c == 0x0C || c == 0x0D

/-- `str::split_ascii_whitespace` -/
def splitWsAux : Str → Str → List Str
  | [], cur => if cur.isEmpty then [] else [cur.reverse]
  | c :: t, cur =>
    if isAsciiWs c then (if cur.isEmpty then splitWsAux t [] else cur.reverse :: splitWsAux t [])
    else splitWsAux t (c :: cur)
def splitWs (s : Str) : List Str := splitWsAux s []

/-- `[..].join(" ")` -/
def joinSp : List Str → Str
  | [] => []
  | [a] => a
  | a :: t => a ++ 0x20 :: joinSp t

/-- `make_family_name(family, subfamily, false)` (ir.rs:851-864) -/
def makeFamilyName (family subfamily : Str) : Str := joinSp (family :: splitWs subfamily)

/-- `normalize_for_postscript(value, false)` (ir.rs:1057-1071) -/
def normalizePS (s : Str) : Str :=
  s.filter fun c => !isAsciiWs c && !(lit "[](){}<>/%").contains c && (33 ≤ c && c < 127)

def dropPrefix? : Str → Str → Option Str
  | [], s => some s
  | _ :: _, [] => none
  | p :: ps, c :: cs => if p = c then dropPrefix? ps cs else none

/-- `str::replace(pat, "")` for a non-empty pattern: left to right, non-overlapping (fuel = length of the input) -/
def removeSubAux (pat : Str) : Nat → Str → Str
  | 0, _ => []
  | _, [] => []
  | fuel + 1, c :: cs =>
    match dropPrefix? pat (c :: cs) with
    | some rest => if pat.isEmpty then c :: removeSubAux pat fuel cs else removeSubAux pat fuel rest
    | none => c :: removeSubAux pat fuel cs

def removeSub (pat : Str) (s : Str) : Str := removeSubAux pat s.length s

def natDigits (n : Nat) : Str := (Nat.toDigits 10 n).map Char.toNat

/-- `format!("{major}")` for an `i32` -/
def intStr (i : Int) : Str := if i < 0 then 0x2D :: natDigits i.natAbs else natDigits i.natAbs

/-- `format!("{minor:0>3}")` -/
def pad3 (n : Nat) : Str :=
  let d := natDigits n
  List.replicate (3 - d.length) 0x30 ++ d

/-- ir.rs:980-983 `format!("Version {major}.{minor:0>3}")` -/
def versionString (major : Int) (minor : Nat) : Str := lit "Version " ++ intStr major ++ 0x2E :: pad3 minor

/-- the recurring statement shape `if !self.contains_key(id) { self.add(id, v) }` -/
def Builder.ensure (b : Builder) (id : Nat) (v : Str) : Builder := if b.has id then b else b.add id v

/-- `NameBuilder::build` (ir.rs:930-1048), statement by statement. Result: id ↦ string.
    (Values that the Rust code computes only inside the `else` branch are pure, so they are bound up front.) -/
def Builder.build (b : Builder) (vendor : Str) : List (Nat × Str) :=
  -- ir.rs:938-954: legacy subfamily; a non-RIBBI fallback becomes a suffix of the legacy family name
  let fs := b.fallbackString 2 17
  let suffix : Option Str := if b.has 2 || isRibbi fs || fs.isEmpty then none else some fs
  let b := b.ensure 2 (if isRibbi fs then fs else lit "Regular")
  -- ir.rs:957-965
  let ff := b.fallbackString 1 16
  let b := b.ensure 1 (match suffix with
    | some s => ff ++ 0x20 :: s
    | none => ff)
  -- ir.rs:968-974
  let b := b.applyFallback 16 [1]
  let b := b.applyFallback 17 [2]
  -- ir.rs:977-984
  let b := b.ensure 5 (versionString b.major b.minor)
  -- ir.rs:987-998
  let b := b.ensure 4 (makeFamilyName ((b.get 16).getD []) ((b.get 17).getD []))
  -- ir.rs:1001-1015
  let b := b.ensure 6 (
    let family := ((b.get 16).getD []).filter (fun c => c != 0x20)
    let subfamily := (b.get 17).getD []
    let family := if subfamily.isEmpty then family else family ++ [0x2D]
    normalizePS (makeFamilyName family subfamily))
  -- ir.rs:1018-1029 (the two `unwrap`s are safe: ids 5 and 6 were just ensured)
  let b := b.ensure 3 (removeSub (lit "Version ") ((b.get 5).getD []) ++ 0x3B :: vendor ++ 0x3B :: (b.get 6).getD [])
  -- ir.rs:1033-1041
  let b :=
    if (b.get 1).isSome && (b.get 2).isSome && b.get 1 == b.get 16 && b.get 2 == b.get 17
    then (b.remove 16).remove 17 else b
  -- ir.rs:1046
  b.names.filter fun p => !p.2.isEmpty

/-- the `HashMap<NameKey, String>` the front end hands to `StaticMetadata::new` -/
def builtTable (names : List (Nat × Str)) : Table := names.map fun p => (NameKey.new p.1 p.2, p.2)

/-- the sequence of `add` calls a front end makes (ufo2fontir/src/source.rs:831-917) -/
def Builder.ofAdds (adds : List (Nat × Str)) (major : Int) (minor : Nat) : Builder :=
  adds.foldl (fun b p => b.add p.1 p.2) ⟨[], major, minor⟩

/-! ## Declarative specification of the documented fallback rules (ufo2ft `fontInfoData.py`), per name id

  `src id` is what the source says for that id (after `add`), `none` = not given. -/

structure FallbackSpec where
  id1 : Str
  id2 : Str
  id3 : Str
  id4 : Str
  id5 : Str
  id6 : Str
  id16 : Str
  id17 : Str
  /-- typographic names are dropped when they repeat the legacy ones -/
  dropTypo : Bool
  deriving DecidableEq, Repr

def fallbackSpec (src : Nat → Option Str) (major : Int) (minor : Nat) (vendor : Str) : FallbackSpec :=
  -- every derived value goes through `add`, i.e. through the end-of-line normalisation `normCR`
  -- styleMapStyleName: given, else the style name if it is one of the four RIBBI names, else "Regular"
  let style := (src 17).getD (lit "Regular")
  let id2 := (src 2).getD (normCR (if isRibbi style then style else lit "Regular"))
  -- styleMapFamilyName: given, else family name + the non-RIBBI style name (only when the style map style is not given)
  let suffix : Str := if (src 2).isSome || isRibbi style || style.isEmpty then [] else 0x20 :: style
  let id1 := (src 1).getD (normCR ((src 16).getD (lit "New Font") ++ suffix))
  let id16 := (src 16).getD (normCR id1)
  let id17 := (src 17).getD (normCR id2)
  let id5 := (src 5).getD (normCR (versionString major minor))
  let id4 := (src 4).getD (normCR (makeFamilyName id16 id17))
  let id6 := (src 6).getD (normCR (normalizePS (makeFamilyName
      (if id17.isEmpty then id16.filter (fun c => c != 0x20) else id16.filter (fun c => c != 0x20) ++ [0x2D]) id17)))
  let id3 := (src 3).getD (normCR (removeSub (lit "Version ") id5 ++ 0x3B :: vendor ++ 0x3B :: id6))
  { id1, id2, id3, id4, id5, id6, id16, id17, dropTypo := id1 == id16 && id2 == id17 }

/-- what the final table must say for name id `id`; `none` = no record -/
def FallbackSpec.get (s : FallbackSpec) (src : Nat → Option Str) (id : Nat) : Option Str :=
  let v : Option Str :=
    if id = 1 then some s.id1 else if id = 2 then some s.id2 else if id = 3 then some s.id3
    else if id = 4 then some s.id4 else if id = 5 then some s.id5 else if id = 6 then some s.id6
    else if id = 16 then (if s.dropTypo then none else some s.id16)
    else if id = 17 then (if s.dropTypo then none else some s.id17)
    else src id
  -- an explicit empty string prevents the fallback and produces no record (ufo2ft#958)
  v.filter fun x => !x.isEmpty

/-! ## Name ids coming from feature code (fontbe/src/features.rs:638-650, fea-rs output.rs:90-113) -/

/-- `remap_name_ids(max_existing + 1)`: ids ≥ 256 declared by the FEA compiler are moved above every existing id.
    (u16 saturation at `LAST_ALLOWED_NAME_ID` is outside the model: fewer than 32 k names.) -/
def feaShift (t : Table) (id : Nat) : Nat :=
  if maxId t ≤ 255 then id else if id ≤ 255 then id else id + (maxId t + 1 - 256)

/-- fea-rs output.rs:152-155: the STAT elided fallback id is shifted with `saturating_add(id_offset)` *without* the
    reserved-id test that `adjust_id` applies to every other reference (literal; differs from `feaShift` for ids ≤ 255). -/
def feaShiftElided (t : Table) (id : Nat) : Nat :=
  if maxId t ≤ 255 then id else id + (maxId t + 1 - 256)

/-- fea-rs output.rs:127-151: `FeatureParams::Size` is not among the remapped parameters, so the `size` feature's
    menu name id keeps its unshifted value (literal). -/
def feaShiftSize (_t : Table) (id : Nat) : Nat := id

/-! ## Names supplied through feature code: fea-rs `NameBuilder` (fea-rs/src/compile/tables/name.rs) -/

/-- `NameSpec` (name.rs:17-23) -/
structure FeaSpec where
  platform : Nat
  encoding : Nat
  lang : Nat
  str : Str
  deriving DecidableEq, Repr, Inhabited

/-- `NameBuilder` (name.rs:10-15): records in insertion order, `last_nonreserved_id` -/
structure FeaBuilder where
  records : List (Nat × FeaSpec)
  last : Nat
  deriving Repr, Inhabited

/-- `NameBuilder::default()` (name.rs:31-39): `last_nonreserved_id = LAST_RESERVED_NAME_ID` (255) -/
def FeaBuilder.empty : FeaBuilder := ⟨[], 255⟩

/-- `add` (name.rs:42-45): `last = max(last, id)`, whatever order the explicit records come in -/
def FeaBuilder.add (b : FeaBuilder) (id : Nat) (sp : FeaSpec) : FeaBuilder := ⟨b.records ++ [(id, sp)], max b.last id⟩

/-- `next_name_id` (name.rs:59-63); u16 saturation is outside the model -/
def FeaBuilder.nextId (b : FeaBuilder) : Nat := b.last + 1

/-- `add_anon_group` (name.rs:47-53): one fresh id for all non-empty entries of the group -/
def FeaBuilder.addAnonGroup (b : FeaBuilder) (entries : List FeaSpec) : FeaBuilder × Nat :=
  let id := b.nextId
  ((entries.filter fun e => !e.str.isEmpty).foldl (fun c e => c.add id e) b, id)

/-- the anonymous groups, in build order; result: the builder and the id given to every group -/
def FeaBuilder.addGroups (b : FeaBuilder) : List (List FeaSpec) → FeaBuilder × List Nat
  | [] => (b, [])
  | g :: gs =>
    let r := b.addAnonGroup g
    let rest := r.1.addGroups gs
    (rest.1, r.2 :: rest.2)

/-- the builder after the explicit `table name { nameid N …; }` records, in file order (compile_ctx.rs:1663-1669) -/
def feaExplicit (expl : List (Nat × FeaSpec)) : FeaBuilder := expl.foldl (fun b p => b.add p.1 p.2) FeaBuilder.empty

/-- compile_ctx.rs:1663-1669 (`table name` records in file order) then compile_ctx.rs:194-237 (anonymous groups in
    build order: STAT elided fallback name, per DesignAxis its name and its AxisValue names, format-4 values,
    `size` menu name, stylistic-set featureNames in tag order, cvParameters in tag order). Result: the builder and the id
    of every group. -/
def feaCompile (expl : List (Nat × FeaSpec)) (groups : List (List FeaSpec)) : FeaBuilder × List Nat :=
  (feaExplicit expl).addGroups groups

/-- the FEA name records as they reach fontbe's merge: font-specific ids shifted above the compiler's own ids -/
def feaRecordsShifted (own : Table) (b : FeaBuilder) : Table :=
  b.records.map fun p => (⟨feaShift own p.1, p.2.platform, p.2.encoding, p.2.lang⟩, p.2.str)

/-- `merge_name_records` (fontbe/src/name.rs:105-132): `records.chain(fea).collect::<BTreeMap<_, _>>()` — a later record
    with the same (platform, encoding, language, id) replaces an earlier one. (The BTreeMap's key order only decides the
    order of the output records.) -/
def mergeNames (own fea : Table) : Table := (own ++ fea).foldl (fun t p => ainsert p.1 p.2 t) []

end Fontc.Names
