/-
  C17 model: the integer summarisers of fontbe, as they are.

    fontbe/src/metrics_and_limits.rs   MetricsBuilder.update/build, MaxBuilder.update,
                                       MaxBuilder.update_composite_limits, head bbox
    fontbe/src/vertical_metrics.rs     the vhea/vmtx twin (same MetricsBuilder)
    fontbe/src/glyphs.rs               bbox_of_composite / compute_composite_bboxes
    write-fonts tables/loca.rs         LocaFormat::new, GlyfLocaBuilder offsets
    fontbe/src/os2.rs                  x_avg_char_width, apply_min_max_char_index,
                                       add_unicode_range_bits, codepage_range_bits

  All integers are unbounded (`Nat`/`Int`).  Every place where the Rust code narrows, clamps or adds
  fixed-width integers unchecked is marked `[NARROW]`; the in-range side conditions are explicit
  hypotheses of the theorems in FontcProps/C17.lean (the out-of-range behaviour is property C19's).

  Core Lean only: this file is linked into the native driver.
-/
import FontcModel.Basic

namespace Fontc.Limits

/-! ## 0. Glyph data (write-fonts `tables::glyf::Glyph`) -/

/-- `write_fonts::tables::glyf::Bbox` -/
structure Box where
  xMin : Int
  yMin : Int
  xMax : Int
  yMax : Int
  deriving DecidableEq, Repr, Inhabited

/-- `Bbox::default()` -/
def Box.zero : Box := ⟨0, 0, 0, 0⟩

/-- `Bbox::union` (glyf.rs:71) -/
def Box.union (a b : Box) : Box :=
  ⟨min a.xMin b.xMin, min a.yMin b.yMin, max a.xMax b.xMax, max a.yMax b.yMax⟩

/-- A component record: glyph id, 2x2 transform (F2Dot14 values, exact rationals) and offset.
    kurbo coefficient order `[a b c d e f]`: (x,y) ↦ (a·x + c·y + e, b·x + d·y + f). -/
structure Affine where
  a : Rat
  b : Rat
  c : Rat
  d : Rat
  e : Rat
  f : Rat
  deriving DecidableEq, Repr, Inhabited

def Affine.identity : Affine := ⟨1, 0, 0, 1, 0, 0⟩

/-- kurbo `impl Mul for Affine` (`self * other`: apply `other` first). -/
def Affine.mul (s o : Affine) : Affine :=
  ⟨s.a * o.a + s.c * o.b,
   s.b * o.a + s.d * o.b,
   s.a * o.c + s.c * o.d,
   s.b * o.c + s.d * o.d,
   s.a * o.e + s.c * o.f + s.e,
   s.b * o.e + s.d * o.f + s.f⟩

/-- kurbo `Affine * Point` -/
def Affine.apply (t : Affine) (p : Rat × Rat) : Rat × Rat :=
  (t.a * p.1 + t.c * p.2 + t.e, t.b * p.1 + t.d * p.2 + t.f)

structure Component where
  gid : Nat
  /-- `affine_for(component)` (glyphs.rs:731): `[xx, yx, xy, yy, dx, dy]` -/
  xform : Affine
  deriving DecidableEq, Repr, Inhabited

/-- What a glyf fragment holds (without the stored bbox). A simple glyph is its list of contours,
    each a list of points. -/
inductive Shape where
  | empty
  | simple (contours : List (List (Int × Int)))
  | composite (comps : List Component)
  deriving Repr, Inhabited

/-! ## Specification vocabulary (used only in theorem statements and oracles) -/

/-- `v` is the least element of `xs`; `0` when `xs` is empty (the `unwrap_or_default()` of the builders). -/
def IsMinOr0 (v : Int) (xs : List Int) : Prop :=
  (xs = [] → v = 0) ∧ (xs ≠ [] → (∀ x ∈ xs, v ≤ x) ∧ v ∈ xs)

/-- `v` is the greatest element of `xs`; `0` when `xs` is empty. -/
def IsMaxOr0 (v : Int) (xs : List Int) : Prop :=
  (xs = [] → v = 0) ∧ (xs ≠ [] → (∀ x ∈ xs, x ≤ v) ∧ v ∈ xs)

/-- `v` is the greatest element of `xs ∪ {0}` (unsigned maxima that start from 0). -/
def IsMaxNat (v : Nat) (xs : List Nat) : Prop :=
  (∀ x ∈ xs, x ≤ v) ∧ (v ∈ xs ∨ v = 0)

/-! ## 1. MetricsBuilder (metrics_and_limits.rs:41-188) -/

/-- `LongMetric { advance: u16, side_bearing: i16 }` -/
structure LongMetric where
  advance : Nat
  sideBearing : Int
  deriving DecidableEq, Repr, Inhabited

/-- The three arguments of `MetricsBuilder::update`. -/
structure GlyphMetric where
  advance : Nat
  sideBearing : Int
  /-- `bbox.x_max - bbox.x_min` as i32, `None` for glyphs without a bbox -/
  boundsAdvance : Option Int
  deriving DecidableEq, Repr, Inhabited

structure MetricsBuilder where
  longMetrics : List LongMetric := []
  advanceMax : Nat := 0
  minFirst : Option Int := none
  minSecond : Option Int := none
  maxExtent : Option Int := none
  deriving Repr, Inhabited

/-- [NARROW] the explicit i32 → i16 clamp of metrics_and_limits.rs:125-140 -/
def clampI16 (v : Int) : Int :=
  if v < -32768 then -32768 else if v > 32767 then 32767 else v

/-- `opt.map(|v| min(v, x)).or(Some(x))` -/
def optMin (o : Option Int) (x : Int) : Option Int :=
  match o with
  | some v => some (min v x)
  | none => some x

/-- `opt.map(|v| max(v, x)).or(Some(x))` -/
def optMax (o : Option Int) (x : Int) : Option Int :=
  match o with
  | some v => some (max v x)
  | none => some x

/-- `MetricsBuilder::update` (metrics_and_limits.rs:107-143) -/
def MetricsBuilder.update (b : MetricsBuilder) (g : GlyphMetric) : MetricsBuilder :=
  let b1 : MetricsBuilder :=
    { b with
      longMetrics := b.longMetrics ++ [⟨g.advance, g.sideBearing⟩]
      advanceMax := max b.advanceMax g.advance }
  match g.boundsAdvance with
  | none => b1
  | some ba =>
    { b1 with
      minFirst := optMin b.minFirst g.sideBearing
      minSecond := optMin b.minSecond (clampI16 ((g.advance : Int) - g.sideBearing - ba))
      maxExtent := optMax b.maxExtent (clampI16 (g.sideBearing + ba)) }

/-- `Metrics` (metrics_and_limits.rs:53) -/
structure Metrics where
  longMetrics : List LongMetric
  firstSideBearings : List Int
  advanceMax : Nat
  minFirst : Int
  minSecond : Int
  maxExtent : Int
  deriving DecidableEq, Repr, Inhabited

/-- the `for metric in long_metrics.iter().rev() { if … != last_advance { break } lsb_run += 1 }` loop -/
def lsbRun (ms : List LongMetric) : Nat :=
  match ms.getLast? with
  | none => 0
  | some l => (ms.reverse.takeWhile (fun m => m.advance == l.advance)).length

/-- `num_lsb_only` (metrics_and_limits.rs:155-170) -/
def numLsbOnly (ms : List LongMetric) : Nat :=
  if ms.isEmpty then 0 else lsbRun ms - 1

/-- `MetricsBuilder::build` (metrics_and_limits.rs:145-187) -/
def MetricsBuilder.build (b : MetricsBuilder) : Metrics :=
  let cut := b.longMetrics.length - numLsbOnly b.longMetrics
  { longMetrics := b.longMetrics.take cut
    firstSideBearings := (b.longMetrics.drop cut).map (·.sideBearing)
    advanceMax := b.advanceMax
    minFirst := b.minFirst.getD 0
    minSecond := b.minSecond.getD 0
    maxExtent := b.maxExtent.getD 0 }

/-- the fold of `MetricAndLimitWork::exec` / `VerticalMetricsWork::exec` followed by `build` -/
def buildMetrics (gs : List GlyphMetric) : Metrics :=
  (gs.foldl MetricsBuilder.update {}).build

/-- Horizontal arguments of `update` for one glyph (metrics_and_limits.rs:341-347):
    lsb = xMin (0 without bbox), bounds advance = xMax − xMin. -/
def hMetricOf (advance : Nat) (bbox : Option Box) : GlyphMetric :=
  { advance := advance
    sideBearing := (bbox.map (·.xMin)).getD 0
    boundsAdvance := bbox.map fun b => b.xMax - b.xMin }

/-- Vertical arguments (vertical_metrics.rs:80-93): tsb = vertical_origin − yMax,
    bounds advance = yMax − yMin.  [NARROW] the subtraction is on i16, unchecked. -/
def vMetricOf (advance : Nat) (vorg : Int) (bbox : Option Box) : GlyphMetric :=
  { advance := advance
    sideBearing := vorg - (bbox.map (·.yMax)).getD 0
    boundsAdvance := bbox.map fun b => b.yMax - b.yMin }

/-- OpenType hmtx/vmtx semantics, written from the spec: `numberOfHMetrics` long records, then one
    side bearing per remaining glyph, each taking the advance of the last long record. -/
def hmtxExpand (longs : List LongMetric) (lsbs : List Int) : List LongMetric :=
  match longs.getLast? with
  | none => []
  | some l => longs ++ lsbs.map fun sb => ⟨l.advance, sb⟩

/-! ## 2. MaxBuilder (metrics_and_limits.rs:67-277) -/

/-- `GlyphLimits` -/
structure Limits where
  maxPoints : Nat := 0
  maxContours : Nat := 0
  maxDepth : Nat := 0
  deriving DecidableEq, Repr, Inhabited

/-- `GlyphLimits::max` -/
def Limits.max (a b : Limits) : Limits :=
  ⟨Max.max a.maxPoints b.maxPoints, Max.max a.maxContours b.maxContours, Max.max a.maxDepth b.maxDepth⟩

/-- `GlyphInfo` -/
structure GlyphInfo where
  limits : Option Limits
  components : Option (List Nat)
  deriving Repr, Inhabited

/-- A glyph as `MaxBuilder::update` sees it: its shape and `glyph.data.bbox()`. -/
structure Glyph where
  shape : Shape
  bbox : Option Box
  deriving Repr, Inhabited

/-- `MaxBuilder`; `glyph_info` is keyed by gid 0..n-1 in insertion order, so a list indexed by gid. -/
structure MaxBuilder where
  maxPoints : Nat := 0
  maxContours : Nat := 0
  maxComponentElements : Nat := 0
  glyphInfo : List GlyphInfo := []
  bbox : Option Box := none
  deriving Repr, Inhabited

/-- `self.bbox.map(|b| b.union(bbox)).or(Some(bbox))` -/
def optUnion (o : Option Box) (b : Box) : Option Box :=
  match o with
  | some a => some (a.union b)
  | none => some b

/-- `MaxBuilder::update` (metrics_and_limits.rs:191-226).
    Unbounded counts; the code rejects counts above 65535 (`shapeCountsFit`, history: `as u16`). -/
def MaxBuilder.update (b : MaxBuilder) (g : Glyph) : MaxBuilder :=
  let bbox := match g.bbox with
    | some bb => optUnion b.bbox bb
    | none => b.bbox
  match g.shape with
  | .simple contours =>
    let numPoints := (contours.map List.length).sum
    let numContours := contours.length
    { b with
      bbox := bbox
      maxPoints := max b.maxPoints numPoints
      maxContours := max b.maxContours numContours
      glyphInfo := b.glyphInfo ++ [⟨some ⟨numPoints, numContours, 0⟩, none⟩] }
  | .composite comps =>
    { b with
      bbox := bbox
      maxComponentElements := max b.maxComponentElements comps.length
      glyphInfo := b.glyphInfo ++ [⟨none, some (comps.map (·.gid))⟩] }
  | .empty =>
    { b with
      bbox := bbox
      glyphInfo := b.glyphInfo ++ [⟨some {}, none⟩] }

/-- the fold closure in unbounded arithmetic (the arithmetic core; before 944e88e the two `+` were
    unchecked u16 additions, now see `accLimitsC`). -/
def accLimits (acc e : Limits) : Limits :=
  ⟨acc.maxPoints + e.maxPoints, acc.maxContours + e.maxContours, max acc.maxDepth (e.maxDepth + 1)⟩

def setLimits (info : List GlyphInfo) (gid : Nat) (l : Limits) : List GlyphInfo :=
  match info[gid]? with
  | some gi => info.set gid { gi with limits := some l }
  | none => info

/-- Body of the `retain` closure for one pending gid (metrics_and_limits.rs:239-267).
    outer `none` = an `unwrap()` on a missing glyph panics;
    `some none` = some child's limits are not known yet (glyph stays pending);
    `some (some l)` = limits resolved. -/
def stepGlyph (info : List GlyphInfo) (gid : Nat) : Option (Option Limits) :=
  match info[gid]? with
  | none => none
  | some gi =>
    match gi.components with
    | none => none
    | some comps =>
      if comps.any (fun c => (info[c]?).isNone) then none
      else
        let ls := comps.map fun c => (info[c]?).bind (·.limits)
        if ls.all Option.isSome then
          some (some ((ls.filterMap id).foldl accLimits {}))
        else
          some none

/-- One `pending.retain(…)` sweep: glyphs are visited in the order of `pending`, `glyph_info` and
    `overall_max` are updated as the sweep goes. Returns the new state and the retained gids. -/
def sweep (info : List GlyphInfo) (overall : Limits) :
    List Nat → Option (List GlyphInfo × Limits × List Nat)
  | [] => some (info, overall, [])
  | gid :: rest =>
    match stepGlyph info gid with
    | none => none
    | some none =>
      match sweep info overall rest with
      | none => none
      | some (info', ov', kept) => some (info', ov', gid :: kept)
    | some (some l) => sweep (setLimits info gid l) (overall.max l) rest

/-- The `while !pending.is_empty()` loop; `none` = panic (missing glyph, or the "Stuck" assert). -/
def compositeLoop (info : List GlyphInfo) (overall : Limits) (pending : List Nat) : Option Limits :=
  if _h : pending = [] then some overall
  else
    match _hs : sweep info overall pending with
    | none => none
    | some (info', ov', kept) =>
      if _hl : kept.length < pending.length then compositeLoop info' ov' kept else none
termination_by pending.length

/-- gids of composite glyphs, ascending — one possible iteration order of the `HashMap` -/
def compositeGids (info : List GlyphInfo) : List Nat :=
  (List.range info.length).filter fun gid =>
    match info[gid]? with
    | some gi => gi.components.isSome
    | none => false

/-- `MaxBuilder::update_composite_limits` with the HashMap iteration order as a parameter. -/
def updateCompositeLimits (b : MaxBuilder) (pending : List Nat) : Option Limits :=
  compositeLoop b.glyphInfo {} pending

/-- maxp fields written by `MetricAndLimitWork::exec` -/
structure Maxp where
  numGlyphs : Nat
  maxPoints : Nat
  maxContours : Nat
  maxCompositePoints : Nat
  maxCompositeContours : Nat
  maxComponentElements : Nat
  maxComponentDepth : Nat
  deriving DecidableEq, Repr, Inhabited

def maxBuilderOf (gs : List Glyph) : MaxBuilder := gs.foldl MaxBuilder.update {}

def buildMaxp (gs : List Glyph) : Option Maxp :=
  let b := maxBuilderOf gs
  match updateCompositeLimits b (compositeGids b.glyphInfo) with
  | none => none
  | some l => some ⟨gs.length, b.maxPoints, b.maxContours, l.maxPoints, l.maxContours,
                    b.maxComponentElements, l.maxDepth⟩

/-- head x/y min/max: `max_builder.bbox.unwrap_or_default()` -/
def headBbox (gs : List Glyph) : Box := ((maxBuilderOf gs).bbox).getD Box.zero

/-! ### The code as of /repo 944e88e: counts and totals are range-checked

  History: until 944e88e `MaxBuilder::update` narrowed with `as u16` and the fold closure added u16s
  unchecked (debug: panic at metrics_and_limits.rs:260, release: wrap).  Now `update` rejects a count
  above 65535 (`u16::try_from`), and the closure uses `checked_add`, saturating at `u16::MAX` and
  recording the overflow; `update_composite_limits` returns `Err(OutOfBounds)` if any was recorded. -/

/-- Outcome of a work item: a value, `Err(..)`, or a panic. -/
inductive Outcome (α : Type) where
  | ok (a : α)
  | err
  | panic
  deriving Repr, DecidableEq, Inhabited

/-- the fold closure now (metrics_and_limits.rs:271-285): `checked_add(..).unwrap_or_else(|| { overflow =
    Some(gid); u16::MAX })`, `e.max_depth.saturating_add(1)`; the Bool is the `overflow` variable. -/
def accLimitsC (acc : Limits × Bool) (e : Limits) : Limits × Bool :=
  let p := acc.1.maxPoints + e.maxPoints
  let c := acc.1.maxContours + e.maxContours
  (⟨min p 65535, min c 65535, max acc.1.maxDepth (min (e.maxDepth + 1) 65535)⟩,
   acc.2 || decide (65535 < p) || decide (65535 < c))

/-- `stepGlyph` with the checked closure; the flag is threaded through -/
def stepGlyphC (info : List GlyphInfo) (flag : Bool) (gid : Nat) : Option (Option (Limits × Bool)) :=
  match info[gid]? with
  | none => none
  | some gi =>
    match gi.components with
    | none => none
    | some comps =>
      if comps.any (fun c => (info[c]?).isNone) then none
      else
        let ls := comps.map fun c => (info[c]?).bind (·.limits)
        if ls.all Option.isSome then
          some (some ((ls.filterMap id).foldl accLimitsC ({}, flag)))
        else
          some none

def sweepC (info : List GlyphInfo) (overall : Limits) (flag : Bool) :
    List Nat → Option (List GlyphInfo × Limits × Bool × List Nat)
  | [] => some (info, overall, flag, [])
  | gid :: rest =>
    match stepGlyphC info flag gid with
    | none => none
    | some none =>
      match sweepC info overall flag rest with
      | none => none
      | some (info', ov', f', kept) => some (info', ov', f', gid :: kept)
    | some (some (l, f)) => sweepC (setLimits info gid l) (overall.max l) f rest

def compositeLoopC (info : List GlyphInfo) (overall : Limits) (flag : Bool) (pending : List Nat) :
    Option (Limits × Bool) :=
  if _h : pending = [] then some (overall, flag)
  else
    match _hs : sweepC info overall flag pending with
    | none => none
    | some (info', ov', f', kept) =>
      if _hl : kept.length < pending.length then compositeLoopC info' ov' f' kept else none
termination_by pending.length

/-- `MaxBuilder::update_composite_limits` as it is now -/
def updateCompositeLimitsC (b : MaxBuilder) (pending : List Nat) : Outcome Limits :=
  match compositeLoopC b.glyphInfo {} false pending with
  | none => .panic
  | some (_, true) => .err
  | some (l, false) => .ok l

/-- the `u16::try_from` checks of `MaxBuilder::update` (metrics_and_limits.rs:193-222) -/
def shapeCountsFit : Shape → Bool
  | .simple contours => decide ((contours.map List.length).sum ≤ 65535) && decide (contours.length ≤ 65535)
  | .composite comps => decide (comps.length ≤ 65535)
  | .empty => true

/-- the maxp part of `MetricAndLimitWork::exec` as it is now; `glyph_order.len().try_into().unwrap()`
    still panics above 65535 glyphs -/
def buildMaxpC (gs : List Glyph) : Outcome Maxp :=
  if gs.all (fun g => shapeCountsFit g.shape) then
    let b := maxBuilderOf gs
    match updateCompositeLimitsC b (compositeGids b.glyphInfo) with
    | .ok l =>
      if gs.length ≤ 65535 then
        .ok ⟨gs.length, b.maxPoints, b.maxContours, l.maxPoints, l.maxContours, b.maxComponentElements, l.maxDepth⟩
      else .panic
    | .err => .err
    | .panic => .panic
  else .err

/-- hmtx advance of a source width (metrics_and_limits.rs:357-368): `ot_round`, rejected with
    `Err(OutOfBounds)` outside 0..=65535 (history: clamped by `as u16` before 944e88e). -/
def advanceOfWidth (w : Rat) : Option Nat :=
  let r := otRound w
  if 0 ≤ r ∧ r ≤ 65535 then some r.toNat else none

/-- vmtx advance (vertical_metrics.rs:79-92 + ir.rs `height`): an explicit height is range-checked like a
    width; the fallback `typo ascender − typo descender` still goes through the saturating `as u16`. -/
def advanceOfHeight (h : Option Rat) (asc desc : Rat) : Option Nat :=
  match h with
  | some h => advanceOfWidth h
  | none => some (satU16 (otRound (asc - desc))).toNat

/-! ### Independent specification of the composite limits

  Written from the maxp field descriptions: the points / contours of a composite are the sums over its
  components of the (recursively resolved) points / contours; its depth is 1 + the deepest component
  (simple and empty glyphs have depth 0).  `fuel` bounds the recursion; on an acyclic graph any fuel
  above the rank of the glyph gives the same value. -/

def specPoints (g : List Shape) : Nat → Nat → Nat
  | 0, _ => 0
  | fuel + 1, gid =>
    match g[gid]? with
    | some (.simple contours) => (contours.map List.length).sum
    | some (.composite comps) => (comps.map fun c => specPoints g fuel c.gid).sum
    | _ => 0

def specContours (g : List Shape) : Nat → Nat → Nat
  | 0, _ => 0
  | fuel + 1, gid =>
    match g[gid]? with
    | some (.simple contours) => contours.length
    | some (.composite comps) => (comps.map fun c => specContours g fuel c.gid).sum
    | _ => 0

def listMax (xs : List Nat) : Nat := xs.foldr max 0

def specDepth (g : List Shape) : Nat → Nat → Nat
  | 0, _ => 0
  | fuel + 1, gid =>
    match g[gid]? with
    | some (.composite comps) => listMax (comps.map fun c => specDepth g fuel c.gid + 1)
    | _ => 0

def isComposite (g : List Shape) (gid : Nat) : Bool :=
  match g[gid]? with
  | some (.composite _) => true
  | _ => false

/-- The component graph is closed (every referenced gid exists) and acyclic (some rank strictly
    decreases along every component edge). -/
structure Acyclic (g : List Shape) (rank : Nat → Nat) : Prop where
  closed : ∀ (gid : Nat) (comps : List Component), g[gid]? = some (Shape.composite comps) →
    ∀ c ∈ comps, c.gid < g.length
  dec : ∀ (gid : Nat) (comps : List Component), g[gid]? = some (Shape.composite comps) →
    ∀ c ∈ comps, rank c.gid < rank gid

/-! ## 3. Composite bounding boxes (glyphs.rs:753-840) -/

/-- kurbo `Rect` as (x0, y0, x1, y1) -/
structure Rect where
  x0 : Rat
  y0 : Rat
  x1 : Rat
  y1 : Rat
  deriving DecidableEq, Repr, Inhabited

def ratMin (a b : Rat) : Rat := if a ≤ b then a else b
def ratMax (a b : Rat) : Rat := if a ≤ b then b else a

/-- `Rect::from_points(pt, pt)` / `Rect::union_pt` -/
def Rect.addPt (r : Option Rect) (p : Rat × Rat) : Rect :=
  match r with
  | none => ⟨p.1, p.2, p.1, p.2⟩
  | some r => ⟨ratMin r.x0 p.1, ratMin r.y0 p.2, ratMax r.x1 p.1, ratMax r.y1 p.2⟩

/-- `Rect::union` (on the normalised rects that occur here) -/
def Rect.union (a b : Rect) : Rect :=
  ⟨ratMin a.x0 b.x0, ratMin a.y0 b.y0, ratMax a.x1 b.x1, ratMax a.y1 b.y1⟩

def ptToRat (p : Int × Int) : Rat × Rat := ((p.1 : Rat), (p.2 : Rat))

/-- `bbox_of_composite` (glyphs.rs:753-799). `fuel` stands for the call stack (the Rust recursion has
    no cycle check: property C15).  Outer `none` = fuel exhausted or a missing glyph (`unwrap`/Err). -/
def bboxOfComposite (g : List Shape) : Nat → List Component → Affine → Option Rect → Option (Option Rect)
  | _, [], _, acc => some acc
  | 0, _ :: _, _, _ => none
  | fuel + 1, c :: rest, t, acc =>
    let t' := t.mul c.xform
    match g[c.gid]? with
    | none => none
    | some .empty => bboxOfComposite g (fuel + 1) rest t acc
    | some (.simple contours) =>
      let acc' := contours.flatten.foldl (fun (a : Option Rect) p => some (Rect.addPt a (t'.apply (ptToRat p)))) acc
      bboxOfComposite g (fuel + 1) rest t acc'
    | some (.composite comps) =>
      match bboxOfComposite g fuel comps t' none with
      | none => none
      | some none => bboxOfComposite g (fuel + 1) rest t acc
      | some (some child) =>
        let acc' := match acc with
          | some a => some (a.union child)
          | none => some child
        bboxOfComposite g (fuel + 1) rest t acc'
termination_by fuel cs => (fuel, cs.length)

/-- `impl From<Rect> for Bbox` (write-fonts glyf.rs:81): `ot_round` of min/max.
    [NARROW] `f64 as i16` saturates. -/
def rectToBox (r : Rect) : Box :=
  ⟨satI16 (otRound (ratMin r.x0 r.x1)), satI16 (otRound (ratMin r.y0 r.y1)),
   satI16 (otRound (ratMax r.x0 r.x1)), satI16 (otRound (ratMax r.y0 r.y1))⟩

/-- the rectangle converts without saturation -/
def Rect.inI16 (r : Rect) : Prop :=
  -32768 ≤ otRound (ratMin r.x0 r.x1) ∧ -32768 ≤ otRound (ratMin r.y0 r.y1) ∧
  otRound (ratMax r.x0 r.x1) ≤ 32767 ∧ otRound (ratMax r.y0 r.y1) ≤ 32767

instance (r : Rect) : Decidable r.inI16 := by unfold Rect.inI16; infer_instance

/-- control box of a simple glyph (write-fonts simple.rs:612 `path.control_box().into()`);
    coordinates are integers so no rounding happens. `none` only for a glyph without points. -/
def pointsBox (pts : List (Int × Int)) : Option Box :=
  match pts with
  | [] => none
  | p :: rest => some (rest.foldl (fun b q => ⟨min b.xMin q.1, min b.yMin q.2, max b.xMax q.1, max b.yMax q.2⟩)
                        ⟨p.1, p.2, p.1, p.2⟩)

/-- `glyph.data.bbox()` after `compute_composite_bboxes`:
    Empty → None; Simple → stored control box; Composite → `bbox.unwrap_or_default().into()`. -/
def glyphBbox (g : List Shape) (fuel : Nat) (s : Shape) : Option (Option Box) :=
  match s with
  | .empty => some none
  | .simple contours => some (some ((pointsBox contours.flatten).getD Box.zero))
  | .composite comps =>
    match bboxOfComposite g fuel comps Affine.identity none with
    | none => none
    | some none => some (some Box.zero)
    | some (some r) => some (some (rectToBox r))

/-- Spec side: the resolved outline of a component list — every point of every simple glyph reached,
    under the accumulated transform. -/
def resolvedPoints (g : List Shape) : Nat → List Component → Affine → List (Rat × Rat)
  | _, [], _ => []
  | 0, _ :: _, _ => []
  | fuel + 1, c :: rest, t =>
    let t' := t.mul c.xform
    let here := match g[c.gid]? with
      | some (.simple contours) => contours.flatten.map fun p => t'.apply (ptToRat p)
      | some (.composite comps) => resolvedPoints g fuel comps t'
      | _ => []
    here ++ resolvedPoints g (fuel + 1) rest t
termination_by fuel cs => (fuel, cs.length)

/-! ## 4. loca (write-fonts glyf_loca_builder.rs, loca.rs) -/

/-- `GlyfLocaBuilder`: `raw_loca = [0]`, then the running end position after each glyph. -/
def locaOffsets (sizes : List Nat) : List Nat :=
  (sizes.foldl (fun (acc : List Nat × Nat) s => (acc.1 ++ [acc.2 + s], acc.2 + s)) ([0], 0)).1

inductive LocaFormat where
  | short
  | long
  deriving DecidableEq, Repr, Inhabited

/-- `LocaFormat::new` (loca.rs:66-77) -/
def locaFormat (offsets : List Nat) : LocaFormat :=
  if (offsets.getLast?).getD 0 < 0x20000 ∧ offsets.all (fun o => o % 2 == 0) then .short else .long

/-- `impl FontWrite for Loca`: short stores `(off >> 1) as u16` [NARROW], long stores the u32. -/
def locaEncode (fmt : LocaFormat) (offsets : List Nat) : List Nat :=
  match fmt with
  | .short => offsets.map fun o => (o / 2) % 65536
  | .long => offsets.map fun o => o % 4294967296

/-- OpenType loca semantics: short entries are offset/2. -/
def locaDecode (fmt : LocaFormat) (stored : List Nat) : List Nat :=
  match fmt with
  | .short => stored.map (· * 2)
  | .long => stored

/-! ## 5. OS/2 derived fields (os2.rs) -/

/-- (count, total) of `x_avg_char_width` (os2.rs:225-246), computed on the *compressed* hmtx:
    non-zero long advances, plus `num_glyphs − number_of_h_metrics` copies of the last advance if it is
    non-zero. -/
def avgCountTotal (longs : List LongMetric) (numGlyphs : Nat) : Nat × Nat :=
  let nz := (longs.map (·.advance)).filter (· != 0)
  let count := nz.length
  let total := nz.sum
  let last := ((longs.getLast?).map (·.advance)).getD 0
  if last > 0 then
    let numShort := numGlyphs - longs.length
    (count + numShort, total + numShort * last)
  else (count, total)

/-- round-to-nearest-even onto the grid of multiples of `g` -/
def roundToGrid (g x : Rat) : Rat := g * (roundTiesEven (x / g) : Rat)

/-- unit in the last place of a binary32 value of magnitude `x ≥ 1` (24-bit significand) -/
def ulp32 (x : Rat) : Rat :=
  let e := Nat.log2 x.floor.toNat
  if e ≥ 23 then ((2 ^ (e - 23) : Nat) : Rat) else 1 / ((2 ^ (23 - e) : Nat) : Rat)

/-- IEEE-754 binary32 round-to-nearest-even for `1 ≤ x < 2^127` (no overflow/subnormals here) -/
def f32 (x : Rat) : Rat := roundToGrid (ulp32 x) x

/-- HISTORY (until /repo d188b11): `(total as f32 / count as f32).ot_round()` with
    `ot_round = (x + 0.5).floor() as i16`.  `count = 0` gave NaN, and `NaN as i16 = 0`; `as i16` saturates.
    Off by one once the advances sum to 2^22 or more (FontcProps/C17.lean `avg_width_old_counterexample`). -/
def avgOfF32 (count total : Nat) : Int :=
  if count = 0 then 0
  else if total = 0 then 0
  else
    let q := f32 (f32 (total : Rat) / f32 (count : Rat))
    if q < 1 then satI16 (q + 1/2).floor   -- not reachable: every counted advance is ≥ 1
    else satI16 (f32 (q + 1/2)).floor

/-- The same computation in exact arithmetic (what the formula means). -/
def avgOfExact (count total : Nat) : Int :=
  if count = 0 then 0 else otRound ((total : Rat) / (count : Rat))

/-- The code now (os2.rs:248-256): `(2 * total + count) / (2 * count)` in u64, `.min(i16::MAX) as i16`;
    0 when nothing is counted.  [NARROW] the `.min` saturates a mean above 32767. -/
def avgOfInt (count total : Nat) : Int :=
  if count = 0 then 0 else satI16 (((2 * total + count) / (2 * count) : Nat) : Int)

/-- `x_avg_char_width` as implemented -/
def xAvgCharWidth (longs : List LongMetric) (numGlyphs : Nat) : Int :=
  let ct := avgCountTotal longs numGlyphs
  avgOfInt ct.1 ct.2

/-- HISTORY: `x_avg_char_width` before d188b11 (binary32 division) -/
def avgWidthOld (longs : List LongMetric) (numGlyphs : Nat) : Int :=
  let ct := avgCountTotal longs numGlyphs
  avgOfF32 ct.1 ct.2

/-- `apply_min_max_char_index` (os2.rs:479-485): fold from (0xFFFF, 0), then `.min(0xFFFF) as u16` -/
def minMaxCharIndex (cps : List Nat) : Nat × Nat :=
  let mm := cps.foldl (fun (acc : Nat × Nat) cp => (min cp acc.1, max cp acc.2)) (0xFFFF, 0)
  (min mm.1 0xFFFF, min mm.2 0xFFFF)

/-- `UNICODE_RANGES` (os2.rs:36-206): (from, to, bit) -/
def unicodeRanges : List (Nat × Nat × Nat) := [
  (0x0000, 0x007F, 0), (0x0080, 0x00FF, 1), (0x0100, 0x017F, 2), (0x0180, 0x024F, 3),
  (0x0250, 0x02AF, 4), (0x02B0, 0x02FF, 5), (0x0300, 0x036F, 6), (0x0370, 0x03FF, 7),
  (0x0400, 0x04FF, 9), (0x0500, 0x052F, 9), (0x0530, 0x058F, 10), (0x0590, 0x05FF, 11),
  (0x0600, 0x06FF, 13), (0x0700, 0x074F, 71), (0x0750, 0x077F, 13), (0x0780, 0x07BF, 72),
  (0x07C0, 0x07FF, 14), (0x0900, 0x097F, 15), (0x0980, 0x09FF, 16), (0x0A00, 0x0A7F, 17),
  (0x0A80, 0x0AFF, 18), (0x0B00, 0x0B7F, 19), (0x0B80, 0x0BFF, 20), (0x0C00, 0x0C7F, 21),
  (0x0C80, 0x0CFF, 22), (0x0D00, 0x0D7F, 23), (0x0D80, 0x0DFF, 73), (0x0E00, 0x0E7F, 24),
  (0x0E80, 0x0EFF, 25), (0x0F00, 0x0FFF, 70), (0x1000, 0x109F, 74), (0x10A0, 0x10FF, 26),
  (0x1100, 0x11FF, 28), (0x1200, 0x137F, 75), (0x1380, 0x139F, 75), (0x13A0, 0x13FF, 76),
  (0x1400, 0x167F, 77), (0x1680, 0x169F, 78), (0x16A0, 0x16FF, 79), (0x1700, 0x171F, 84),
  (0x1720, 0x173F, 84), (0x1740, 0x175F, 84), (0x1760, 0x177F, 84), (0x1780, 0x17FF, 80),
  (0x1800, 0x18AF, 81), (0x1900, 0x194F, 93), (0x1950, 0x197F, 94), (0x1980, 0x19DF, 95),
  (0x19E0, 0x19FF, 80), (0x1A00, 0x1A1F, 96), (0x1B00, 0x1B7F, 27), (0x1B80, 0x1BBF, 112),
  (0x1C00, 0x1C4F, 113), (0x1C50, 0x1C7F, 114), (0x1D00, 0x1D7F, 4), (0x1D80, 0x1DBF, 4),
  (0x1DC0, 0x1DFF, 6), (0x1E00, 0x1EFF, 29), (0x1F00, 0x1FFF, 30), (0x2000, 0x206F, 31),
  (0x2070, 0x209F, 32), (0x20A0, 0x20CF, 33), (0x20D0, 0x20FF, 34), (0x2100, 0x214F, 35),
  (0x2150, 0x218F, 36), (0x2190, 0x21FF, 37), (0x2200, 0x22FF, 38), (0x2300, 0x23FF, 39),
  (0x2400, 0x243F, 40), (0x2440, 0x245F, 41), (0x2460, 0x24FF, 42), (0x2500, 0x257F, 43),
  (0x2580, 0x259F, 44), (0x25A0, 0x25FF, 45), (0x2600, 0x26FF, 46), (0x2700, 0x27BF, 47),
  (0x27C0, 0x27EF, 38), (0x27F0, 0x27FF, 37), (0x2800, 0x28FF, 82), (0x2900, 0x297F, 37),
  (0x2980, 0x29FF, 38), (0x2A00, 0x2AFF, 38), (0x2B00, 0x2BFF, 37), (0x2C00, 0x2C5F, 97),
  (0x2C60, 0x2C7F, 29), (0x2C80, 0x2CFF, 8), (0x2D00, 0x2D2F, 26), (0x2D30, 0x2D7F, 98),
  (0x2D80, 0x2DDF, 75), (0x2DE0, 0x2DFF, 9), (0x2E00, 0x2E7F, 31), (0x2E80, 0x2EFF, 59),
  (0x2F00, 0x2FDF, 59), (0x2FF0, 0x2FFF, 59), (0x3000, 0x303F, 48), (0x3040, 0x309F, 49),
  (0x30A0, 0x30FF, 50), (0x3100, 0x312F, 51), (0x3130, 0x318F, 52), (0x3190, 0x319F, 59),
  (0x31A0, 0x31BF, 51), (0x31C0, 0x31EF, 61), (0x31F0, 0x31FF, 50), (0x3200, 0x32FF, 54),
  (0x3300, 0x33FF, 55), (0x3400, 0x4DBF, 59), (0x4DC0, 0x4DFF, 99), (0x4E00, 0x9FFF, 59),
  (0xA000, 0xA48F, 83), (0xA490, 0xA4CF, 83), (0xA500, 0xA63F, 12), (0xA640, 0xA69F, 9),
  (0xA700, 0xA71F, 5), (0xA720, 0xA7FF, 29), (0xA800, 0xA82F, 100), (0xA840, 0xA87F, 53),
  (0xA880, 0xA8DF, 115), (0xA900, 0xA92F, 116), (0xA930, 0xA95F, 117), (0xAA00, 0xAA5F, 118),
  (0xAC00, 0xD7AF, 56), (0xD800, 0xDFFF, 57), (0xE000, 0xF8FF, 60), (0xF900, 0xFAFF, 61),
  (0xFB00, 0xFB4F, 62), (0xFB50, 0xFDFF, 63), (0xFE00, 0xFE0F, 91), (0xFE10, 0xFE1F, 65),
  (0xFE20, 0xFE2F, 64), (0xFE30, 0xFE4F, 65), (0xFE50, 0xFE6F, 66), (0xFE70, 0xFEFF, 67),
  (0xFF00, 0xFFEF, 68), (0xFFF0, 0xFFFF, 69), (0x10000, 0x1007F, 101), (0x10080, 0x100FF, 101),
  (0x10100, 0x1013F, 101), (0x10140, 0x1018F, 102), (0x10190, 0x101CF, 119), (0x101D0, 0x101FF, 120),
  (0x10280, 0x1029F, 121), (0x102A0, 0x102DF, 121), (0x10300, 0x1032F, 85), (0x10330, 0x1034F, 86),
  (0x10380, 0x1039F, 103), (0x103A0, 0x103DF, 104), (0x10400, 0x1044F, 87), (0x10450, 0x1047F, 105),
  (0x10480, 0x104AF, 106), (0x10800, 0x1083F, 107), (0x10900, 0x1091F, 58), (0x10920, 0x1093F, 121),
  (0x10A00, 0x10A5F, 108), (0x12000, 0x123FF, 110), (0x12400, 0x1247F, 110), (0x1D000, 0x1D0FF, 88),
  (0x1D100, 0x1D1FF, 88), (0x1D200, 0x1D24F, 88), (0x1D300, 0x1D35F, 109), (0x1D360, 0x1D37F, 111),
  (0x1D400, 0x1D7FF, 89), (0x1F000, 0x1F02F, 122), (0x1F030, 0x1F09F, 122), (0x20000, 0x2A6DF, 59),
  (0x2F800, 0x2FA1F, 61), (0xE0000, 0xE007F, 92), (0xE0100, 0xE01EF, 91), (0xF0000, 0xFFFFD, 90),
  (0x100000, 0x10FFFD, 90)]

/-- `add_unicode_range_bits` (os2.rs:282-299).  The Rust code uses `binary_search_by` on
    `UNICODE_RANGES`; on a table that is sorted and pairwise disjoint (proved:
    `Fontc.C17.unicodeRanges_sorted_disjoint`) the entry found is the unique entry containing the
    codepoint, which is what `find?` returns. -/
def unicodeRangeBitsOf (cp : Nat) : List Nat :=
  let fromTable := match unicodeRanges.find? (fun r => r.1 ≤ cp && cp ≤ r.2.1) with
    | some r => [r.2.2]
    | none => []
  fromTable ++ (if 0x10000 ≤ cp ∧ cp ≤ 0x10FFFF then [57] else [])

/-- set of bits → the 32-bit words (`unicode_range[idx] |= 1 << bit`), as the sorted list of set bits -/
def bitSet (bits : List Nat) : List Nat := (List.range 128).filter fun b => bits.contains b

/-- `apply_unicode_range` with no assigned bits -/
def unicodeRangeBits (cps : List Nat) : List Nat := bitSet (cps.flatMap unicodeRangeBitsOf)

/-- `codepage_range_bits` (os2.rs:334-460). `char::from_u32` drops surrogates and values > 0x10FFFF. -/
def codepageRangeBits (cps : List Nat) : List Nat :=
  let isChar (cp : Nat) : Bool := cp < 0xD800 || (0xE000 ≤ cp && cp ≤ 0x10FFFF)
  let chars := cps.filter isChar
  let has (c : Nat) : Bool := chars.contains c
  let hasAscii := (List.range (0x7E - 0x20)).all fun i => cps.contains (0x20 + i)
  let hasLineart := has 0x2524
  let sqrt := has 0x221A
  let rule (c : Nat) : List Nat :=
    if c == 0xDE then (if hasAscii then [0] else [])
    else if c == 0x13D then (if hasAscii then [1] ++ (if hasLineart then [58] else []) else [])
    else if c == 0x411 then [2] ++ (if has 0x405 && hasLineart then [57] else []) ++
                                   (if has 0x255C && hasLineart then [49] else [])
    else if c == 0x386 then [3] ++ (if hasLineart && has 0xBD then [48] else []) ++
                                   (if hasLineart && sqrt then [60] else [])
    else if c == 0x130 then (if hasAscii then [4] ++ (if hasLineart then [56] else []) else [])
    else if c == 0x5D0 then [5] ++ (if hasLineart && sqrt then [53] else [])
    else if c == 0x631 then [6] ++ (if sqrt then [51] else []) ++ (if hasLineart then [61] else [])
    else if c == 0x157 then (if hasAscii then [7] ++ (if hasLineart then [59] else []) else [])
    else if c == 0x20AB then (if hasAscii then [8] else [])
    else if c == 0xE45 then [16]
    else if c == 0x30A8 then [17]
    else if c == 0x3105 then [18]
    else if c == 0x3131 then [19]
    else if c == 0x592E then [20]
    else if c == 0xACF4 then [21]
    else if c == 0x2665 then (if hasAscii then [30] else [])
    else if c == 0xFE then (if hasAscii && hasLineart then [54] else [])
    else if c == 0x255A then (if hasAscii then [62, 63] else [])
    else if c == 0xC5 then (if hasAscii && hasLineart && sqrt then [50] else [])
    else if c == 0xE9 then (if hasAscii && hasLineart && sqrt then [52] else [])
    else if c == 0xF5 then (if hasAscii && hasLineart && sqrt then [55] else [])
    else []
  let bits := chars.flatMap rule ++ (if hasAscii && has 0x2030 && has 0x2211 then [29] else [])
  let bits := bitSet bits
  if bits.isEmpty then [0] else bits

end Fontc.Limits
