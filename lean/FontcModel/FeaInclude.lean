/-
  Model of include resolution, fea-rs/src/parse/context.rs, as it is.

  Files are numbered; `g : Graph` gives, for every file, the targets of its *resolvable* include statements in
  statement order (`IncludeGraph::nodes`; a file without resolvable includes has no entry there = `[]` here).
    * `loadStep`     — one iteration of the work-list loop of `ParseContext::parse` (context.rs:137-:171):
                       `queue` (a Vec used as a stack) + visited set `parsed_files`
    * `validateStep` — one iteration of the explicit-stack loop of `IncludeGraph::validate` (context.rs:300-:335):
                       frames `(node, edges, cur_edge)`, visited set `seen`, `MAX_INCLUDE_DEPTH`
    * `expand`       — `generate_recurse` (context.rs:239): follows every include statement that `validate` did
                       not report; here with explicit fuel (the Rust function has none: its termination is the
                       content of `include_cycle_reported`)
  Core Lean only.
-/

namespace Fontc.FeaInclude

set_option linter.unusedVariables false

abbrev Graph := List (List Nat)

/-- context.rs:21 -/
def MAX_INCLUDE_DEPTH : Nat := 50

/-- `self.nodes.get(&n)`, with "no entry" = `[]` -/
def edgesOf (g : Graph) (n : Nat) : List Nat := g.getD n []

-- ---------------------------------------------------------------------------------------------
-- ParseContext::parse

structure LoadState where
  /-- `queue`, top of the stack first -/
  queue : List Nat
  /-- keys of `parsed_files` -/
  parsed : List Nat
  deriving Repr

/-- context.rs:137 `while let Some((id, scope)) = queue.pop()`; `none` = the loop has ended -/
def loadStep (g : Graph) (s : LoadState) : Option LoadState :=
  match s.queue with
  | [] => none
  | id :: rest =>
    if s.parsed.contains id then some { s with queue := rest }            -- :139 skip things we've already parsed
    else some { queue := (edgesOf g id).reverse ++ rest, parsed := id :: s.parsed }   -- :146, :157-:160

/-- number of files of the graph not yet in the visited list -/
def unvisited (g : Graph) (visited : List Nat) : Nat :=
  (List.range g.length).countP (fun i => !visited.contains i)

theorem countP_lt {α} (l : List α) (p q : α → Bool) (hqp : ∀ x, q x = true → p x = true)
    (x : α) (hx : x ∈ l) (hpx : p x = true) (hqx : q x = false) :
    l.countP q < l.countP p := by
  induction l with
  | nil => cases hx
  | cons a l ih =>
    have hle : l.countP q ≤ l.countP p := List.countP_mono_left (fun y _ hy => hqp y hy)
    rw [List.countP_cons, List.countP_cons]
    rcases List.mem_cons.1 hx with h | h
    · subst h
      simp only [hpx, hqx]
      simp
      omega
    · have := ih h
      by_cases hq : q a = true
      · simp only [hq, hqp a hq]; simp; omega
      · have hq' : q a = false := by simpa using hq
        simp only [hq']
        by_cases hp : p a = true
        · simp only [hp]; simp; omega
        · have hp' : p a = false := by simpa using hp
          simp only [hp']; simp; omega

theorem unvisited_cons_le (g : Graph) (visited : List Nat) (x : Nat) :
    unvisited g (x :: visited) ≤ unvisited g visited := by
  unfold unvisited
  apply List.countP_mono_left
  intro y _ hy
  simp only [List.contains_cons, Bool.not_eq_true', Bool.or_eq_false_iff] at hy
  simp only [Bool.not_eq_true']
  exact hy.2

theorem unvisited_cons_lt (g : Graph) (visited : List Nat) (x : Nat) (hx : x < g.length)
    (hnew : visited.contains x = false) : unvisited g (x :: visited) < unvisited g visited := by
  unfold unvisited
  apply countP_lt _ _ _ _ x (List.mem_range.2 hx)
  · rw [hnew]; rfl
  · simp
  · intro y hy
    simp only [List.contains_cons, Bool.not_eq_true', Bool.or_eq_false_iff] at hy
    simp only [Bool.not_eq_true']
    exact hy.2

theorem edgesOf_ne_nil_lt (g : Graph) (n : Nat) (h : edgesOf g n ≠ []) : n < g.length := by
  unfold edgesOf at h
  apply Classical.byContradiction
  intro hge
  apply h
  simp [List.getD, List.getElem?_eq_none (by omega : g.length ≤ n)]

def loadMeasure (g : Graph) (s : LoadState) : Nat × Nat := (unvisited g s.parsed, s.queue.length)

theorem loadStep_decreases (g : Graph) (s s' : LoadState) (h : loadStep g s = some s') :
    Prod.Lex (· < ·) (· < ·) (loadMeasure g s') (loadMeasure g s) := by
  unfold loadStep at h
  split at h
  · cases h
  · rename_i id rest hq
    split at h
    · cases h
      unfold loadMeasure
      simp only [hq]
      exact Prod.Lex.right _ (by simp)
    · rename_i hnp
      cases h
      unfold loadMeasure
      simp only [hq]
      have hnp' : s.parsed.contains id = false := by simpa using hnp
      by_cases he : edgesOf g id = []
      · rw [he]
        have hle := unvisited_cons_le g s.parsed id
        rcases Nat.lt_or_eq_of_le hle with h1 | h1
        · exact Prod.Lex.left _ _ h1
        · rw [h1]; exact Prod.Lex.right _ (by simp)
      · exact Prod.Lex.left _ _ (unvisited_cons_lt g s.parsed id (edgesOf_ne_nil_lt g id he) hnp')

/-- run the work-list loop to its end; the result is the set of parsed files -/
def runLoad (g : Graph) (s : LoadState) : List Nat :=
  match h : loadStep g s with
  | none => s.parsed
  | some s' => runLoad g s'
termination_by loadMeasure g s
decreasing_by exact loadStep_decreases g s s' h

-- ---------------------------------------------------------------------------------------------
-- IncludeGraph::validate

/-- context.rs:88 `enum IncludeErrorKind` -/
inductive ErrKind where
  | cycle | tooDeep
  deriving DecidableEq, Repr

/-- context.rs:80 `struct IncludeError` (without the source range) -/
structure IncludeError where
  file : Nat
  stmtIdx : Nat
  kind : ErrKind
  deriving DecidableEq, Repr

/-- one element of `stack`: `(node, edges, cur_edge)` with `edges = nodes[node]` -/
structure Frame where
  node : Nat
  cur : Nat
  deriving DecidableEq, Repr

structure VState where
  /-- top of the stack first -/
  stack : List Frame
  seen : List Nat
  bad : List IncludeError
  deriving Repr

/-- context.rs:310 `while let Some((node, edges, cur_edge)) = stack.pop()`; `none` = the loop has ended -/
def validateStep (g : Graph) (s : VState) : Option VState :=
  match s.stack with
  | [] => none
  | f :: rest =>
    match (edgesOf g f.node)[f.cur]? with
    | none => some { s with stack := rest }                                     -- :311 no edge left: frame dropped
    | some child =>
      let stack1 := { f with cur := f.cur + 1 } :: rest                         -- :313 push parent, advancing idx
      if MAX_INCLUDE_DEPTH - 1 ≤ stack1.length then                             -- :314
        some { stack := stack1, seen := s.seen, bad := s.bad ++ [⟨f.node, f.cur, .tooDeep⟩] }
      else if !s.seen.contains child then                                       -- :325 `seen.insert(*child)`
        some { stack := if (edgesOf g child).isEmpty then stack1 else ⟨child, 0⟩ :: stack1   -- :326-:328
               seen := child :: s.seen, bad := s.bad }
      else if stack1.any (fun a => a.node == child) then                        -- :329
        some { stack := stack1, seen := s.seen, bad := s.bad ++ [⟨f.node, f.cur, .cycle⟩] }
      else some { s with stack := stack1 }

/-- edges still to be looked at, plus one per frame -/
def stackWeight (g : Graph) : List Frame → Nat
  | [] => 0
  | f :: rest => ((edgesOf g f.node).length - f.cur) + 1 + stackWeight g rest

def validateMeasure (g : Graph) (s : VState) : Nat × Nat := (unvisited g s.seen, stackWeight g s.stack)

theorem lex_of_le_lt {a a' b b' : Nat} (h1 : a' ≤ a) (h2 : b' < b) :
    Prod.Lex (· < ·) (· < ·) (a', b') (a, b) := by
  rcases Nat.lt_or_eq_of_le h1 with h | h
  · exact Prod.Lex.left _ _ h
  · rw [h]; exact Prod.Lex.right _ h2

theorem validateStep_decreases (g : Graph) (s s' : VState) (h : validateStep g s = some s') :
    Prod.Lex (· < ·) (· < ·) (validateMeasure g s') (validateMeasure g s) := by
  unfold validateStep at h
  split at h
  · cases h
  · rename_i f rest hst
    split at h
    · cases h
      unfold validateMeasure
      simp only [hst, stackWeight]
      exact Prod.Lex.right _ (by omega)
    · rename_i child hchild
      have hcur : f.cur < (edgesOf g f.node).length := by
        have := List.getElem?_eq_some_iff.1 hchild
        exact this.1
      have hw1 : stackWeight g ({ f with cur := f.cur + 1 } :: rest) < stackWeight g (f :: rest) := by
        simp only [stackWeight]; omega
      dsimp only at h
      split at h
      · cases h
        unfold validateMeasure
        simp only [hst]
        exact Prod.Lex.right _ hw1
      · split at h
        · rename_i hns
          cases h
          unfold validateMeasure
          simp only [hst]
          have hns' : s.seen.contains child = false := by simpa using hns
          split
          · exact lex_of_le_lt (unvisited_cons_le g s.seen child) hw1
          · rename_i hne
            have hne' : edgesOf g child ≠ [] := by simpa using hne
            exact Prod.Lex.left _ _ (unvisited_cons_lt g s.seen child (edgesOf_ne_nil_lt g child hne') hns')
        · split at h
          · cases h
            unfold validateMeasure
            simp only [hst]
            exact Prod.Lex.right _ hw1
          · cases h
            unfold validateMeasure
            simp only [hst]
            exact Prod.Lex.right _ hw1

/-- run the stack loop to its end -/
def runValidate (g : Graph) (s : VState) : List IncludeError :=
  match h : validateStep g s with
  | none => s.bad
  | some s' => runValidate g s'
termination_by validateMeasure g s
decreasing_by exact validateStep_decreases g s s' h

/-- context.rs:300 `IncludeGraph::validate(root)` -/
def validate (g : Graph) (root : Nat) : List IncludeError :=
  if (edgesOf g root).isEmpty then []                       -- :301 `None => return Vec::new()`
  else runValidate g { stack := [⟨root, 0⟩], seen := [], bad := [] }

/-- is statement `i` of file `u` one of the reported (hence skipped) ones? (context.rs:253-:258) -/
def isBad (bad : List IncludeError) (u i : Nat) : Bool := bad.any (fun e => e.file == u && e.stmtIdx == i)

-- ---------------------------------------------------------------------------------------------
-- generate_recurse (with fuel), used by the driver to predict the length of the assembled tree

/-- total text length of file `id` after splicing: own length, minus each followed include statement,
    plus the spliced child.  `stmtLen u i` is the length of statement `i` of file `u`. -/
def expandLen (g : Graph) (bad : List IncludeError) (len : Nat → Nat) (stmtLen : Nat → Nat → Nat) :
    Nat → Nat → Option Nat
  | 0, _ => none
  | fuel + 1, id =>
    let rec go (es : List Nat) (i : Nat) (acc : Nat) : Option Nat :=
      match es with
      | [] => some acc
      | c :: es' =>
        if isBad bad id i then go es' (i + 1) acc
        else match expandLen g bad len stmtLen fuel c with
          | none => none
          | some cl => go es' (i + 1) (acc + cl - stmtLen id i)
    go (edgesOf g id) 0 (len id)

-- ---------------------------------------------------------------------------------------------
-- vocabulary of the theorems

/-- `u` includes `v` -/
def edge (g : Graph) (u v : Nat) : Prop := ∃ i : Nat, (edgesOf g u)[i]? = some v

/-- `u` includes `v` through a statement that was not reported -/
def keptEdge (g : Graph) (bad : List IncludeError) (u v : Nat) : Prop :=
  ∃ i : Nat, (edgesOf g u)[i]? = some v ∧ isBad bad u i = false

/-- reflexive-transitive closure -/
inductive Reach (r : Nat → Nat → Prop) : Nat → Nat → Prop where
  | refl (a : Nat) : Reach r a a
  | step {a b c : Nat} : Reach r a b → r b c → Reach r a c

/-- transitive closure (at least one step) -/
inductive ReachPlus (r : Nat → Nat → Prop) : Nat → Nat → Prop where
  | single {a b : Nat} : r a b → ReachPlus r a b
  | step {a b c : Nat} : ReachPlus r a b → r b c → ReachPlus r a c

end Fontc.FeaInclude
