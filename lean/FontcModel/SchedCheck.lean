/-
  Static analysis of a scheduler `Script` (see Sched.lean): a *verified checker*.

  A `Fact ⟨ev, j, A⟩` claims: in every trace the scheduler admits, whenever job `j` is launched while its
  read access is `A`, the event `ev` has already happened, where `ev` is
    * `del p` – the completion of `p` has been handled by the main thread (`handle_success(p)` ran, so everything
                it spawns / rewrites is in place), or
    * `fin k` – `k` is over: its worker finished (counters decremented, all its context accesses are in the past),
                or `k` was completed without ever running (BE-glyph skip).

  `checkTable sc T` checks that a table of facts is *locally justified*: every fact follows by one of the rules
  below from the script and from other facts of the same table (circular support is fine: the soundness proof,
  FontcProofs/SchedCheckSound.lean, is an induction over the trace that only uses the table at earlier launches).
  How a table is found (`search`) is irrelevant for soundness.

  `checkScript` = a justified table exists that contains, for every job `k` spawned while the build is running
  (at `Deliver(p)`) and every job/access-version that can read an id `k` produces, the fact "launched only after
  `Deliver(p)`": no job can be launched before a producer that is inserted later.

  Also here: `freshIds` (every id is inserted at most once; FontcProofs/SchedFresh.lean proves this static condition
  implies freshness in every schedule) and `checkProgress` (a rank / resolver certificate check;
  FontcProofs/SchedProgressStatic.lean proves an accepted script never reaches `unableToProceed`).

  Core Lean only.
-/
import FontcModel.Sched

namespace Fontc.Sched

inductive Ev where
  | del (p : Id)
  | fin (k : Id)
  deriving DecidableEq, Repr, Inhabited

structure Fact where
  ev : Ev
  job : Id
  acc : Access
  deriving DecidableEq, Repr, Inhabited

abbrev Table := List Fact

/-! ### static views of a script -/

def Effect.addJob? : Effect → Option Job
  | .add j => some j
  | _ => none

/-- all `(q, k)`: `handle_success(q)` adds job `k` (every `onDeliver` entry, also shadowed ones: a superset) -/
def Script.spawns (sc : Script) : List (Id × Job) :=
  sc.onDeliver.flatMap fun p => p.2.filterMap fun e => (e.addJob?).map fun j => (p.1, j)

def Script.jobs (sc : Script) : List Job := sc.init ++ sc.spawns.map (·.2)

/-- all `(q, j, A)`: `handle_success(q)` sets the read access of `j` to `A` -/
def Script.rewrites (sc : Script) : List (Id × Id × Access) :=
  sc.onDeliver.flatMap fun p => p.2.filterMap fun e =>
    match e with
    | .rewrite j a _ => some (p.1, j, a)
    | _ => none

/-- all `(q, o)`: `handle_success(q)` completes `o` without running it -/
def Script.skips (sc : Script) : List (Id × Id) :=
  sc.onDeliver.flatMap fun p => p.2.filterMap fun e =>
    match e with
    | .skip o => some (p.1, o)
    | _ => none

def Job.ids (j : Job) : List Id := j.id :: j.also

/-- ids that are pending from `Workload::new` on -/
def Script.initIds (sc : Script) : List Id := sc.init.flatMap Job.ids

/-- jobs whose completion completes `x` -/
def Script.owners (sc : Script) (x : Id) : List Id :=
  (sc.jobs.filter fun j => j.ids.contains x).map (·.id)

def Script.skippers (sc : Script) (o : Id) : List Id :=
  (sc.skips.filter fun p => p.2 = o).map (·.1)

def Script.creators (sc : Script) (j : Id) : List Id :=
  (sc.spawns.filter fun p => p.2.id = j).map (·.1)

def Script.installers (sc : Script) (j : Id) (a : Access) : List Id :=
  (sc.rewrites.filter fun p => p.2.1 = j ∧ p.2.2 = a).map (·.1)

/-- accesses `j` starts with -/
def Script.initialAccesses (sc : Script) (j : Id) : List Access :=
  (sc.jobs.filter fun k => k.id = j).map (·.reads)

/-- every access `j` can be launched under -/
def Script.versions (sc : Script) (j : Id) : List Access :=
  sc.initialAccesses j ++ (sc.rewrites.filter fun p => p.2.1 = j).map (·.2.2)

/-- ids inserted by the effects of `Deliver(q)` -/
def Script.addedIds (sc : Script) (q : Id) : List Id :=
  (sc.effects q).flatMap fun e => match e with
    | .add j => j.ids
    | _ => []

/-- ids inserted by one `onDeliver` entry -/
def entryIds (p : Id × List Effect) : List Id :=
  p.2.flatMap fun e => match e with
    | .add j => j.ids
    | _ => []

/-- Well-formedness of a script: every id is inserted at most once over the whole build
    (ids of the initial jobs and of all spawned jobs, also-completes ids included, are pairwise distinct). -/
def freshIds (sc : Script) : Bool :=
  decide sc.initIds.Nodup &&
  sc.onDeliver.all fun p =>
    decide (entryIds p).Nodup && (entryIds p).all (fun x => !sc.initIds.contains x) &&
    sc.onDeliver.all fun p' => p'.1 = p.1 || (entryIds p).all fun x => !(entryIds p').contains x

/-! ### the rules -/

section rules
variable (holds : Fact → Bool) (sc : Script)

/-- `o` has been launched ⇒ `ev` -/
def hasAll (ev : Ev) (o : Id) : Bool := (sc.versions o).all fun a => holds ⟨ev, o, a⟩

/-- `o`'s worker has finished ⇒ `ev` -/
def afterFin (ev : Ev) (o : Id) : Bool := ev = .fin o || hasAll holds sc ev o

/-- `o` has been delivered ⇒ `ev` -/
def afterDel (ev : Ev) (o : Id) : Bool := ev = .del o || afterFin holds sc ev o

/-- `o` was skipped ⇒ `ev` -/
def afterSkip (ev : Ev) (o : Id) : Bool := ev = .fin o || (sc.skippers o).all (afterDel holds sc ev)

/-- `x` is complete (in `success`) ⇒ `ev` -/
def overImplies (ev : Ev) (x : Id) : Bool :=
  (sc.owners x).all fun o => afterDel holds sc ev o && afterSkip holds sc ev o

/-- `y` no longer contributes to its discriminant's counter ⇒ `ev` -/
def finImplies (ev : Ev) (y : Id) : Bool :=
  (sc.owners y).all fun o => afterFin holds sc ev o && afterSkip holds sc ev o

/-- `x` is certainly inserted when `j` is launched under `a` -/
def insertedBefore (x j : Id) (a : Access) : Bool :=
  sc.initIds.contains x ||
  (!(sc.initialAccesses j).contains a && (sc.installers j a).all fun q => (sc.addedIds q).contains x) ||
  (!(sc.init.any (·.id = j)) && (sc.creators j).all fun q => (sc.addedIds q).contains x)

def depJustifies (ev : Ev) (j : Id) (a : Access) : Dep → Bool
  | .specific x => insertedBefore sc x j a && overImplies holds sc ev x
  | .variant d =>
    (sc.jobs.flatMap Job.ids).any fun y => y.disc = d && insertedBefore sc y j a && finImplies holds sc ev y

/-- is the fact justified by the script and the facts `holds` accepts? -/
def justified (f : Fact) : Bool :=
  -- never launched under `unknown`
  f.acc = .unknown ||
  -- the job only exists after some `Deliver(q)`
  (!(sc.init.any (·.id = f.job)) && (sc.creators f.job).all (afterDel holds sc f.ev)) ||
  -- this access version only exists after some `Deliver(q)`
  (!(sc.initialAccesses f.job).contains f.acc && (sc.installers f.job f.acc).all (afterDel holds sc f.ev)) ||
  -- a dependency in the access blocks the launch
  (match f.acc with
   | .set ds => ds.any (depJustifies holds sc f.ev f.job f.acc)
   | .all => sc.initIds.any fun x => x ≠ f.job && overImplies holds sc f.ev x
   | _ => false)

end rules

def checkTable (sc : Script) (t : Table) : Bool := t.all (justified (t.contains ·) sc)

/-- the facts `checkScript` needs: every reader version of an id produced by a job spawned at `Deliver(p)` -/
def Script.needs (sc : Script) : List Fact :=
  sc.spawns.flatMap fun pk =>
    sc.jobs.flatMap fun j =>
      ((sc.versions j.id).filter fun a => pk.2.ids.any a.check).map fun a => ⟨.del pk.1, j.id, a⟩

def checkScriptWith (sc : Script) (t : Table) : Bool :=
  checkTable sc t && sc.needs.all (t.contains ·)

/-! ### finding a table (unverified search; its result is checked by `checkTable`) -/

section search
variable (sc : Script)

def reqAll (ev : Ev) (o : Id) : List Fact := (sc.versions o).map fun a => ⟨ev, o, a⟩
def reqAfterFin (ev : Ev) (o : Id) : List Fact := if ev = .fin o then [] else reqAll sc ev o
def reqAfterDel (ev : Ev) (o : Id) : List Fact := if ev = .del o then [] else reqAfterFin sc ev o
def reqAfterSkip (ev : Ev) (o : Id) : List Fact := if ev = .fin o then [] else (sc.skippers o).flatMap (reqAfterDel sc ev)
def reqOver (ev : Ev) (x : Id) : List Fact := (sc.owners x).flatMap fun o => reqAfterDel sc ev o ++ reqAfterSkip sc ev o
def reqFin (ev : Ev) (y : Id) : List Fact := (sc.owners y).flatMap fun o => reqAfterFin sc ev o ++ reqAfterSkip sc ev o

/-- the alternative sets of sub-facts that justify `f` -/
def alternatives (f : Fact) : List (List Fact) :=
  let a1 := if f.acc = .unknown then [[]] else []
  let a2 := if !(sc.init.any (·.id = f.job)) then [(sc.creators f.job).flatMap (reqAfterDel sc f.ev)] else []
  let a3 := if !(sc.initialAccesses f.job).contains f.acc then [(sc.installers f.job f.acc).flatMap (reqAfterDel sc f.ev)] else []
  let a4 := match f.acc with
    | .set ds => ds.flatMap fun d => match d with
      | .specific x => if insertedBefore sc x f.job f.acc then [reqOver sc f.ev x] else []
      | .variant d => ((sc.jobs.flatMap Job.ids).filter fun y => y.disc = d && insertedBefore sc y f.job f.acc).map (reqFin sc f.ev)
    | .all => ((sc.initIds.filter (· ≠ f.job)).take 4).map (reqOver sc f.ev)
    | _ => []
  let alts := a1 ++ a2 ++ a3 ++ a4
  -- cheapest first
  (alts.filter (·.isEmpty)) ++ (alts.filter (!·.isEmpty))

mutual
/-- depth-first proof search; facts on the stack are assumed (greatest fixpoint) -/
def prove (fuel : Nat) (t : Table) (goal : Fact) : Option Table :=
  match fuel with
  | 0 => none
  | fuel + 1 =>
    if t.contains goal then some t
    else tryAlts fuel (goal :: t) (alternatives sc goal)
termination_by (fuel, 0, 0)

def tryAlts (fuel : Nat) (t : Table) : List (List Fact) → Option Table
  | [] => none
  | alt :: rest =>
    match proveAll fuel t alt with
    | some t' => some t'
    | none => tryAlts fuel t rest
termination_by alts => (fuel, 2, alts.length)

def proveAll (fuel : Nat) (t : Table) : List Fact → Option Table
  | [] => some t
  | g :: gs =>
    match fuel with
    | 0 => none
    | fuel' + 1 =>
      match prove fuel' t g with
      | some t' => proveAll fuel' t' gs
      | none => none
termination_by (fuel, 1, 0)
end

/-- extend `t` with justifications for as many of the `goals` as can be found -/
def search (fuel : Nat) (t : Table) : List Fact → Table × List Fact
  | [] => (t, [])
  | g :: gs =>
    match prove sc fuel t g with
    | some t' => search fuel t' gs
    | none => let (t', failed) := search fuel t gs; (t', g :: failed)

end search

def searchFuel : Nat := 4000

structure CheckResult where
  ok : Bool
  table : Table
  why : String

def Ev.show : Ev → String
  | .del p => s!"deliver({p.show})"
  | .fin k => s!"finish({k.show})"

def Fact.show (f : Fact) : String := s!"{f.ev.show} before every launch of {f.job.show}"

/-- (a) of the c02 oracle -/
def checkScriptFull (sc : Script) : CheckResult :=
  let (t, failed) := search sc searchFuel [] sc.needs
  let ok := checkScriptWith sc t
  { ok := ok, table := t,
    why := if ok then "" else
      match failed with
      | f :: _ => s!"no justification found for: {f.show} ({failed.length} facts unproved)"
      | [] => "table not justified" }

def checkScript (sc : Script) : Bool := (checkScriptFull sc).ok

/-! ### progress: a verified acyclicity check

  A certificate assigns a rank to every job id and a resolver to every job that starts with access `Unknown`.
  `checkProgress` checks that every dependency of every access version points to lower ranks, that every `Unknown`
  is resolved by the delivery of a lower-ranked job, and that spawned jobs have lower-ranked creators.
  FontcProofs/SchedProgressStatic.lean proves: an accepted script never reaches `unableToProceed`, in any interleaving. -/

structure ProgCert where
  rk : List (Id × Nat)
  res : List (Id × Id)

def ProgCert.rkOf (c : ProgCert) (x : Id) : Nat :=
  match c.rk.find? (fun p => p.1 = x) with
  | some p => p.2
  | none => 0

def ProgCert.resOf (c : ProgCert) (x : Id) : Option Id := (c.res.find? (fun p => p.1 = x)).map (·.2)

def Script.jobIds (sc : Script) : List Id := sc.jobs.map (·.id)

def Script.allIds (sc : Script) : List Id := sc.jobs.flatMap Job.ids

/-- does this effect resolve the `Unknown` access of `j` (rewrite it or complete the job)? -/
def resolvesEff (j : Id) : Effect → Bool
  | .rewrite i _ _ => i = j
  | .skip i => i = j
  | _ => false

def Script.resolves (sc : Script) (q j : Id) : Bool := (sc.effects q).any (resolvesEff j)

/-- every job added with access `Unknown` is resolved later in the same effect list, and by no other delivery -/
def suffixOK (sc : Script) (c : Id) : List Effect → Bool
  | [] => true
  | e :: rest =>
    (match e with
     | .add k => k.reads ≠ .unknown ||
        (rest.any (resolvesEff k.id) && sc.onDeliver.all fun p' => p'.1 = c || !(p'.2.any (resolvesEff k.id)))
     | _ => true) && suffixOK sc c rest

/-- all owners of `x` have a lower rank than `j` -/
def ownersBelow (sc : Script) (c : ProgCert) (x j : Id) : Bool := (sc.owners x).all fun o => c.rkOf o < c.rkOf j

def depBelow (sc : Script) (c : ProgCert) (j : Id) : Dep → Bool
  | .specific x => ownersBelow sc c x j
  | .variant d => sc.allIds.all fun x => x.disc ≠ d || ownersBelow sc c x j

def accessBelow (sc : Script) (c : ProgCert) (j : Id) : Access → Bool
  | .none => true
  | .unknown => true
  | .all => sc.allIds.all fun x => x = j || ownersBelow sc c x j
  | .set ds => ds.all (depBelow sc c j)

def checkProgress (sc : Script) (c : ProgCert) : Bool :=
  decide (sc.onDeliver.map (·.1)).Nodup &&
  sc.rewrites.all (fun p => p.2.2 ≠ .unknown) &&
  sc.onDeliver.all (fun p => suffixOK sc p.1 p.2) &&
  sc.jobs.all (fun o => o.also.all fun x => !(sc.jobIds.contains x)) &&
  sc.onDeliver.all (fun p => p.2.all fun e => match e with
    | .add k => c.rkOf p.1 < c.rkOf k.id && sc.jobIds.contains p.1 && (sc.skippers p.1).isEmpty
    | _ => true) &&
  sc.jobs.all (fun j => (sc.versions j.id).all (accessBelow sc c j.id)) &&
  sc.jobs.all (fun j => !(sc.versions j.id).contains .unknown ||
    match c.resOf j.id with
    | some q => c.rkOf q < c.rkOf j.id && sc.jobIds.contains q && (sc.skippers q).isEmpty && sc.resolves q j.id
    | none => false)

/-- unverified certificate search: ranks by relaxation of the "must be lower" constraints -/
def findCert (sc : Script) : ProgCert := Id.run do
  let jobs := sc.jobs
  let ids := (jobs.map (·.id)).toArray
  let idx (x : Id) : Option Nat := ids.findIdx? (· = x)
  -- resolvers: the first delivery that resolves the job
  let mut res : List (Id × Id) := []
  for j in jobs do
    if (sc.versions j.id).contains .unknown then
      match sc.onDeliver.find? (fun p => p.2.any (resolvesEff j.id)) with
      | some p => res := (j.id, p.1) :: res
      | none => pure ()
  -- constraints (a, b): rank a < rank b
  let mut cons : Array (Nat × Nat) := #[]
  let ownersIdx (x : Id) : List Nat := (sc.owners x).filterMap idx
  for j in jobs do
    match idx j.id with
    | none => pure ()
    | some jb =>
      for a in sc.versions j.id do
        match a with
        | .set ds =>
          for d in ds do
            match d with
            | .specific x => for o in ownersIdx x do cons := cons.push (o, jb)
            | .variant dd => for x in sc.allIds do
                if x.disc = dd then for o in ownersIdx x do cons := cons.push (o, jb)
        | .all => for x in sc.allIds do
            if x ≠ j.id then for o in ownersIdx x do cons := cons.push (o, jb)
        | _ => pure ()
  for p in sc.onDeliver do
    for e in p.2 do
      match e with
      | .add k =>
        match idx p.1, idx k.id with
        | some a, some b => cons := cons.push (a, b)
        | _, _ => pure ()
      | _ => pure ()
  for (j, q) in res do
    match idx q, idx j with
    | some a, some b => cons := cons.push (a, b)
    | _, _ => pure ()
  let mut rk : Array Nat := Array.replicate ids.size 0
  for _ in [0:ids.size + 1] do
    let mut changed := false
    for (a, b) in cons do
      let ra := rk[a]!
      if rk[b]! ≤ ra then
        rk := rk.set! b (ra + 1)
        changed := true
    if !changed then break
  return { rk := (ids.toList.zip rk.toList), res := res }

/-! ### the static must-precede relation used for the recorded accesses -/

structure MPTable where
  sc : Script
  table : Table

/-- grow a justified table so that it contains as many of `goals` as possible -/
def MPTable.extend (m : MPTable) (goals : List Fact) : MPTable :=
  let (t, _) := search m.sc searchFuel m.table goals
  { m with table := t }

def MPTable.valid (m : MPTable) : Bool := checkTable m.sc m.table

def MPTable.has (m : MPTable) (f : Fact) : Bool := m.table.contains f

end Fontc.Sched
