/-
  C06 — glyph set, glyph order, cmap, post names.

  Literal model of
    ufo2fontir/src/source.rs:542-578    `glyph_order`            (public.glyphOrder ∩ glyph set, then sorted rest)
    glyphs-reader/src/font.rs:2669-2690 `make_glyph_order`       (Glyphs' equivalent: custom order, then file order)
    fontir/src/ir.rs:51-144             `GlyphOrder` (an `IndexSet<GlyphName>`): insert / extend / shift_remove /
                                        set_glyph_id (move_index)
    fontir/src/glyph.rs:37-47           `name_for_derivative`
    fontir/src/glyph.rs:229-256         `prune_missing_components`
    fontir/src/glyph.rs:267-352         `flatten_all_non_export_components` (names and has-contours only)
    fontdrasil/src/util.rs:18-90        `depth_sorted_composite_glyphs`
    fontir/src/glyph.rs:172-206         `resolve_inconsistencies` (the queue that decides the order of derived glyphs)
    fontir/src/glyph.rs:679-698         `ensure_notdef_exists_and_is_gid_0`
    fontir/src/glyph.rs:822-945         `GlyphOrderWork::exec`
    fontbe/src/cmap.rs:33-57            `CmapWork::exec`  (+ the contract of write-fonts `Cmap::from_mappings`)
    fontbe/src/post.rs:38-82            `PostWork::exec`  (production-name renaming, de-duplication)

  Glyph names are `String`s (Rust `GlyphName` = `SmolStr`; its `Ord` is byte-wise on UTF-8, which is code point
  order = Lean's `String` order). Outlines, transforms and anchors are not modelled here (C03/C12/C10): a glyph is
  its name, export flag, codepoints, component base names and whether it has contours.
  Core Lean only: this file is linked into the native driver.
-/
import FontcModel.Basic

namespace Fontc.GlyphOrder

/-- `GlyphName::NOTDEF` -/
def notdef : String := ".notdef"

/-! ## `IndexSet<GlyphName>` (fontir/src/ir.rs:51) as a duplicate-free list -/

/-- `IndexSet::insert`: append unless already present. -/
def ixInsert (s : List String) (x : String) : List String := if x ∈ s then s else s ++ [x]

/-- `IndexSet::extend` / a `for_each(insert)` loop. -/
def ixExtend (s : List String) (xs : List String) : List String := xs.foldl ixInsert s

/-- `IndexSet::move_index(i, 0)`: take out the element at `i`, put it first, shift the others. -/
def ixMoveToFront (s : List String) (i : Nat) : List String :=
  match s[i]? with
  | some x => x :: s.eraseIdx i
  | none => s

/-- `IndexSet::get_index_of` -/
def ixIndexOf (x : String) : List String → Option Nat
  | [] => none
  | y :: ys => if y = x then some 0 else (ixIndexOf x ys).map (· + 1)

/-- `GlyphOrder::set_glyph_id(name, 0)` (ir.rs:134-143). -/
def setGlyphId0 (s : List String) (name : String) : List String :=
  match ixIndexOf name s with
  | some 0 => s
  | some i => ixMoveToFront s i
  | none =>
    -- insert, then the recursive call finds it at the last index
    let s' := ixInsert s name
    match ixIndexOf name s' with
    | some 0 => s'
    | some i => ixMoveToFront s' i
    | none => s'

/-- Specification vocabulary: the first occurrences of a list, in order. -/
def firstOcc : List String → List String
  | [] => []
  | x :: xs => x :: (firstOcc xs).filter (· ≠ x)

/-- `Vec::sort` on glyph names. -/
def sortNames (xs : List String) : List String := xs.mergeSort (fun a b => decide (a ≤ b))

/-! ## ufo2fontir `glyph_order` (source.rs:542-578) -/

/-- `declared`: `none` = `public.glyphOrder` absent or not an array; an entry `none` = a non-string array element.
    `names`: the glyph set (a `HashSet`; the list order stands for its unspecified iteration order). -/
def ufoGlyphOrder (declared : Option (List (Option String))) (names : List String) : List String :=
  -- :550-559  filter_map(as_string) . filter(contains) . for_each(remove from pending; insert)
  let decl := ((declared.getD []).filterMap id).filter (· ∈ names)
  let order := ixExtend [] decl
  let pending := names.filter (· ∉ decl)
  -- :562-564  leftover sorted, extend
  let order := ixExtend order (sortNames pending)
  -- :565-576  only reached with an empty glyph set (see `ufoGlyphOrder_empty_branch_dead`)
  if order.isEmpty then
    ixExtend (if notdef ∈ names then [notdef] else []) (names.filter (· ≠ notdef))
  else order

/-! ## glyphs-reader `make_glyph_order` (font.rs:2669-2690), then `.collect::<GlyphOrder>()` (glyphs2fontir source.rs:592) -/

/-- the `for name in custom_order { if valid_names.remove(&name) { push } }` loop -/
def takeValid : List String → List String → List String → List String
  | _, [], acc => acc
  | valid, n :: rest, acc => if n ∈ valid then takeValid (valid.filter (· ≠ n)) rest (acc ++ [n]) else takeValid valid rest acc

/-- `file`: glyph names in file order; `custom`: the `glyphOrder` custom parameter. -/
def glyphsMakeOrder (custom : Option (List String)) (file : List String) : List String :=
  let ordered := takeValid file (custom.getD []) []
  ordered ++ file.filter (· ∉ ordered)

/-- `font.glyph_order.iter().collect::<GlyphOrder>()` (an IndexSet: duplicates of a repeated file entry vanish). -/
def glyphsGlyphOrder (custom : Option (List String)) (file : List String) : List String :=
  ixExtend [] (glyphsMakeOrder custom file)

/-! ## IR glyphs -/

structure Glyph where
  name : String
  /-- `emit_to_binary` -/
  exported : Bool := true
  codepoints : List Nat := []
  /-- component base names (`Glyph::component_names`) -/
  components : List String := []
  hasContours : Bool := false
  /-- `!has_consistent_components() || has_overflowing_component_transforms()`: always decomposed -/
  mustDecompose : Bool := false
  deriving Repr, Inhabited, DecidableEq

/-- `context.glyphs`: name ↦ glyph, as an association list (newest entry first). -/
structure Table where
  entries : List Glyph

def Table.ofList (gs : List Glyph) : Table := ⟨gs⟩

/-- `context.glyphs.get` / `try_get_glyph` -/
def Table.get (t : Table) (n : String) : Option Glyph := t.entries.find? (fun g => decide (g.name = n))

/-- `context.glyphs.set(g)` -/
def Table.set (t : Table) (g : Glyph) : Table := ⟨g :: t.entries⟩

def Table.comps (t : Table) (n : String) : List String := ((t.get n).map (·.components)).getD []

def Table.isExport (t : Table) (n : String) : Bool := ((t.get n).map (·.exported)).getD false

/-! ### `prune_missing_components` (glyph.rs:229) -/

def pruneMissing (names : List String) (t : Table) : Table :=
  names.foldl (fun acc n =>
    match t.get n with
    | some g =>
      if g.components.all (fun c => (t.get c).isSome) then acc
      else acc.set { g with components := g.components.filter (fun c => (t.get c).isSome) }
    | none => acc) t

/-! ### `depth_sorted_composite_glyphs` (fontdrasil util.rs:18) -/

/-- component depth with the iteration bound as fuel: `none` = not determined (cycle or missing reference). -/
def depth (t : Table) : Nat → String → Option Nat
  | 0, _ => none
  | f + 1, n =>
    match t.get n with
    | none => none
    | some g =>
      if g.components.isEmpty then some 0
      else (g.components.foldl (fun acc c =>
        match acc, depth t f c with
        | some a, some d => some (max a d)
        | _, _ => none) (some 0)).map (· + 1)

def insertByKey (x : Nat × String) : List (Nat × String) → List (Nat × String)
  | [] => [x]
  | y :: ys => if x.1 < y.1 ∨ (x.1 = y.1 ∧ x.2 ≤ y.2) then x :: y :: ys else y :: insertByKey x ys

/-- names with a determined depth, sorted by (depth, name) (`by_depth.sort()`). -/
def depthSorted (names : List String) (t : Table) : List String :=
  let keyed := names.filterMap fun n => (depth t (names.length + 1) n).map fun d => (d, n)
  (keyed.foldl (fun acc x => insertByKey x acc) []).map (·.2)

/-! ### `flatten_all_non_export_components` (glyph.rs:267-352): names and has-contours only -/

/-- one glyph (`snap` = the snapshot taken before the loop, `cur` = the context being rewritten) -/
def flattenOne (snap cur : Table) (n : String) : Table :=
  match snap.get n with
  | none => cur
  | some g =>
    -- glyph_has_non_export_components (context.get_glyph(name).emit_to_binary: export flags never change)
    if g.components.any (fun c => !snap.isExport c) then
      cur.set { g with
        components := g.components.flatMap fun c => if snap.isExport c then [c] else cur.comps c
        hasContours := g.hasContours || g.components.any fun c =>
          !snap.isExport c && ((cur.get c).map (·.hasContours)).getD false }
    else cur

def flattenAll (order : List String) (t : Table) : Table := order.foldl (flattenOne t) t

/-! ### `name_for_derivative` (glyph.rs:37) and the same loop in post.rs:67 -/

/-- `format!("{name}.{n}")` -/
def suffixed (name : String) (n : Nat) : String := name ++ "." ++ toString n

/-- first `k ≥ n` with `suffixed name k` not in `used`. The Rust loops are unbounded `while`s; among any
    `used.length + 1` consecutive candidates one is free (`firstFree_not_mem`), so the bounded search is the same
    function and the `none` arm is dead. -/
def firstFree (used : List String) (name : String) (n : Nat) : Nat :=
  match (List.range (used.length + 1)).find? (fun j => suffixed name (n + j) ∉ used) with
  | some j => n + j
  | none => n + used.length + 1

def nameForDerivative (base : String) (inUse : List String) : String := suffixed base (firstFree inUse base 0)

/-! ### `resolve_inconsistencies` (glyph.rs:172-206) -/

inductive Op where
  | convertToContour
  | moveContoursToComponent
  deriving Repr, DecidableEq, Inhabited

/-- the inner `while let Some(component_name) = curr_components.pop()` walk: is a pending glyph reachable?
    `d` bounds the depth (the real walk does not terminate on a component cycle: C15). -/
def reachesPending (t : Table) (pending : List String) : Nat → List String → Bool
  | 0, _ => false
  | d + 1, cs => cs.any fun c => decide (c ∈ pending) || reachesPending t pending d (t.comps c)

structure RState where
  table : Table
  order : List String
  pending : List String
  todo : List (Op × Glyph)

/-- `apply_fix` (glyph.rs:913-918): what `convert_components_to_contours` / `move_contours_to_new_component`
    do to names, components and has-contours. `g` is the snapshot from `original_glyphs`. -/
def applyFix (st : RState) (op : Op) (g : Glyph) : RState :=
  match op with
  | .convertToContour =>
    { st with table := st.table.set { g with components := [], hasContours := true } }
  | .moveContoursToComponent =>
    -- split_glyph (glyph.rs:52-71)
    let newName := nameForDerivative g.name st.order
    let simple : Glyph := { g with name := newName, components := [], codepoints := [] }
    let composite : Glyph := { g with hasContours := false, components := g.components ++ [newName] }
    { st with order := ixInsert st.order newName, table := (st.table.set simple).set composite }

/-- the outer `'next_todo` loop; `fuel` bounds the number of iterations, `d` the walk depth.
    `none` = fuel exhausted (the real loop would spin forever: a pending glyph that reaches a pending glyph on a cycle). -/
def resolve (d : Nat) : Nat → RState → Option RState
  | 0, st => if st.todo.isEmpty then some st else none
  | fuel + 1, st =>
    match st.todo with
    | [] => some st
    | (op, g) :: rest =>
      if reachesPending st.table st.pending d g.components then
        -- `todo.push_back((op, glyph)); continue 'next_todo`
        resolve d fuel { st with todo := rest ++ [(op, g)] }
      else
        let st' := applyFix { st with todo := rest } op g
        resolve d fuel { st' with pending := st'.pending.filter (· ≠ g.name) }

/-! ### `GlyphOrderWork::exec` (glyph.rs:822-945) -/

structure Source where
  /-- every glyph of the source (`context.glyphs.all()`), names pairwise distinct -/
  glyphs : List Glyph
  /-- `context.preliminary_glyph_order` -/
  prelim : List String
  /-- `Flags::PREFER_SIMPLE_GLYPHS` -/
  preferSimple : Bool := true

structure Final where
  order : List String
  table : Table

/-- glyph.rs:854-861: drop what the source said not to export. `none`: a name without a glyph
    (`context.get_glyph` panics). -/
def keptOrder (prelim : List String) (t : Table) : Option (List String) :=
  if prelim.all (fun n => (t.get n).isSome) then some (prelim.filter t.isExport) else none

/-- glyph.rs:866-874: a glyph that still refers to a component outside the new order is decomposed
    (in the context only; `original_glyphs` keeps the snapshot the next step looks at).
    After `flattenAll` this only happens when the preliminary order omits an exported glyph. -/
def decomposeDangling (kept : List String) (t : Table) : Table :=
  kept.foldl (fun acc n =>
    match acc.get n with
    | some g => if g.components.any (· ∉ kept) then acc.set { g with components := [], hasContours := true } else acc
    | none => acc) t

/-- glyph.rs:882-908 (classification reads the snapshot `original_glyphs`, i.e. the table before `decomposeDangling`) -/
def todoOf (preferSimple : Bool) (kept : List String) (t : Table) : List (Op × Glyph) :=
  kept.filterMap fun n =>
    match t.get n with
    | none => none
    | some g =>
      if g.mustDecompose then some (.convertToContour, g)
      else if g.hasContours && !g.components.isEmpty then
        some (if preferSimple then .convertToContour else .moveContoursToComponent, g)
      else none

/-- glyph.rs:679-698 -/
def ensureNotdef (f : Final) : Final :=
  match ixIndexOf notdef f.order with
  | some _ => { f with order := setGlyphId0 f.order notdef }
  | none =>
    -- synthesize_notdef: a fresh contour glyph, no codepoints, no components
    { order := setGlyphId0 f.order notdef
      table := f.table.set { name := notdef, hasContours := true } }

def finalOrder (s : Source) : Option Final :=
  let names := s.glyphs.map (·.name)
  let t0 := pruneMissing names (Table.ofList s.glyphs)
  let t1 := flattenAll (depthSorted names t0) t0
  match keptOrder s.prelim t1 with
  | none => none
  | some kept =>
    let todo := todoOf s.preferSimple kept t1
    let n := todo.length
    match resolve (names.length + n + 1) ((n + 1) * (n + 1))
        { table := decomposeDangling kept t1, order := kept, pending := todo.map (·.2.name), todo } with
    | none => none
    | some st => some (ensureNotdef { order := st.order, table := st.table })

/-! ## which glyphs get compiled (fontc/src/workload.rs) -/

/-- The names that end up with a glyf fragment. A back-end glyph job exists for every source glyph; it is completed
    without running when the source glyph has `emit_to_binary == false` (workload.rs:357-384 `update_be_glyph_work`);
    when the glyph order is final, jobs are added for `final_glyph_order.difference(&preliminary_glyph_order)`
    (workload.rs:438-448). -/
def compiledNames (s : Source) (f : Final) : List String :=
  (s.glyphs.filter (·.exported)).map (·.name) ++ f.order.filter (· ∉ s.prelim)

/-- glyf assembly (`Be(GlyfFragment(name))` must be available for every name of the final order) -/
def allCompiled (s : Source) (f : Final) : Bool := f.order.all (· ∈ compiledNames s f)

/-! ## cmap (fontbe/src/cmap.rs:33-57) -/

/-- `(codepoint, gid)` for every glyph of the order, in order. -/
def cmapMappings (order : List String) (t : Table) : List (Nat × Nat) :=
  order.zipIdx.flatMap fun (n, gid) => (((t.get n).map (·.codepoints)).getD []).map fun cp => (cp, gid)

/-- The contract of write-fonts `Cmap::from_mappings` (external crate, cmap.rs:172-187): sort, dedup, fail with
    `CmapConflict` iff one codepoint is left with two different glyph ids; otherwise the table maps exactly the
    given pairs. -/
def fromMappings (m : List (Nat × Nat)) : Option (List (Nat × Nat)) :=
  if m.all (fun a => m.all fun b => a.1 != b.1 || a.2 == b.2) then some m else none

def buildCmap (f : Final) : Option (List (Nat × Nat)) := fromMappings (cmapMappings f.order f.table)

/-! ## post names (fontbe/src/post.rs:50-82) -/

/-- `name.retain(|c| c.is_ascii_alphanumeric() || c == '.' || c == '_')` -/
def sanitize (s : String) : String :=
  String.ofList (s.toList.filter fun c => c.isAlphanum || c == '.' || c == '_')

structure PostState where
  /-- the `seen` HashMap as an association list (newest first) -/
  seen : List (String × Nat) := []
  out : List String := []

def postStep (rename : List (String × String)) (st : PostState) (g : String) : PostState :=
  let name := sanitize ((rename.lookup g).getD g)
  match st.seen.lookup name with
  | some n =>
    let k := firstFree (st.seen.map (·.1)) name n
    let name' := suffixed name k
    { seen := (name', 1) :: (name, k + 1) :: st.seen, out := st.out ++ [name'] }
  | none => { seen := (name, 1) :: st.seen, out := st.out ++ [name] }

/-- `rename = none`: `static_metadata.postscript_names` is `None` (production names off, or no
    `public.postscriptNames` in the UFO lib): the glyph names as they are. -/
def postNames (rename : Option (List (String × String))) (order : List String) : List String :=
  match rename with
  | none => order
  | some r => (order.foldl (postStep r) {}).out

end Fontc.GlyphOrder
