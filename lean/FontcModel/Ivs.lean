/-
  OpenType variation evaluation, written from the OpenType specification (otvaroverview, gvar, otvarcommonformats),
  NOT from fontc: this is the independent evaluator the end-to-end oracles use.
  Core Lean only.
-/
import FontcModel.E2E

namespace Fontc.Ivs
open Fontc Fontc.E2E

/-- Per-axis scalar of a region `(start, peak, end)` at normalized coordinate `v`
    (spec: "Algorithm for interpolation of instance values"). -/
def axisScalar (s p e v : Rat) : Rat :=
  if s > p ∨ p > e then 1
  else if s < 0 ∧ e > 0 ∧ p ≠ 0 then 1
  else if p = 0 then 1
  else if v < s ∨ v > e then 0
  else if v = p then 1
  else if v < p then (v - s) / (p - s)
  else (e - v) / (e - p)

def regionScalar : List (Rat × Rat × Rat) → List Rat → Rat
  | [], _ => 1
  | (s, p, e) :: rs, [] => axisScalar s p e 0 * regionScalar rs []
  | (s, p, e) :: rs, v :: vs => axisScalar s p e v * regionScalar rs vs

/-- A gvar tuple's region: explicit intermediate start/end, else (min(p,0), p, max(p,0)). -/
def tupleRegion (t : GTuple) : List (Rat × Rat × Rat) :=
  match t.inter with
  | some (st, en) => (t.peak.zip (st.zip en)).map fun (p, s, e) => (s, p, e)
  | none => t.peak.map fun p => (if p < 0 then p else 0, p, if p > 0 then p else 0)

def tupleScalar (t : GTuple) (loc : List Rat) : Rat := regionScalar (tupleRegion t) loc

/-! ### Item variation store -/

def ivsDelta (ivs : Ivs) (outer inner : Nat) (loc : List Rat) : Rat :=
  match ivs.data[outer]? with
  | some (some d) =>
    match d.rows[inner]? with
    | some row =>
      ((d.regionIdx.zip row).map fun (ri, dv) =>
        match ivs.regions[ri]? with
        | some r => regionScalar r loc * (dv : Rat)
        | none => 0).foldl (· + ·) 0
    | none => 0
  | _ => 0

def varTableDelta (vt : VarTable) (gid : Nat) (loc : List Rat) : Rat :=
  match vt.map with
  | some m =>
    -- spec: if gid ≥ mapCount the last entry is used
    match m[gid]? with
    | some (o, i) => ivsDelta vt.ivs o i loc
    | none => match m.getLast? with
      | some (o, i) => ivsDelta vt.ivs o i loc
      | none => 0
  | none => ivsDelta vt.ivs 0 gid loc

/-! ### gvar with inferred deltas (IUP) -/

/-- Inferred delta for one coordinate of an unreferenced point between referenced neighbours
    (spec: "Inferred deltas for un-referenced point numbers"). `c` coordinate of the point, `(c1,d1)`, `(c2,d2)`
    coordinate and delta of the preceding / following referenced point. -/
def iupCoord (c c1 d1 c2 d2 : Rat) : Rat :=
  if c1 = c2 then (if d1 = d2 then d1 else 0)
  else
    let (lo, dlo, hi, dhi) := if c1 ≤ c2 then (c1, d1, c2, d2) else (c2, d2, c1, d1)
    if c ≤ lo then dlo
    else if hi ≤ c then dhi
    else dlo + (c - lo) * (dhi - dlo) / (hi - lo)

/-- Fill one contour. `pts`: original coordinates; `ds`: explicit deltas (`none` = unreferenced). -/
def iupContour (pts : List (Rat × Rat)) (ds : List (Option (Rat × Rat))) : List (Rat × Rat) :=
  let n := pts.length
  let refd := (List.range n).filter fun i => (ds.getD i none).isSome
  match refd with
  | [] => pts.map fun _ => (0, 0)
  | [i] => let d := (ds.getD i none).getD (0, 0); pts.map fun _ => d
  | _ =>
    (List.range n).map fun i =>
      match ds.getD i none with
      | some d => d
      | none =>
        -- preceding referenced point (cyclically) and following referenced point
        let before := refd.filter (· < i)
        let after := refd.filter (· > i)
        let prev := match before.getLast? with
          | some p => p
          | none => refd.getLast?.getD 0
        let next := match after.head? with
          | some p => p
          | none => refd.head?.getD 0
        let (px, py) := pts.getD prev (0, 0)
        let (nx, ny) := pts.getD next (0, 0)
        let (pdx, pdy) := (ds.getD prev none).getD (0, 0)
        let (ndx, ndy) := (ds.getD next none).getD (0, 0)
        let (x, y) := pts.getD i (0, 0)
        (iupCoord x px pdx nx ndx, iupCoord y py pdy ny ndy)

/-- Split a flat list by contour end indices. -/
def splitByEnds {α} (xs : List α) (ends : List Nat) : List (List α) :=
  let rec go (xs : List α) (start : Nat) : List Nat → List (List α)
    | [] => []
    | e :: es => (xs.take (e + 1 - start)) :: go (xs.drop (e + 1 - start)) (e + 1) es
  go xs 0 ends

/-- Full per-point deltas of one tuple for a simple glyph with `n` outline points (+4 phantom points). -/
def tupleDeltasSimple (t : GTuple) (pts : List (Rat × Rat)) (ends : List Nat) : List (Rat × Rat) :=
  let n := pts.length
  let explicit : List (Option (Rat × Rat)) := (List.range (n + 4)).map fun i =>
    match t.deltas.find? (·.1 == i) with
    | some (_, dx, dy) => some ((dx : Rat), (dy : Rat))
    | none => none
  if t.all then explicit.map (·.getD (0, 0))
  else
    let outline := (splitByEnds pts ends).zip (splitByEnds (explicit.take n) ends)
    let filled := outline.flatMap fun (p, d) => iupContour p d
    filled ++ (explicit.drop n).map (·.getD (0, 0))

/-- Per-"point" deltas for a composite (one per component + 4 phantom points); unreferenced = 0. -/
def tupleDeltasComposite (t : GTuple) (ncomp : Nat) : List (Rat × Rat) :=
  (List.range (ncomp + 4)).map fun i =>
    match t.deltas.find? (·.1 == i) with
    | some (_, dx, dy) => ((dx : Rat), (dy : Rat))
    | none => (0, 0)

def addScaled (acc : List (Rat × Rat)) (s : Rat) (ds : List (Rat × Rat)) : List (Rat × Rat) :=
  (acc.zip ds).map fun ((x, y), (dx, dy)) => (x + s * dx, y + s * dy)

/-- Instantiate a simple glyph's points (outline points followed by 4 phantom points) at `loc`. -/
def instantiateSimple (pts : List (Rat × Rat)) (phantom : List (Rat × Rat)) (ends : List Nat)
    (tuples : List GTuple) (loc : List Rat) : List (Rat × Rat) :=
  tuples.foldl (fun acc t =>
    let s := tupleScalar t loc
    if s = 0 then acc else addScaled acc s (tupleDeltasSimple t pts ends)) (pts ++ phantom)

def instantiateComposite (offsets : List (Rat × Rat)) (phantom : List (Rat × Rat))
    (tuples : List GTuple) (loc : List Rat) : List (Rat × Rat) :=
  tuples.foldl (fun acc t =>
    let s := tupleScalar t loc
    if s = 0 then acc else addScaled acc s (tupleDeltasComposite t offsets.length)) (offsets ++ phantom)

/-- Sum of the scalars of the tuples active at `loc` (enters the IUP error bound of C03). -/
def activeScalarSum (tuples : List GTuple) (loc : List Rat) : Rat :=
  (tuples.map fun t => tupleScalar t loc).foldl (· + ·) 0

end Fontc.Ivs
