/-
  C09 — kerning.  Model of
    * the UFO kerning value lookup algorithm (`ufoLookup`), written from the UFO3 specification
      (kerning.plist, "Kerning Value Lookup Algorithm"), NOT from fontc;
    * fontbe/src/features/kern.rs: `lookup_kerning_value` (:714), `KernSource` (:203), `kerned_maps` (:356),
      `is_divergent` (:265), `refine_divergent_groups` (:382), `SideState::units_for` (:486), `resolve_units` (:530),
      `build_variable_kern_adjustments` (:583);
    * what happens to the emitted pairs afterwards: `KerningGatherWork` sorts them (:836), `split_kerns` drops
      class/class pairs whose value record is all zero (:1227), `KernPair::add_to` (fontbe/src/orchestration.rs:695)
      feeds `PairPosBuilder` (write-fonts gpos/builders.rs:464: `insert_pair` keeps the FIRST value of a glyph pair,
      `ClassPairPosBuilder::insert` opens a new subtable when a class overlaps the current subtable's classes);
    * `evalPairs`: what a shaper applies for an ordered glyph pair, per the OpenType GPOS specification
      (lookup type 2): subtables of a lookup are tried in order; a format-1 subtable applies iff it has a
      PairValueRecord for (first, second); a format-2 subtable applies as soon as the first glyph is covered
      (a glyph in no class2 is class 0, a missing class pair is a zero record) — later subtables are then not consulted.

  Glyphs and group names are natural numbers (the harness numbers names in sorted order).  A key's first component
  names side-1 (`public.kern1.`) groups, its second side-2 (`public.kern2.`) groups; the two name spaces are separate.
  Core Lean only.
-/
import FontcModel.Basic

namespace Fontc.Kern
open Fontc

inductive KSide where
  | glyph (g : Nat)
  | group (n : Nat)
  deriving DecidableEq, Repr, Inhabited

abbrev Key := KSide × KSide

/-- group name ↦ members, in name order (`BTreeMap<KernGroup, BTreeSet<GlyphName>>`). -/
abbrev Groups := List (Nat × List Nat)

/-- One master's kerning as the IR carries it (`ir::KerningInstance`: `groups`, `kerns`). -/
structure Source where
  groups1 : Groups
  groups2 : Groups
  kerns : List (Key × Rat)
  deriving Repr, Inhabited

inductive Side where
  | first
  | second
  deriving DecidableEq, Repr, Inhabited

def Source.groups (s : Source) : Side → Groups
  | .first => s.groups1
  | .second => s.groups2

/-! ### The UFO specification -/

/-- The first `some` key that the kerning dictionary defines; 0 ("the fallback value") if none. -/
def firstHit (kerns : List (Key × Rat)) : List (Option Key) → Rat
  | [] => 0
  | none :: rest => firstHit kerns rest
  | some k :: rest =>
    match kerns.lookup k with
    | some v => v
    | none => firstHit kerns rest

/-- "the group the glyph belongs to" (a glyph is in at most one group per side in a valid UFO3). -/
def groupOfFirst (gs : Groups) (g : Nat) : Option Nat :=
  (gs.find? fun p => p.2.contains g).map (·.1)

def optPair {α β} : Option α → Option β → Option (α × β)
  | some a, some b => some (a, b)
  | _, _ => none

/-- UFO3 kerning value lookup for an ordered *glyph* pair:
    (glyph, glyph) → (glyph, group₂) → (group₁, glyph) → (group₁, group₂) → 0. -/
def ufoLookup (s : Source) (g₁ g₂ : Nat) : Rat :=
  let G₁ := (groupOfFirst s.groups1 g₁).map KSide.group
  let G₂ := (groupOfFirst s.groups2 g₂).map KSide.group
  firstHit s.kerns
    [ some (.glyph g₁, .glyph g₂),
      optPair (some (.glyph g₁)) G₂,
      optPair G₁ (some (.glyph g₂)),
      optPair G₁ G₂ ]

/-! ### kern.rs: per-source maps and `lookup_kerning_value` -/

/-- `KernSource::new` (:211): members are inserted group by group in name order, so a glyph listed in several
    groups of one side ends up with the LAST one. -/
def groupOfLast (gs : Groups) (g : Nat) : Option Nat := groupOfFirst gs.reverse g

def Source.groupOf (s : Source) (side : Side) (g : Nat) : Option Nat := groupOfLast (s.groups side) g

def KSide.isGlyph : KSide → Bool
  | .glyph _ => true
  | .group _ => false

/-- `get_group_if_glyph` (:726). -/
def getGroupIfGlyph (side : KSide) (map : Nat → Option Nat) : Option KSide :=
  match side with
  | .glyph g => (map g).map KSide.group
  | .group _ => some side

/-- `lookup_kerning_value` (:714). -/
def lookupKerningValue (pair : Key) (kerns : List (Key × Rat)) (m₁ m₂ : Nat → Option Nat) : Rat :=
  match kerns.lookup pair with
  | some v => v
  | none =>
    let fg := getGroupIfGlyph pair.1 m₁
    let sg := getGroupIfGlyph pair.2 m₂
    let f := if pair.1.isGlyph then some pair.1 else none
    let s := if pair.2.isGlyph then some pair.2 else none
    firstHit kerns [optPair f sg, optPair fg s, optPair fg sg]

def Source.lookup (s : Source) (pair : Key) : Rat :=
  lookupKerningValue pair s.kerns (s.groupOf .first) (s.groupOf .second)

/-- `resolve_pair` (:275): one value per source, in source order. -/
def resolvePair (srcs : List Source) (pair : Key) : List Rat := srcs.map (·.lookup pair)

/-! ### Reconciliation of groups across sources -/

def keySide : Side → Key → KSide
  | .first, k => k.1
  | .second, k => k.2

/-- `kerned_names` (:243): the groups this source's kerning references on one side. -/
def Source.kernedNames (s : Source) (side : Side) : List Nat :=
  s.kerns.filterMap fun p =>
    match keySide side p.1 with
    | .group n => some n
    | .glyph _ => none

/-- `kerned_maps` (:356): the glyph's group, if that group is referenced by this source's kerning. -/
def Source.kernedGroupOf (s : Source) (side : Side) (g : Nat) : Option Nat :=
  match s.groupOf side g with
  | some G => if (s.kernedNames side).contains G then some G else none
  | none => none

/-- Stable insertion sort (structural recursion, so closed instances evaluate in the kernel); for a total
    preorder it returns what Rust's stable `sort` returns. -/
def insertBy {α} (le : α → α → Bool) (x : α) : List α → List α
  | [] => [x]
  | y :: ys => if le x y then x :: y :: ys else y :: insertBy le x ys

def insertSort {α} (le : α → α → Bool) : List α → List α
  | [] => []
  | x :: xs => insertBy le x (insertSort le xs)

/-- Every glyph that is in some group of that side in some source, in glyph order (the member sets are `BTreeSet`s). -/
def sideGlyphs (srcs : List Source) (side : Side) : List Nat :=
  insertSort (fun a b => decide (a ≤ b)) (srcs.flatMap fun s => (s.groups side).flatMap (·.2)).eraseDups

/-- `SideState::all_members[G]` (:454): union over the sources of the glyphs whose group is `G`. -/
def allMembers (srcs : List Source) (side : Side) (G : Nat) : List Nat :=
  (sideGlyphs srcs side).filter fun g => srcs.any fun s => s.groupOf side g == some G

/-- `is_divergent` (:265). -/
def isDivergent (srcs : List Source) (side : Side) (g : Nat) : Bool :=
  match srcs with
  | [] => false
  | s₀ :: rest => rest.any fun s => s.groupOf side g != s₀.groupOf side g

/-- `refined_by_group.contains_key(G)`: the group has a divergent member (:395). -/
def divergentGroup (srcs : List Source) (side : Side) (G : Nat) : Bool :=
  (allMembers srcs side G).any (isDivergent srcs side)

/-- per-source kerned-group signature of a glyph (:404). -/
def signature (srcs : List Source) (side : Side) (g : Nat) : List (Option Nat) :=
  srcs.map (·.kernedGroupOf side g)

/-- `refine_divergent_groups` (:382) for one divergent group: its members partitioned by signature.
    (The synthesized class *names* never reach the font and are not modelled; a refined class is its member list
    together with the signature its members share.) -/
def refinedClasses (srcs : List Source) (side : Side) (G : Nat) : List (List Nat × List (Option Nat)) :=
  let ms := allMembers srcs side G
  let sigs := (ms.map (signature srcs side)).eraseDups
  sigs.map fun σ => (ms.filter fun g => signature srcs side g == σ, σ)

/-- What a pair is emitted as: a glyph, or a class (its members). -/
inductive Emit where
  | glyph (g : Nat)
  | cls (members : List Nat)
  deriving DecidableEq, Repr, Inhabited

/-- `Names` (:300). -/
inductive Names where
  | uniform (k : KSide)
  | perSource (sig : List (Option Nat))
  deriving Repr, Inhabited

/-- `Names::at` (:310). -/
def Names.at : Names → Nat → Option KSide
  | .uniform k, _ => some k
  | .perSource sig, i =>
    match sig[i]? with
    | some (some G) => some (.group G)
    | _ => none

structure KUnit where
  names : Names
  emit : Emit
  deriving Repr, Inhabited

/-- `SideState::units_for` (:486). -/
def unitsFor (srcs : List Source) (side : Side) (k : KSide) : List KUnit :=
  match k with
  | .glyph g => [⟨.uniform k, .glyph g⟩]
  | .group G =>
    if divergentGroup srcs side G then
      (refinedClasses srcs side G).map fun c => ⟨.perSource c.2, .cls c.1⟩
    else if (allMembers srcs side G).isEmpty then []
    else [⟨.uniform k, .cls (allMembers srcs side G)⟩]

def Names.isUniform : Names → Bool
  | .uniform _ => true
  | .perSource _ => false

/-- `resolve_units` (:530). -/
def resolveUnits (srcs : List Source) (u₁ u₂ : KUnit) : List Rat :=
  match u₁.names, u₂.names with
  | .uniform a, .uniform b => resolvePair srcs (a, b)
  | n₁, n₂ =>
    srcs.zipIdx.map fun (s, i) =>
      match n₁.at i, n₂.at i with
      | some a, some b => s.lookup (a, b)
      | _, _ => 0

/-- all keys defined in at least one source (:651). -/
def allKeys (srcs : List Source) : List Key := (srcs.flatMap fun s => s.kerns.map (·.1)).eraseDups

/-- One emitted adjustment: the two sides and the value at every source (source order). -/
structure EPair where
  e₁ : Emit
  e₂ : Emit
  vals : List Rat
  deriving Repr, Inhabited

def Emit.isCls : Emit → Bool
  | .cls _ => true
  | .glyph _ => false

/-- the pairs one key produces (:658-685). -/
def emitKey (srcs : List Source) (key : Key) : List EPair :=
  match key with
  | (.glyph f, .group S) =>
    (allMembers srcs .second S).map fun m => ⟨.glyph f, .glyph m, resolvePair srcs (.glyph f, .glyph m)⟩
  | _ =>
    let cc := !key.1.isGlyph && !key.2.isGlyph
    (unitsFor srcs .first key.1).flatMap fun u₁ =>
      (unitsFor srcs .second key.2).filterMap fun u₂ =>
        let vals := resolveUnits srcs u₁ u₂
        if cc && vals.all (· == 0) then none else some ⟨u₁.emit, u₂.emit, vals⟩

/-- `build_variable_kern_adjustments` (:583): every emitted pair.  The code collects them in a map keyed by the emitted
    names; two insertions under one key carry equal values (`FontcProps.C09.colliding_inserts_equal`), so the list with
    repetitions denotes the same set of adjustments. -/
def build (srcs : List Source) : List EPair := (allKeys srcs).flatMap (emitKey srcs)

/-- The output classes of one side (`refined_groups`, :628-648). -/
def outputClasses (srcs : List Source) (side : Side) : List (List Nat) :=
  let names := (srcs.flatMap fun s => (s.groups side).map (·.1)).eraseDups
  (names.flatMap fun G =>
    if (allMembers srcs side G).isEmpty then []
    else if divergentGroup srcs side G then (refinedClasses srcs side G).map (·.1)
    else [allMembers srcs side G]).eraseDups

/-! ### From emitted pairs to what the font applies -/

def Emit.covers : Emit → Nat → Bool
  | .glyph g, x => g == x
  | .cls ms, x => ms.contains x

/-- The value record of a pair at master `i`: `resolve_variable_metric` (fontbe/src/features.rs:181) rounds every
    master value with `ot_round` before computing deltas. -/
def EPair.roundedAt (p : EPair) (i : Nat) : Int := otRound (p.vals.getD i 0)

def EPair.isCC (p : EPair) : Bool := p.e₁.isCls && p.e₂.isCls

/-- `ValueRecordBuilder::is_all_zeros` for a kern value: default 0 and no deltas ⇔ every rounded master value is 0. -/
def EPair.allZero (p : EPair) : Bool := p.vals.all fun v => otRound v == 0

/-- Lexicographic comparison of glyph-id lists (`IntSet<GlyphId16>: Ord` on inclusive sets). -/
def listLe : List Nat → List Nat → Bool
  | [], _ => true
  | _ :: _, [] => false
  | a :: as, b :: bs => if a < b then true else if b < a then false else listLe as bs

/-- derived `Ord` of `fontbe::orchestration::KernSide`: `Glyph(gid) < Group(set)`. -/
def Emit.le : Emit → Emit → Bool
  | .glyph a, .glyph b => a ≤ b
  | .glyph _, .cls _ => true
  | .cls _, .glyph _ => false
  | .cls a, .cls b => listLe a b

def EPair.le (p q : EPair) : Bool :=
  if p.e₁ = q.e₁ then p.e₂.le q.e₂ else p.e₁.le q.e₁

/-- One class-based (format 2) subtable under construction (`ClassPairPosSubtable`). -/
structure ClassSub where
  classes1 : List (List Nat)
  classes2 : List (List Nat)
  /-- newest first; a later insertion under the same classes replaces the earlier one -/
  items : List ((List Nat × List Nat) × EPair)
  deriving Repr, Inhabited

/-- `ClassDefBuilder::can_add`. -/
def canAdd (classes : List (List Nat)) (c : List Nat) : Bool :=
  classes.contains c || c.all fun g => !(classes.any (·.contains g))

/-- `ClassPairPosBuilder::insert`: into the last subtable if both classes fit, else a new subtable.
    (`subs` is kept newest-first.) -/
def insertClasses (subs : List ClassSub) (c₁ c₂ : List Nat) (p : EPair) : List ClassSub :=
  match subs with
  | last :: older =>
    if canAdd last.classes1 c₁ && canAdd last.classes2 c₂ then
      { classes1 := if last.classes1.contains c₁ then last.classes1 else c₁ :: last.classes1
        classes2 := if last.classes2.contains c₂ then last.classes2 else c₂ :: last.classes2
        items := ((c₁, c₂), p) :: last.items } :: older
    else
      { classes1 := [c₁], classes2 := [c₂], items := [((c₁, c₂), p)] } :: last :: older
  | [] => [{ classes1 := [c₁], classes2 := [c₂], items := [((c₁, c₂), p)] }]

def classSubs (ccs : List EPair) : List ClassSub :=
  (ccs.foldl (fun subs p =>
    match p.e₁, p.e₂ with
    | .cls c₁, .cls c₂ => insertClasses subs c₁ c₂ p
    | _, _ => subs) []).reverse

/-- A format-2 subtable at the pair (g₁, g₂): `none` if g₁ is not covered, else the record of
    (class of g₁, class of g₂) — a zero record when that class pair was never inserted. -/
def ClassSub.eval (t : ClassSub) (i : Nat) (g₁ g₂ : Nat) : Option Int :=
  match t.classes1.find? (·.contains g₁) with
  | none => none
  | some c₁ =>
    match t.classes2.find? (·.contains g₂) with
    | none => some 0
    | some c₂ =>
      match t.items.lookup (c₁, c₂) with
      | some p => some (p.roundedAt i)
      | none => some 0

/-- The pairs in the order `PairPosBuilder` receives them: sorted (kern.rs:836, again :1541), zero class/class
    pairs removed (:1227). -/
def ordered (ps : List EPair) : List EPair :=
  (insertSort EPair.le ps).filter fun p => !(p.isCC && p.allZero)

/-- The adjustment (in font units, at master `i`) the kern lookup applies to the ordered glyph pair (g₁, g₂).
    Glyph pairs (format 1, which precede the class subtables in the lookup): the first pair inserted for (g₁, g₂)
    — a glyph/class or class/glyph pair is enumerated into glyph pairs by `KernPair::add_to`.
    Otherwise the first class subtable that covers g₁. -/
def evalPairs (ps : List EPair) (i : Nat) (g₁ g₂ : Nat) : Int :=
  let o := ordered ps
  match o.find? fun p => !p.isCC && p.e₁.covers g₁ && p.e₂.covers g₂ with
  | some p => p.roundedAt i
  | none =>
    match (classSubs (o.filter (·.isCC))).findSome? fun t => t.eval i g₁ g₂ with
    | some v => v
    | none => 0

/-- UFO3 validity of the groups of one source: a glyph is in at most one group per side. -/
def validGroups : Groups → Bool
  | [] => true
  | p :: rest => (rest.all fun q => p.2.all fun g => !q.2.contains g) && validGroups rest

def Source.valid (s : Source) : Bool := validGroups s.groups1 && validGroups s.groups2

/-- Every glyph whose group differs between sources sits, in every source, in a group that source's kerning
    references (or in none).  This is the hypothesis `reconcile_correct` needs; see FontcProps/C09.lean. -/
def kernedWhereDivergent (srcs : List Source) : Bool :=
  [Side.first, Side.second].all fun side =>
    (sideGlyphs srcs side).all fun g =>
      !isDivergent srcs side g || srcs.all fun s => s.kernedGroupOf side g == s.groupOf side g

end Fontc.Kern
