/-
  C15 — component graphs: the depth sort, the cycle gate and the recursive walks.  Core Lean only.

  * `Graph α`          what every walk sees: glyph name ↦ list of component base names, as an association list
                       in `BTreeMap` order (fontdrasil/src/util.rs:18 takes `&BTreeMap<SmolStr, T>`; keys are
                       unique: hypothesis `(names g).Nodup` of the theorems).
  * `prune`            fontir/src/glyph.rs:229 `prune_missing_components` (drop references to absent glyphs).
  * `maxCompDepth`, `round`, `loop`, `depthCoreFuel`, `depthSort`
                       fontdrasil/src/util.rs:18-95 `depth_sorted_composite_glyphs`, literally: simple glyphs get
                       depth 0; `while progress > 0` runs rounds of `indeterminate_depth.retain(..)`; inside a round
                       a glyph placed earlier is already visible to a later one (`depths.insert` happens inside the
                       closure); `progress` = number of glyphs placed by the round; what is left when a round places
                       nothing is "cycles or bad refs"; the result is sorted by (depth, name).
                       The `while` loop is modelled with explicit fuel (`none` = fuel exhausted);
                       `depthSort_terminates` shows `g.length + 1` rounds always suffice.
  * `rejectCycles`     the gate of fixes/C15-component-cycle.patch (`reject_component_cycles`, run right after
                       `prune_missing_components` in `GlyphOrderWork::exec`): error iff the depth sort of the pruned
                       graph leaves a glyph over.
  * `walk`             the shape shared by every recursive descent through components (fontbe/src/glyphs.rs:753
                       `bbox_of_composite`, fontir/src/glyph.rs:596 `flatten_glyph`, :422 `convert_components_to_contours`,
                       fontbe/src/metrics_and_limits.rs:229 `update_composite_limits`, glyph.rs:172 `resolve_inconsistencies`):
                       a leaf value for a glyph without components, a combination of the children's values otherwise.
                       Fuel = recursion depth available (the stack / the work list); `none` = exhausted.
                       Instances: `flatten`, `resolveDepth`, `compositeLimits`.
  * `mainModel`        fontc/src/main.rs:12 + lib.rs:159 `run`: the stages in order, the first `Err` stops the run,
                       `write_font_file` is the last stage; fontc/src/workload.rs:817 a panicking job becomes
                       `Error::Panic`, :714 nothing launchable becomes `Error::UnableToProceed`.
-/
namespace Fontc.CompGraph

variable {α : Type} [DecidableEq α]

abbrev Graph (α : Type) := List (α × List α)
/-- `depths: HashMap<SmolStr, i32>` as an association list (newest entry first; `insert` = cons). -/
abbrev Depths (α : Type) := List (α × Nat)

def names (g : Graph α) : List α := g.map (·.1)

/-- components of glyph `n` (absent glyph: none) -/
def compsOf : Graph α → α → List α
  | [], _ => []
  | (m, cs) :: g, n => if m = n then cs else compsOf g n

/-- glyph.rs:229 `prune_missing_components`: `components.retain(|c| !missing.contains(&c.base))`. -/
def prune (g : Graph α) : Graph α :=
  g.map fun e => (e.1, e.2.filter fun c => decide (c ∈ names g))

/-- `depths.get(&name).copied()` -/
def depthOf : Depths α → α → Option Nat
  | [], _ => none
  | (m, d) :: ds, n => if m = n then some d else depthOf ds n

/-- util.rs:50-53 `component_names().map(|n| depths.get(&n).copied()).try_fold(0, |acc, e| e.map(|e| acc.max(e)))`:
    the maximum depth of the components, `none` as soon as one of them has no depth yet. -/
def maxCompDepth (ds : Depths α) : List α → Option Nat
  | [] => some 0
  | c :: cs =>
    match depthOf ds c with
    | none => none
    | some d =>
      match maxCompDepth ds cs with
      | none => none
      | some m => some (max d m)

/-- util.rs:49-59 one `indeterminate_depth.retain(..)`: returns the updated depths and the retained glyphs. -/
def round (ds : Depths α) : Graph α → Depths α × Graph α
  | [] => (ds, [])
  | (n, cs) :: rest =>
    match maxCompDepth ds cs with
    | some m => round ((n, m + 1) :: ds) rest
    | none => ((round ds rest).1, (n, cs) :: (round ds rest).2)

/-- util.rs:45-62 `while progress > 0 { progress = len; retain(..); progress -= len }` with fuel. -/
def loop : Nat → Nat → Depths α → Graph α → Option (Depths α × Graph α)
  | _, 0, ds, ind => some (ds, ind)
  | 0, _ + 1, _, _ => none
  | fuel + 1, _ + 1, ds, ind =>
    loop fuel (ind.length - (round ds ind).2.length) (round ds ind).1 (round ds ind).2

def simples (g : Graph α) : Graph α := g.filter fun e => e.2.isEmpty
def composites (g : Graph α) : Graph α := g.filter fun e => !e.2.isEmpty

/-- util.rs:29-62: initial depths (simple glyphs: 0), initial `indeterminate_depth` (glyphs with components),
    initial `progress` (number of simple glyphs), then the loop. -/
def depthCoreFuel (fuel : Nat) (g : Graph α) : Option (Depths α × Graph α) :=
  loop fuel (simples g).length ((simples g).map fun e => (e.1, 0)) (composites g)

/-- the loop with the fuel that `depthSort_terminates` proves sufficient -/
def depthCore (g : Graph α) : Depths α × Graph α :=
  (depthCoreFuel (g.length + 1) g).getD ([], g)

/-- insertion into a list sorted by `(depth, name)` (`nlt` = the order of names) -/
def insertByDepth (nlt : α → α → Bool) (x : α × Nat) : Depths α → Depths α
  | [] => [x]
  | y :: ys =>
    if x.2 < y.2 || (x.2 == y.2 && nlt x.1 y.1) then x :: y :: ys
    else y :: insertByDepth nlt x ys

/-- util.rs:87-93 `by_depth.sort()` on `(depth, name)` pairs -/
def sortByDepth (nlt : α → α → Bool) : Depths α → Depths α
  | [] => []
  | x :: xs => insertByDepth nlt x (sortByDepth nlt xs)

structure Sorted (α : Type) where
  /-- glyphs that received a depth, in output order, with their depth -/
  placed : Depths α
  /-- glyphs left in `indeterminate_depth`: "cycles or bad refs" (util.rs:65) -/
  leftover : List α

/-- `depth_sorted_composite_glyphs`: util.rs:65-71 removes the leftover names from `depths`, :87-93 sorts. -/
def depthSort (nlt : α → α → Bool) (g : Graph α) : Sorted α :=
  let r := depthCore g
  { placed := sortByDepth nlt (r.1.filter fun e => !(r.2.any fun l => l.1 == e.1)),
    leftover := r.2.map (·.1) }

/-- what the function returns: names only -/
def depthSortNames (nlt : α → α → Bool) (g : Graph α) : List α := (depthSort nlt g).placed.map (·.1)

/-- the cycle gate (`reject_component_cycles` of the fix): after pruning, something is left over -/
def rejectCycles (g : Graph α) : Bool := !(depthCore (prune g)).2.isEmpty

/-- a rank that strictly decreases along every component edge -/
def Acyclic (g : Graph α) : Prop := ∃ rank : α → Nat, ∀ n c, c ∈ compsOf g n → rank c < rank n

/-- every component names a glyph of the graph -/
def NoDangling (g : Graph α) : Prop := ∀ n c, c ∈ compsOf g n → c ∈ names g

/-! ### Recursive walks -/

/-- all children must return -/
def walkAll {β : Type} (f : α → Option β) : List α → Option (List β)
  | [] => some []
  | c :: cs =>
    match f c, walkAll f cs with
    | some a, some b => some (a :: b)
    | _, _ => none

/-- The recursive descent through components: `leaf` for a glyph without components, `node` combines the
    children's results. `fuel` bounds the recursion depth; `none` = the recursion did not return within it. -/
def walk {β : Type} (leaf : α → β) (node : α → List β → β) : Nat → Graph α → α → Option β
  | 0, _, _ => none
  | fuel + 1, g, n =>
    match compsOf g n with
    | [] => some (leaf n)
    | c :: cs => (walkAll (fun x => walk leaf node fuel g x) (c :: cs)).map (node n)

/-- glyph.rs:596 `flatten_glyph`: the simple glyphs a glyph's components bottom out in, in order -/
def flatten : Nat → Graph α → α → Option (List α) :=
  walk (fun n => [n]) (fun _ rs => rs.flatten)

/-- nesting depth below a glyph (glyphs.rs:753 `bbox_of_composite` recurses exactly this deep; maxp.maxComponentDepth) -/
def resolveDepth : Nat → Graph α → α → Option Nat :=
  walk (fun _ => 0) (fun _ rs => 1 + rs.foldl max 0)

structure Limits where
  points : Nat
  contours : Nat
  depth : Nat
  deriving DecidableEq, Repr

/-- metrics_and_limits.rs:257-264: points and contours add up, depth = max (child depth + 1) -/
def compositeLimits (own : α → Nat × Nat) : Nat → Graph α → α → Option Limits :=
  walk (fun n => ⟨(own n).1, (own n).2, 0⟩)
    (fun _ rs => rs.foldl (fun acc e => ⟨acc.points + e.points, acc.contours + e.contours, max acc.depth (e.depth + 1)⟩) ⟨0, 0, 0⟩)

/-! ### A tiny model of `main` / `run` / the workload's stop conditions -/

inductive JobResult where
  | ok
  | err (msg : String)
  | panic (msg : String)
  deriving DecidableEq, Repr

inductive Error where
  | source (msg : String)
  | job (msg : String)
  /-- workload.rs:824 `Err(Error::Panic(msg))` -/
  | panic (msg : String)
  /-- workload.rs:714 -/
  | unableToProceed (pending : Nat)
  | fileIo
  deriving DecidableEq, Repr

/-- workload.rs `exec`: completions are read in order; the first failed job ends the run (`read_completions` returns
    its error, a panic having been turned into `Error::Panic`); if all reported jobs succeeded but `pending` jobs can
    never be launched the run ends with `UnableToProceed`. -/
def workload : List JobResult → Nat → Except Error Unit
  | [], 0 => .ok ()
  | [], pending + 1 => .error (.unableToProceed (pending + 1))
  | .ok :: rest, pending => workload rest pending
  | .err m :: _, _ => .error (.job m)
  | .panic m :: _, _ => .error (.panic m)

structure RunInput where
  /-- `input.create_source()` -/
  source : Except String Unit
  jobs : List JobResult
  pending : Nat
  /-- the bytes `be_root.font` holds when every job succeeded -/
  font : List UInt8
  /-- does `fs::write(output_file, ..)` succeed -/
  writable : Bool

structure ProcOutcome where
  exitCode : Nat
  /-- what was written to the output file -/
  written : Option (List UInt8)
  /-- a diagnostic was printed (`error!("{e}")`) -/
  diagnostic : Bool
  deriving DecidableEq, Repr

/-- lib.rs:159 `run`: create_source, generate_font_internal (the workload), write_font_file — in this order, `?` after each. -/
def run (i : RunInput) : Except Error (List UInt8) :=
  match i.source with
  | .error m => .error (.source m)
  | .ok () =>
    match workload i.jobs i.pending with
    | .error e => .error e
    | .ok () => if i.writable then .ok i.font else .error .fileIo

/-- main.rs:12: `if let Err(e) = run(args) { error!(..); std::process::exit(1) }`, else fall off `main` (exit 0). -/
def mainModel (i : RunInput) : ProcOutcome :=
  match run i with
  | .ok bytes => { exitCode := 0, written := some bytes, diagnostic := false }
  | .error _ => { exitCode := 1, written := none, diagnostic := true }

end Fontc.CompGraph
