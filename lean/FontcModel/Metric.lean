/-
  Model of fontbe/src/metric_variations.rs (`AdvanceDeltas`, shared by HVAR and VVAR) and of the store choice in
  fontbe/src/hvar.rs / vvar.rs.

  `AdvanceDeltas` walks the glyphs in glyph order. For each glyph it takes the advance at each of the glyph's own
  masters (rounded with `OtRound`), finds — or creates and caches — the variation model of the glyph's own *set* of
  locations (`models: HashMap<BTreeSet<NormalizedLocation>, VariationModel>`, metric_variations.rs:44), and pushes the
  ties-even rounded deltas of that model. A glyph that is drawn at the default location only gets no deltas, except
  a leading `.notdef`, which is first made "dense" (its default advance copied to every glyph location).

  What the property needs from this bookkeeping (and what a cache keyed by less than the location set breaks): the
  deltas pushed for a glyph are those of the model of *its own* location set on *its own* values, whatever glyphs came
  before (`FontcProps.C04.add_uses_own_model`, `addAll_spec`).
-/
import FontcModel.VarModel

namespace Fontc.Metric
open Fontc Fontc.VarModel

/-- one glyph of the glyph order: its name and its masters (location, advance in font units, unrounded) -/
structure GlyphSrc where
  name : String
  masters : List (Loc × Rat)
  deriving Repr, Inhabited

/-- `BTreeSet<NormalizedLocation>` as a canonical list: the model's own sorted, duplicate-free location list.
    Two location lists have the same key iff they denote the same set (`FontcProps.C07.model_set_invariant`). -/
def keyOf (n : Nat) (locs : List Loc) : List Loc := (Model.new n locs).locations

/-- the deltas pushed for one glyph: the model that produced them and one optional delta per model location
    (in model order; `none` = the glyph has no master there) -/
structure Entry where
  model : Model
  deltas : List (Option Rat)
  deriving Repr

structure State where
  n : Nat
  /-- cache: location-set key ↦ model (insertion order; looked up by key) -/
  models : List (List Loc × Model)
  /-- per glyph, in glyph order; `none` = "spare the model the work": no variation -/
  deltas : List (Option Entry)
  /-- all the glyph locations of the font (`glyph_locations`) -/
  glyphLocs : List Loc
  deriving Repr

/-- `AdvanceDeltas::new`: the cache starts with the global model under the global location set. -/
def State.init (n : Nat) (globalLocs glyphLocs : List Loc) : State :=
  { n, models := [(keyOf n globalLocs, Model.new n globalLocs)], deltas := [], glyphLocs := glyphLocs.map (fit n) }

/-- the values handed to `model.deltas`: per model location the glyph's rounded advance there (`ot_round` at :106) -/
def valuesAt (n : Nat) (M : Model) (masters : List (Loc × Rat)) : Values :=
  M.locations.map fun l => (masters.find? fun p => fit n p.1 == l).map fun p => (otRound p.2 : Rat)

/-- `self.models.entry(locations).or_insert_with(…)` -/
def lookupOrInsert (n : Nat) (models : List (List Loc × Model)) (locs : List Loc) : List (List Loc × Model) × Model :=
  let key := keyOf n locs
  match models.lookup key with
  | some M => (models, M)
  | none => let M := Model.new n locs; (models ++ [(key, M)], M)

/-- the masters the model sees: a leading, default-only `.notdef` is made dense (metric_variations.rs:131-138) -/
def effectiveMasters (s : State) (g : GlyphSrc) : Option (List (Loc × Rat)) :=
  match g.masters with
  | [(l, a)] =>
    if s.deltas.length == 0 && g.name == ".notdef" then
      some ((l, a) :: (s.glyphLocs.filter fun gl => fit s.n l != gl).map fun gl => (gl, a))
    else none
  | ms => some ms

/-- `AdvanceDeltas::add` -/
def State.add (s : State) (g : GlyphSrc) : State :=
  match effectiveMasters s g with
  | none => { s with deltas := s.deltas ++ [none] }
  | some ms =>
    let (models, M) := lookupOrInsert s.n s.models (ms.map (·.1))
    { s with models, deltas := s.deltas ++ [some ⟨M, M.deltas Rounding.tiesEven.apply (valuesAt s.n M ms)⟩] }

def State.addAll (s : State) (gs : List GlyphSrc) : State := gs.foldl State.add s

/-- every cached model is the model of any location list with that key (what `lookupOrInsert` relies on) -/
def State.Inv (s : State) : Prop :=
  ∀ k M, (k, M) ∈ s.models → ∀ locs, keyOf s.n locs = k → M = Model.new s.n locs

/-- `is_single_model` (:178): HVAR/VVAR use the direct store (delta-set index = glyph id) iff one model was enough -/
def State.isSingleModel (s : State) : Bool := s.models.length == 1

/-- the value the font gives for glyph entry `e` at location `loc`: Σ scalar·delta over the model's regions, the
    default region (scalar 1 everywhere) carrying the default advance itself (hmtx / vmtx) -/
def Entry.valueAt (e : Entry) (loc : Loc) : Rat := interpolate e.model.influence e.deltas loc

/-! ### direct and indirect stores (hvar.rs:72-125)

  Direct: one delta set per glyph id, in glyph order (`VariationIndex` implicit). Indirect: the distinct delta sets
  are stored once and a `DeltaSetIndexMap` sends every glyph id to its set. -/

/-- the delta set of a glyph as the store sees it: (region, delta) pairs of the non-default regions -/
def Entry.deltaSet (e : Entry) : List (Region × Rat) :=
  ((e.model.influence.zip e.deltas).drop 1).filterMap fun (r, d) => d.map fun dv => (r, dv)

def deltaSetOf (e : Option Entry) : List (Region × Rat) :=
  match e with
  | some e => e.deltaSet
  | none => []

/-- indirect store: distinct delta sets in first-occurrence order + per-glyph index -/
def indirect (sets : List (List (Region × Rat))) : List (List (Region × Rat)) × List Nat :=
  let distinct := sets.eraseDups
  (distinct, sets.map fun s => distinct.idxOf s)

end Fontc.Metric
