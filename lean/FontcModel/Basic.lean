/-
  Shared arithmetic: the rounding functions fontc uses, over exact rationals.
  Core Lean only (linked into the native driver).
-/

namespace Fontc

/-- `write_fonts::OtRound` for f64: `(x + 0.5).floor()`. -/
def otRound (x : Rat) : Int := (x + 1/2).floor

/-- `f64::round_ties_even` (fontdrasil `RoundTiesEven for f64`). -/
def roundTiesEven (x : Rat) : Int :=
  let f := x.floor
  let frac := x - (f : Rat)
  if frac < 1/2 then f
  else if 1/2 < frac then f + 1
  else if f % 2 = 0 then f else f + 1

def ratAbs (x : Rat) : Rat := if x < 0 then -x else x

/-- Rounding behaviours of `VariationModel::deltas_with_rounding`. -/
inductive Rounding where
  | none
  | tiesEven
  deriving Repr, DecidableEq, Inhabited

def Rounding.apply : Rounding → Rat → Rat
  | .none, x => x
  | .tiesEven, x => (roundTiesEven x : Rat)

/-- Sum of a list of rationals (left fold, as the Rust folds do). -/
def ratSum (xs : List Rat) : Rat := xs.foldl (· + ·) 0

/-- Rust `f64 as i16` (saturating). -/
def satI16 (x : Int) : Int := if x < -32768 then -32768 else if x > 32767 then 32767 else x
/-- Rust `f64 as u16` (saturating). -/
def satU16 (x : Int) : Int := if x < 0 then 0 else if x > 65535 then 65535 else x
/-- Rust integer `as u16` from a wider integer (wrapping). -/
def wrapU16 (x : Int) : Int := x % 65536
def wrapI16 (x : Int) : Int := (x + 32768) % 65536 - 32768

/-- F2Dot14 quantisation used by `NormalizedCoord::to_f2dot14` (`F2Dot14::from_f32` rounds half away
    from zero on the 1/16384 grid in font-types ≥ 0.8: `(x * 16384.0).round()`), saturating. -/
def f2dot14Bits (x : Rat) : Int :=
  let s := x * 16384
  let r : Int := if s < 0 then -((-s + 1/2).floor) else (s + 1/2).floor
  satI16 r

end Fontc
