/-
  C14 — where intermediate state goes on disk.

  Literal model of
    fontdrasil/src/paths.rs   `string_to_filename`            (lines 1-50, 111-165)
    fontir/src/paths.rs       `Paths::target_file` (FE ids), `kern_ir_file`
    fontbe/src/paths.rs       `Paths::target_file` (BE ids), `kern_fragment_file`

  Strings are lists of Unicode code points (`Nat`); a Rust `&str` is such a list in which every
  element is a scalar value, the model is defined (and the theorems hold) for every list.
  Core Lean only: this file is linked into the native driver.
-/
import FontcModel.Basic

namespace Fontc.Paths

/-- a string literal as code points -/
def lit (s : String) : List Nat := s.toList.map Char.toNat

/-! ## fontdrasil/src/paths.rs -/

/-- `SEPARATOR_CHAR` = '^' (paths.rs:1) -/
def sepChar : Nat := 0x5E

/-- `is_reserved_char` (paths.rs:3-24): C0 controls, DEL, and ^ > | [ ? + \ " : / < % ] * -/
def isReservedChar (c : Nat) : Bool :=
  c ≤ 0x1F || c == 0x7F || c == 0x5E || c == 0x3E || c == 0x7C || c == 0x5B || c == 0x3F ||
  c == 0x2B || c == 0x5C || c == 0x22 || c == 0x3A || c == 0x2F || c == 0x3C || c == 0x25 ||
  c == 0x5D || c == 0x2A

/-- `u8::is_ascii_uppercase` / `char::is_ascii_uppercase` -/
def isAsciiUpper (b : Nat) : Bool := 0x41 ≤ b && b ≤ 0x5A

/-- `char::to_ascii_uppercase` -/
def toAsciiUpper (c : Nat) : Nat := if 0x61 ≤ c && c ≤ 0x7A then c - 0x20 else c

/-- `char::to_ascii_lowercase`: what an ASCII-case-insensitive file system does to a name. -/
def toAsciiLower (c : Nat) : Nat := if 0x41 ≤ c && c ≤ 0x5A then c + 0x20 else c

/-- the table of `is_reserved_filename` (paths.rs:26-43). Note: shorter than Windows' own list
    (COM5-9, LPT4-9, CONIN$ … are absent) — recorded, not relied upon by any theorem. -/
def reservedNames : List (List Nat) :=
  ["CON", "PRN", "AUX", "CLOCK$", "NUL", "COM1", "LPT1", "LPT2", "LPT3", "COM2", "COM3", "COM4"].map lit

/-- `is_reserved_filename` (paths.rs:26): compares the ASCII-uppercased *whole* name. -/
def isReservedFilename (name : List Nat) : Bool := reservedNames.contains (name.map toAsciiUpper)

/-- UTF-8 encoding of one scalar value (`str::as_bytes`). -/
def utf8Bytes (c : Nat) : List Nat :=
  if c < 0x80 then [c]
  else if c < 0x800 then [0xC0 + c / 64, 0x80 + c % 64]
  else if c < 0x10000 then [0xE0 + c / 4096, 0x80 + c / 64 % 64, 0x80 + c % 64]
  else [0xF0 + c / 262144, 0x80 + c / 4096 % 64, 0x80 + c / 64 % 64, 0x80 + c % 64]

def utf8 (s : List Nat) : List Nat := s.flatMap utf8Bytes

/-- `slice::chunks(5)` -/
def chunks5 {α : Type} : List α → List (List α)
  | a :: b :: c :: d :: e :: rest => [a, b, c, d, e] :: chunks5 rest
  | [] => []
  | l => [l]

/-- one base-32 digit per chunk: bit i is set iff byte i of the chunk is an ASCII capital
    (paths.rs:114-126) -/
def chunkDigit : List Bool → Nat
  | [] => 0
  | b :: r => (if b then 1 else 0) + 2 * chunkDigit r

/-- `while let Some(0) = code_digits.last() { code_digits.pop(); }` (paths.rs:128) -/
def stripTrailingZeros (ds : List Nat) : List Nat := (ds.reverse.dropWhile (· == 0)).reverse

/-- the per-byte capital mask of the name -/
def upperMask (name : List Nat) : List Bool := (utf8 name).map isAsciiUpper

/-- `code_digits` before the reserved-name adjustment (paths.rs:113-130) -/
def caseDigits (name : List Nat) : List Nat :=
  stripTrailingZeros ((chunks5 (upperMask name)).map chunkDigit)

/-- `BASE_32_CHARS[d]` (paths.rs:45): 0-9 A-V. Only called with d < 32. -/
def base32Char (d : Nat) : Nat := if d < 10 then 0x30 + d else 0x41 + (d - 10)

def hexDigitUpper (d : Nat) : Nat := if d < 10 then 0x30 + d else 0x41 + (d - 10)

/-- all hexadecimal digits of n, most significant first (for n ≥ 256 only) -/
def hexDigitsUpper (n : Nat) : List Nat :=
  if n < 16 then [hexDigitUpper n] else hexDigitsUpper (n / 16) ++ [hexDigitUpper (n % 16)]
termination_by n
decreasing_by omega

/-- `format!("{:02X}", n)`: at least two uppercase hex digits. -/
def hex2 (n : Nat) : List Nat :=
  if n < 256 then [hexDigitUpper (n / 16), hexDigitUpper (n % 16)] else hexDigitsUpper n

/-- one character of the name (paths.rs:133-141); `first` = `i == 0` -/
def escChar (first : Bool) (c : Nat) : List Nat :=
  if first && c == 0x2E then [0x25, 0x32, 0x45]          -- "%2E"
  else if !isReservedChar c then [c]
  else 0x25 :: hex2 c                                     -- format!("%{:02X}", c as u32)

/-- the escaped name (paths.rs:132-141) -/
def escBody : List Nat → List Nat
  | [] => []
  | c :: r => escChar true c ++ r.flatMap (escChar false)

/-- final `code_digits` (paths.rs:143-145) -/
def codeDigits (name : List Nat) : List Nat :=
  if (caseDigits name).isEmpty && isReservedFilename name then [0] else caseDigits name

/-- "^" + digits, or nothing (paths.rs:147-154) -/
def caseSuffix (name : List Nat) : List Nat :=
  if (codeDigits name).isEmpty then [] else sepChar :: (codeDigits name).map base32Char

/-- `string_to_filename(string, suffix)` (paths.rs:111-160) -/
def stringToFilename (name suffix : List Nat) : List Nat :=
  escBody name ++ caseSuffix name ++ suffix

/-- the name as a case-insensitive (ASCII folding) file system sees it -/
def asciiFold (s : List Nat) : List Nat := s.map toAsciiLower

/-! ## decimal and fixed-point formatting used in file names -/

/-- `usize as Display`: decimal, no padding -/
def decDigits (n : Nat) : List Nat :=
  if n < 10 then [0x30 + n] else decDigits (n / 10) ++ [0x30 + n % 10]
termination_by n
decreasing_by omega

/-- what `{:.2}` keeps of a coordinate: the sign and the number of hundredths after rounding
    (Rust rounds the exact binary value, ties to even). -/
def round2 (x : Rat) : Bool × Nat :=
  (decide (x < 0), (roundTiesEven ((if x < 0 then -x else x) * 100)).toNat)

/-- text of a rounded value: `[-]int.ff` (a negative value that rounds to zero prints `-0.00`) -/
def fmtRound2 (r : Bool × Nat) : List Nat :=
  (if r.1 then [0x2D] else []) ++ decDigits (r.2 / 100) ++ [0x2E, 0x30 + r.2 % 100 / 10, 0x30 + r.2 % 10]

/-- `format!("{:.2}", x)` for a finite f64 `x` (given exactly, as a rational) -/
def fmt2 (x : Rat) : List Nat := fmtRound2 (round2 x)

/-! ## fontir/src/paths.rs -/

/-- `font_types::Tag`: four bytes -/
structure Tag where
  b0 : Nat
  b1 : Nat
  b2 : Nat
  b3 : Nat
  deriving DecidableEq, Repr, Inhabited

/-- `Tag::new_checked` / `from_str` only produce such tags -/
def Tag.printable (t : Tag) : Prop :=
  (0x20 ≤ t.b0 ∧ t.b0 ≤ 0x7E) ∧ (0x20 ≤ t.b1 ∧ t.b1 ≤ 0x7E) ∧ (0x20 ≤ t.b2 ∧ t.b2 ≤ 0x7E) ∧ (0x20 ≤ t.b3 ∧ t.b3 ≤ 0x7E)

instance (t : Tag) : Decidable t.printable := by unfold Tag.printable; infer_instance

/-- `impl Display for Tag` (font-types tag.rs:206): printable bytes verbatim, others as `{0xNN}` -/
def tagByte (b : Nat) : List Nat :=
  if 0x20 ≤ b && b ≤ 0x7E then [b] else lit "{0x" ++ hex2 b ++ lit "}"

def Tag.render (t : Tag) : List Nat := tagByte t.b0 ++ tagByte t.b1 ++ tagByte t.b2 ++ tagByte t.b3

/-- `NormalizedLocation` as the list of its entries in `BTreeMap` (tag) order; coordinates are the
    exact values of the f64s. -/
abbrev Loc := List (Tag × Rat)

/-- `Vec<String>::join("_")` -/
def joinUnderscore : List (List Nat) → List Nat
  | [] => []
  | [x] => x
  | x :: y :: r => x ++ 0x5F :: joinUnderscore (y :: r)

/-! ### kerning-instance file, current code (fontir paths.rs `kern_ir_file`, after 75d720d)

  `format!("{tag}_{pos}")` prints the coordinate with f64's `Display`: the shortest decimal text that
  parses back to the same f64 (−0.0 is folded into 0 first). That printer (Grisu/Ryu in `core::fmt`) is
  not modelled: it is a parameter `pr : Rat → List Nat` of the model, the theorems assume what they need
  of it (`PrintInjective`, `PrintNoUnderscore`), and the driver checks both on every case against the
  real texts. -/

/-- the float printer sends different values to different texts -/
def PrintInjective (pr : Rat → List Nat) : Prop := ∀ x y, pr x = pr y → x = y

/-- the float printer never prints '_' (digits, '-', '.' only) -/
def PrintNoUnderscore (pr : Rat → List Nat) : Prop := ∀ x, 0x5F ∉ pr x

/-- `format!("{tag}_{pos}")` -/
def kernEntry (pr : Rat → List Nat) (e : Tag × Rat) : List Nat := e.1.render ++ 0x5F :: pr e.2

/-- the name handed to `string_to_filename` -/
def kernName (pr : Rat → List Nat) (l : Loc) : List Nat :=
  lit "kern_" ++ joinUnderscore (l.map (kernEntry pr))

/-- file name of `kern_ir_file` -/
def kernFileName (pr : Rat → List Nat) (l : Loc) : List Nat :=
  stringToFilename (kernName pr l) (lit ".yml")

/-! ### kerning-instance file as it was before 75d720d (kept for the record of the defect) -/

/-- `format!("{tag}_{:.2}", pos.to_f64())` -/
def kernEntryOld (e : Tag × Rat) : List Nat := e.1.render ++ 0x5F :: fmt2 e.2

/-- old `kern_ir_file`: `"kern_" + join("_") + ".yml"`, not passed through `string_to_filename` -/
def kernFileNameOld (l : Loc) : List Nat :=
  lit "kern_" ++ joinUnderscore (l.map kernEntryOld) ++ lit ".yml"

/-- `fontir::orchestration::WorkId` (orchestration.rs:297) -/
inductive FeId where
  | staticMetadata
  | globalMetrics
  | glyph (name : List Nat)
  | preliminaryGlyphOrder
  | glyphOrder
  | preliminaryGdefCategories
  | gdefCategories
  | features
  | kerningLocations
  | kernInstance (loc : Loc)
  | anchor (name : List Nat)
  | colorPalettes
  | paintGraph
  deriving DecidableEq, Repr, Inhabited

/-- `fontir::paths::Paths::target_file`, relative to the build directory, '/'-separated;
    `pr` is the float printer (see `kernFileName`) -/
def feTarget (pr : Rat → List Nat) : FeId → List Nat
  | .anchor name => lit "anchor_ir/" ++ stringToFilename name (lit ".yml")
  | .staticMetadata => lit "static_metadata.yml"
  | .preliminaryGlyphOrder => lit "glyph_order.preliminary.yml"
  | .glyphOrder => lit "glyph_order.yml"
  | .preliminaryGdefCategories => lit "gdef_categories.preliminary.yml"
  | .gdefCategories => lit "gdef_categories.yml"
  | .globalMetrics => lit "global_metrics.yml"
  | .glyph name => lit "glyph_ir/" ++ stringToFilename name (lit ".yml")
  | .features => lit "features.yml"
  | .kerningLocations => lit "kern_locations.yml"
  | .kernInstance loc => kernFileName pr loc
  | .colorPalettes => lit "colors.yml"
  | .paintGraph => lit "paint_graph.yml"

/-! ## fontbe/src/paths.rs -/

/-- `fontbe::orchestration::WorkId` (orchestration.rs:82) -/
inductive BeId where
  | features | featuresAst | avar | cmap | colr | cpal | font | fvar | gasp | glyf
  | glyfFragment (name : List Nat)
  | gpos | gsub | gdef | gvar
  | gvarFragment (name : List Nat)
  | head | hhea | hmtx | hvar | metaTable | vhea | vmtx | vvar
  | gatherIrKerning
  | kernFragment (segment : Nat)
  | gatherBeKerning
  | loca | locaFormat | marks | maxp | mvar | name | os2 | post | stat | extraFeaTables
  deriving DecidableEq, Repr, Inhabited

/-- `fontbe::paths::Paths::target_file` (fontbe paths.rs:37-78) -/
def beTarget : BeId → List Nat
  | .features => lit "features.marker"
  | .featuresAst => lit "features_ast.bin"
  | .glyfFragment name => lit "glyphs/" ++ stringToFilename name (lit ".glyf")
  | .gvarFragment name => lit "glyphs/" ++ stringToFilename name (lit ".gvar")
  | .avar => lit "avar.table"
  | .colr => lit "colr.table"
  | .cpal => lit "cpal.table"
  | .gasp => lit "gasp.table"
  | .glyf => lit "glyf.table"
  | .gsub => lit "gsub.table"
  | .gpos => lit "gpos.table"
  | .gdef => lit "gdef.table"
  | .gvar => lit "gvar.table"
  | .loca => lit "loca.table"
  | .locaFormat => lit "loca.format"
  | .cmap => lit "cmap.table"
  | .fvar => lit "fvar.table"
  | .head => lit "head.table"
  | .hhea => lit "hhea.table"
  | .hmtx => lit "hmtx.table"
  | .hvar => lit "hvar.table"
  | .gatherIrKerning => lit "kern_scatter.bin"
  | .kernFragment segment => stringToFilename (lit "kern_fragment_" ++ decDigits segment) (lit ".bin")
  | .gatherBeKerning => lit "kern_gather.bin"
  | .marks => lit "marks.bin"
  | .maxp => lit "maxp.table"
  | .mvar => lit "mvar.table"
  | .name => lit "name.table"
  | .os2 => lit "os2.table"
  | .post => lit "post.table"
  | .stat => lit "stat.table"
  | .metaTable => lit "meta.table"
  | .vhea => lit "vhea.table"
  | .vmtx => lit "vmtx.table"
  | .vvar => lit "vvar.table"
  | .extraFeaTables => lit "extra_tables.bin"
  | .font => lit "font.ttf"

/-- `AnyWorkId` restricted to the ids that have a file: FE and BE items share one build directory
    (fontc/src/lib.rs:228-233 passes the same `ir_dir` to both contexts). -/
inductive AnyId where
  | fe (id : FeId)
  | be (id : BeId)
  deriving DecidableEq, Repr, Inhabited

def anyTarget (pr : Rat → List Nat) : AnyId → List Nat
  | .fe id => feTarget pr id
  | .be id => beTarget id

end Fontc.Paths
