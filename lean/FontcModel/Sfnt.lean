/-
  Sfnt — model of `write_fonts::FontBuilder` (write-fonts 0.49.2 src/font_builder.rs) and of the table
  selection in fontbe/src/font.rs (`TABLES_TO_MERGE`, `has`, `bytes_for`, `FontWork::exec`).

  FontBuilder::build (font_builder.rs:171-252):
    * tables live in a `BTreeMap<Tag, bytes>`: `add_raw` replaces an existing tag            (`addRaw`)
    * the *data* of the tables is laid out in `ordered_tags()` order (OpenType recommended
      order, then alphabetical, `DSIG` last)                                                  (`physOrder`)
    * offsets start after the 12 + 16·n byte directory; every table is padded to 4 bytes     (`assign`)
    * a `head` table of ≥ 12 bytes has bytes 8..12 zeroed before its checksum is taken        (`zeroed`)
    * the table records are sorted by tag                                                     (`sortBy tagKey`)
    * checkSumAdjustment = 0xB1B0AFBA − (Σ table checksums + directory checksum)  (wrapping)  (`adjustment`)
    * output = directory ++ tables in physical order, head with the adjustment stored,
      each followed by `round4(len) − len` zero bytes                                         (`body`)

  Core Lean only.
-/
import FontcModel.Bytes

namespace Fontc.Sfnt
open Fontc.Bytes

/-! ## generic insertion sort by a `Nat` key (keys are distinct in every use, so any sort agrees) -/

def insertBy {α} (key : α → Nat) (a : α) : List α → List α
  | [] => [a]
  | b :: l => if key a ≤ key b then a :: b :: l else b :: insertBy key a l

def sortBy {α} (key : α → Nat) : List α → List α
  | [] => []
  | a :: l => insertBy key a (sortBy key l)

/-! ## FontBuilder -/

/-- `FontBuilder::add_raw`: BTreeMap insert (an existing entry with the same tag is replaced). -/
def addRaw (ts : List Table) (t : Table) : List Table :=
  ts.filter (fun u => u.tag != t.tag) ++ [t]

/-- RECOMMENDED_TABLE_ORDER_TTF (font_builder.rs:52) -/
def recommendedTtf : List UInt32 :=
  ["head", "hhea", "maxp", "OS/2", "hmtx", "LTSH", "VDMX", "hdmx", "cmap", "fpgm", "prep", "cvt ",
   "loca", "glyf", "kern", "name", "post", "gasp", "PCLT"].map tagOf

/-- RECOMMENDED_TABLE_ORDER_CFF (font_builder.rs:75) -/
def recommendedCff : List UInt32 :=
  ["head", "hhea", "maxp", "OS/2", "name", "cmap", "post", "CFF "].map tagOf

def dsigTag : UInt32 := tagOf "DSIG"

/-- sort key of `ordered_tags` (font_builder.rs:155): (group, index in recommended order, tag),
    packed into one number. The recommended list is the CFF one iff a `CFF ` table is present. -/
def physKey (cff : Bool) (t : Table) : Nat :=
  if t.tag = dsigTag then 2 * 2 ^ 40
  else
    match (if cff then recommendedCff else recommendedTtf).idxOf? t.tag with
    | some i => i * 2 ^ 32 + t.tag.toNat
    | none => 2 ^ 40 + t.tag.toNat

def tagKey (t : Table) : Nat := t.tag.toNat
def recKey (r : Rec) : Nat := r.tag.toNat

def physOrder (ts : List Table) : List Table :=
  sortBy (physKey (ts.any fun t => t.tag == cffTag)) ts

def isHeadAdj (t : Table) : Prop := t.tag = headTag ∧ 12 ≤ t.data.length

instance (t : Table) : Decidable (isHeadAdj t) := by unfold isHeadAdj; infer_instance

/-- the bytes whose checksum goes into the directory -/
def zeroed (t : Table) : Bytes := zeroedRaw t.tag t.data

def setAdj (d : Bytes) (v : Nat) : Bytes := d.take 8 ++ be32 v ++ d.drop 12

/-- the bytes written to the file -/
def final (adj : Nat) (t : Table) : Bytes := if isHeadAdj t then setAdj t.data adj else t.data

def padded (d : Bytes) : Bytes := d ++ List.replicate (pad4 d.length - d.length) 0

/-- table records in physical order, offsets accumulating from `pos` -/
def assign (pos : Nat) : List Table → List Rec
  | [] => []
  | t :: ts => ⟨t.tag, checksum (zeroed t), pos, t.data.length⟩ :: assign (pos + pad4 t.data.length) ts

def encodeRec (r : Rec) : Bytes :=
  be32 r.tag.toNat ++ be32 r.checksum ++ be32 r.offset ++ be32 r.length

def sfntVersion (recs : List Rec) : Nat := if hasCff recs then 0x4F54544F else 0x00010000

def directory (recs : List Rec) : Bytes :=
  let n := recs.length
  let sp := searchParams n
  be32 (sfntVersion recs) ++ be16 n ++ be16 sp.2.1 ++ be16 sp.1 ++ be16 sp.2.2 ++ recs.flatMap encodeRec

def records (ts : List Table) : List Rec :=
  sortBy recKey (assign (headerLen ts.length) (physOrder ts))

/-- `checksums.into_iter().fold(0u32, u32::wrapping_add)` -/
def wrappingSum (cs : List Nat) : Nat := cs.foldl (fun a c => (a + c) % 4294967296) 0

def adjustment (ts : List Table) : Nat :=
  let total := wrappingSum ((physOrder ts).map (fun t => checksum (zeroed t)) ++ [checksum (directory (records ts))])
  (magic + 4294967296 - total) % 4294967296

def body (adj : Nat) (phys : List Table) : Bytes := phys.flatMap fun t => padded (final adj t)

/-- `FontBuilder::build` for the tables `ts` (distinct tags). -/
def build (ts : List Table) : Bytes :=
  directory (records ts) ++ body (adjustment ts) (physOrder ts)

def bodyLen (ts : List Table) : Nat := (ts.map fun t => pad4 t.data.length).sum

/-- The inputs on which the Rust code neither panics (`u16::try_from(searchRange)`: n < 4096) nor
    overflows its `u32` position counter. -/
def fits (ts : List Table) : Prop := ts.length < 4096 ∧ headerLen ts.length + bodyLen ts < 4294967296

instance (ts : List Table) : Decidable (fits ts) := by unfold fits; infer_instance

/-- tables as they read back: sorted by tag, head carrying the adjustment -/
def expectedTables (ts : List Table) : List Table :=
  (sortBy tagKey ts).map fun t => ⟨t.tag, final (adjustment ts) t⟩

/-! ## fontbe/src/font.rs: which tables reach the builder -/

/-- What the backend context holds for one `WorkId` of `TABLES_TO_MERGE`. -/
inductive Slot where
  /-- `has(context, id) = false`: the work never ran / produced nothing (font.rs:72) -/
  | absent
  /-- `has = true` but `bytes_for` gives `None`: `to_bytes` failed validation/serialisation and
      `.ok()` swallowed it, or `avar` is `Some(None)` (font.rs:103-137) -/
  | dropped
  /-- `has = true`, `bytes_for = Some(bytes)` -/
  | bytes (b : Bytes)
  deriving Repr, DecidableEq

/-- TABLES_TO_MERGE (font.rs:43), in source order. -/
def tablesToMerge : List UInt32 :=
  ["avar", "cmap", "COLR", "CPAL", "fvar", "head", "hhea", "hmtx", "gasp", "glyf", "GPOS", "GSUB", "GDEF",
   "gvar", "loca", "maxp", "name", "OS/2", "post", "STAT", "HVAR", "MVAR", "meta", "vhea", "vmtx", "VVAR"].map tagOf

def baseTag : UInt32 := tagOf "BASE"
def debgTag : UInt32 := tagOf "Debg"

/-- `FontWork::exec` (font.rs:185-238): optional BASE and Debg from the FEA compiler first, then every
    slot of TABLES_TO_MERGE that is present and has bytes; `slots` is aligned with `tablesToMerge`. -/
def selectTables (base debg : Option Bytes) (slots : List Slot) : List Table :=
  let t0 : List Table := match base with | some b => addRaw [] ⟨baseTag, b⟩ | none => []
  let t1 := match debg with | some b => addRaw t0 ⟨debgTag, b⟩ | none => t0
  (tablesToMerge.zip slots).foldl (fun acc p =>
    match p.2 with
    | .bytes b => addRaw acc ⟨p.1, b⟩
    | _ => acc) t1

def assembleFont (base debg : Option Bytes) (slots : List Slot) : Bytes :=
  build (selectTables base debg slots)

end Fontc.Sfnt
