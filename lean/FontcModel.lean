import FontcModel.Sexp
import FontcModel.Basic
import FontcModel.VarModel
