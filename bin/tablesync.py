#!/usr/bin/env python3
"""tablesync.py <Cxx> — a small translator from /repo's *source text* to the constant tables the Lean models copy.

For the tables listed below it (1) extracts the table from the Rust source as it is now, (2) asks the Lean side
(`lean/.lake/build/bin/vtables`, built from the model files) for the model's copy, and prints a JSON report
{"tables": {name: {"rust": n, "model": n, "equal": bool, "only_rust": [...], "only_model": [...]}}, "error": ...}.
vcheck treats a table that differs (or that can no longer be extracted) as a broken correspondence.
The extraction is deliberately literal (regular expressions over one `const`/`fn` body): if the code is restructured so
that the pattern no longer matches, that is reported as `unextractable`, not silently passed.
"""
import json, os, re, subprocess, sys

VERIF = os.path.dirname(os.path.dirname(os.path.abspath(__file__)))
REPO = os.environ.get("VERIF_REPO_DIR", "/repo")


def read(rel):
    with open(os.path.join(REPO, rel), encoding="utf-8") as f:
        return f.read()


def strip_comments(src):
    src = re.sub(r"/\*.*?\*/", "", src, flags=re.S)
    return re.sub(r"//[^\n]*", "", src)


def body_after(src, header_re, open_ch, close_ch):
    """text between the first `open_ch` after the header and its matching `close_ch`"""
    m = re.search(header_re, src)
    if not m:
        raise ValueError(f"header {header_re!r} not found")
    i = src.index(open_ch, m.end() - 1 if src[m.end() - 1] == open_ch else m.end())
    depth, j = 0, i
    while j < len(src):
        c = src[j]
        if c == open_ch: depth += 1
        elif c == close_ch:
            depth -= 1
            if depth == 0:
                return src[i + 1:j]
        elif c in "'\"" and open_ch != c:
            # skip char / string literals (they may contain brackets)
            q = c; j += 1
            while j < len(src) and src[j] != q:
                if src[j] == "\\": j += 1
                j += 1
        j += 1
    raise ValueError("unbalanced body")


def num(s):
    s = s.replace("_", "")
    return int(s, 16) if s.lower().startswith("0x") else int(s)


def char_lit(s):
    """value of a Rust char literal body (without quotes)"""
    if s.startswith("\\x"): return int(s[2:], 16)
    if s.startswith("\\u{"): return int(s[3:-1], 16)
    esc = {"\\0": 0, "\\n": 10, "\\r": 13, "\\t": 9, "\\\\": 0x5C, "\\'": 0x27, '\\"': 0x22}
    if s in esc: return esc[s]
    if len(s) == 1: return ord(s)
    raise ValueError(f"char literal {s!r}")


CHAR = r"'((?:\\x[0-9A-Fa-f]{2}|\\u\{[0-9A-Fa-f]+\}|\\.|[^'\\]))'"


def t_unicode_ranges():
    src = strip_comments(read("fontbe/src/os2.rs"))
    body = body_after(src, r"const\s+UNICODE_RANGES\s*:[^=]*=\s*&\[", "[", "]")
    out = [f"{num(a)} {num(b)} {num(c)}" for a, b, c in re.findall(r"\(\s*(0x[0-9A-Fa-f_]+|\d+)\s*,\s*(0x[0-9A-Fa-f_]+|\d+)\s*,\s*(\d+)\s*\)", body)]
    if not out: raise ValueError("no entries")
    return out


def t_keywords():
    src = strip_comments(read("fea-rs/src/parse/lexer/lexeme.rs"))
    body = body_after(src, r"fn\s+from_keyword\s*\([^)]*\)\s*->\s*Option<Kind>\s*\{", "{", "}")
    body = body_after(body, r"match\s+word\s*\{", "{", "}")
    out = []
    for pats, kind in re.findall(r"((?:b\"[^\"]*\"\s*\|?\s*)+)=>\s*Some\(\s*Kind::(\w+)\s*\)", body):
        for w in re.findall(r'b"([^"]*)"', pats):
            out.append(f"{w} {kind}")
    if not out: raise ValueError("no entries")
    return out


def t_max_include_depth():
    src = strip_comments(read("fea-rs/src/parse/context.rs"))
    m = re.search(r"const\s+MAX_INCLUDE_DEPTH\s*:\s*usize\s*=\s*(\d+)\s*;", src)
    if not m: raise ValueError("MAX_INCLUDE_DEPTH not found")
    return [m.group(1)]


def t_sep_char():
    src = strip_comments(read("fontdrasil/src/paths.rs"))
    m = re.search(r"const\s+SEPARATOR_CHAR\s*:\s*char\s*=\s*" + CHAR + r"\s*;", src)
    if not m: raise ValueError("SEPARATOR_CHAR not found")
    return [str(char_lit(m.group(1)))]


def t_reserved_chars():
    src = strip_comments(read("fontdrasil/src/paths.rs"))
    sep = int(t_sep_char()[0])
    body = body_after(src, r"fn\s+is_reserved_char\s*\([^)]*\)\s*->\s*bool\s*\{", "{", "}")
    m = re.search(r"matches!\s*\(\s*c\s*,", body)
    if not m: raise ValueError("is_reserved_char is no longer a matches!(c, …)")
    pats = body[m.end():]
    pats = pats[:pats.rindex(")")]
    vals = set()
    tok = re.compile(r"(" + CHAR + r"\s*\.\.=\s*" + CHAR + r")|(" + CHAR + r")|(SEPARATOR_CHAR)")
    rest = pats
    for m in tok.finditer(pats):
        if m.group(1):
            vals.update(range(char_lit(m.group(2)), char_lit(m.group(3)) + 1))
        elif m.group(4):
            vals.add(char_lit(m.group(5)))
        else:
            vals.add(sep)
    leftover = tok.sub("", pats).replace("|", "").strip()
    if leftover: raise ValueError(f"pattern text {leftover!r} not understood")
    return [str(v) for v in sorted(v for v in vals if v < 0x100)] + [f"big {v}" for v in sorted(v for v in vals if v >= 0x100)]


def t_reserved_names():
    src = strip_comments(read("fontdrasil/src/paths.rs"))
    body = body_after(src, r"fn\s+is_reserved_filename\s*\([^)]*\)\s*->\s*bool\s*\{", "{", "}")
    if "to_ascii_uppercase" not in body: raise ValueError("is_reserved_filename no longer upper-cases the name")
    out = re.findall(r'"([^"]*)"', body)
    if not out: raise ValueError("no entries")
    return out


def t_tables_to_merge():
    src = strip_comments(read("fontbe/src/font.rs"))
    body = body_after(src, r"const\s+TABLES_TO_MERGE\s*:[^=]*=\s*&\[", "[", "]")
    tags = {"Os2": "OS/2"}
    out = []
    for _wid, ty in re.findall(r"\(\s*WorkId::(\w+)\s*,\s*(\w+)::TAG\s*\)", body):
        t = tags.get(ty)
        if t is None:
            t = ty if ty.isupper() or ty in () else ty
            # write-fonts type names: Avar -> avar, Gpos -> GPOS …; the OpenType tag case is fixed by the spec
            t = {"Avar": "avar", "Cmap": "cmap", "Colr": "COLR", "Cpal": "CPAL", "Fvar": "fvar", "Head": "head", "Hhea": "hhea",
                 "Hmtx": "hmtx", "Gasp": "gasp", "Glyf": "glyf", "Gpos": "GPOS", "Gsub": "GSUB", "Gdef": "GDEF", "Gvar": "gvar",
                 "Loca": "loca", "Maxp": "maxp", "Name": "name", "Post": "post", "Stat": "STAT", "Hvar": "HVAR", "Mvar": "MVAR",
                 "Meta": "meta", "Vhea": "vhea", "Vmtx": "vmtx", "Vvar": "VVAR", "Base": "BASE"}.get(ty, "?" + ty)
        out.append(t)
    if not out: raise ValueError("no entries")
    return out


# property -> [(table name as printed by vtables, extractor, order matters?)]
TABLES = {
    "C17": [("unicodeRanges", t_unicode_ranges, True)],
    "C13": [("keyword", t_keywords, False), ("maxIncludeDepth", t_max_include_depth, True)],
    "C14": [("sepChar", t_sep_char, True), ("reservedChar", t_reserved_chars, False), ("reservedName", t_reserved_names, False)],
    "C05": [("tablesToMerge", t_tables_to_merge, True)],
}


def main():
    pid = sys.argv[1]
    report = {"property": pid, "tables": {}}
    specs = TABLES.get(pid, [])
    if not specs:
        print(json.dumps(report)); return 0
    exe = os.path.join(VERIF, "lean", ".lake", "build", "bin", "vtables")
    try:
        out = subprocess.run([exe], stdout=subprocess.PIPE, text=True, check=True).stdout
    except Exception as e:  # noqa
        report["error"] = f"vtables did not run: {e}"
        print(json.dumps(report)); return 0
    model = {}
    for ln in out.splitlines():
        p, name, rest = (ln.split(" ", 2) + [""])[:3]
        if p == pid: model.setdefault(name, []).append(rest)
    for name, fn, ordered in specs:
        m = model.get(name, [])
        try:
            r = fn()
        except Exception as e:  # noqa
            report["tables"][name] = {"rust": None, "model": len(m), "equal": False, "unextractable": str(e)}
            continue
        eq = (r == m) if ordered else (sorted(r) == sorted(m))
        report["tables"][name] = {"rust": len(r), "model": len(m), "equal": eq,
                                  "only_rust": [x for x in r if x not in m][:10], "only_model": [x for x in m if x not in r][:10]}
    print(json.dumps(report))
    return 0


if __name__ == "__main__":
    sys.exit(main())
